use std::path::PathBuf;
use vh::engine::{drive, start_watchdog, Tier};

fn main() {
    let args: Vec<String> = std::env::args().skip(1).collect();
    // debugging aid only: VERIF_TRACE=<env-filter> prints litep2p's tracing output to stderr
    if let Ok(filter) = std::env::var("VERIF_TRACE") {
        let _ = tracing_subscriber::fmt().with_env_filter(tracing_subscriber::EnvFilter::new(filter)).with_writer(std::io::stderr).try_init();
    }
    if args.is_empty() {
        eprintln!("usage: vh <Cxx> [--tier quick|thorough] [--replay FILE]");
        std::process::exit(2);
    }
    let prop = args[0].clone();
    let mut tier = match std::env::var("VERIF_TIER").as_deref() {
        Ok("thorough") => Tier::Thorough,
        _ => Tier::Quick,
    };
    let mut replay: Option<PathBuf> = None;
    let mut i = 1;
    while i < args.len() {
        match args[i].as_str() {
            "--tier" => {
                i += 1;
                tier = match args.get(i).map(|s| s.as_str()) {
                    Some("quick") => Tier::Quick,
                    Some("thorough") => Tier::Thorough,
                    other => {
                        eprintln!("bad tier {other:?}");
                        std::process::exit(2);
                    }
                };
            }
            "--replay" => {
                i += 1;
                replay = args.get(i).map(PathBuf::from);
                if replay.is_none() {
                    eprintln!("--replay needs a file");
                    std::process::exit(2);
                }
            }
            "--dump-fuzz-seeds" => {
                // debugging aid: write the starting corpus of the libFuzzer target (selector byte included) into a directory
                i += 1;
                let dir = PathBuf::from(args.get(i).expect("--dump-fuzz-seeds needs a directory"));
                std::fs::create_dir_all(&dir).expect("create directory");
                for (k, b) in vh::props::fuzz_seed_corpus(&prop).into_iter().enumerate() {
                    std::fs::write(dir.join(format!("valid{k}")), b).expect("write seed");
                }
                std::process::exit(0);
            }
            "--fuzz-input" => {
                // debugging aid: judge one libFuzzer input in this (non-sanitised) process and print the case
                i += 1;
                let data = std::fs::read(args.get(i).expect("--fuzz-input needs a file")).expect("readable file");
                let run = vh::props::lookup(&prop).expect("known property");
                let started = std::time::Instant::now();
                match vh::engine::fuzz_eval(&prop, run, &data) {
                    None => println!("input rejected by the generator"),
                    Some(o) => println!("campaign {} case {} -> {:?} ({:?})", o.sub, o.case, o.result.as_ref().map(|k| k.nontrivial).map_err(|f| format!("[{}] {}", f.signature, f.message)), started.elapsed()),
                }
                std::process::exit(0);
            }
            other => {
                eprintln!("unknown argument {other}");
                std::process::exit(2);
            }
        }
        i += 1;
    }
    let seed: u64 = std::env::var("VERIF_SEED")
        .ok()
        .and_then(|s| s.trim().parse::<i128>().ok())
        .map(|v| v as u64)
        .unwrap_or(20260925);
    let Some(run) = vh::props::lookup(&prop) else {
        eprintln!("unknown property {prop}");
        std::process::exit(2);
    };
    start_watchdog(match tier {
        Tier::Quick => 300,
        Tier::Thorough => 3600,
    });
    let code = drive(&prop, tier, seed, replay, run);
    std::process::exit(code);
}
