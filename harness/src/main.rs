use std::path::PathBuf;
use vh::engine::{drive, start_watchdog, Tier};

fn main() {
    let args: Vec<String> = std::env::args().skip(1).collect();
    // debugging aid only: VERIF_TRACE=<env-filter> prints litep2p's tracing output to stderr
    if let Ok(filter) = std::env::var("VERIF_TRACE") {
        let _ = tracing_subscriber::fmt().with_env_filter(tracing_subscriber::EnvFilter::new(filter)).with_writer(std::io::stderr).try_init();
    }
    if args.is_empty() {
        eprintln!("usage: vh <Cxx> [--tier quick|thorough] [--replay FILE]");
        std::process::exit(2);
    }
    let prop = args[0].clone();
    let mut tier = match std::env::var("VERIF_TIER").as_deref() {
        Ok("thorough") => Tier::Thorough,
        _ => Tier::Quick,
    };
    let mut replay: Option<PathBuf> = None;
    let mut i = 1;
    while i < args.len() {
        match args[i].as_str() {
            "--tier" => {
                i += 1;
                tier = match args.get(i).map(|s| s.as_str()) {
                    Some("quick") => Tier::Quick,
                    Some("thorough") => Tier::Thorough,
                    other => {
                        eprintln!("bad tier {other:?}");
                        std::process::exit(2);
                    }
                };
            }
            "--replay" => {
                i += 1;
                replay = args.get(i).map(PathBuf::from);
                if replay.is_none() {
                    eprintln!("--replay needs a file");
                    std::process::exit(2);
                }
            }
            other => {
                eprintln!("unknown argument {other}");
                std::process::exit(2);
            }
        }
        i += 1;
    }
    let seed: u64 = std::env::var("VERIF_SEED")
        .ok()
        .and_then(|s| s.trim().parse::<i128>().ok())
        .map(|v| v as u64)
        .unwrap_or(20260925);
    let Some(run) = vh::props::lookup(&prop) else {
        eprintln!("unknown property {prop}");
        std::process::exit(2);
    };
    start_watchdog(match tier {
        Tier::Quick => 300,
        Tier::Thorough => 1800,
    });
    let code = drive(&prop, tier, seed, replay, run);
    std::process::exit(code);
}
