pub mod alloc_count;
pub mod common;
pub mod engine;
pub mod f2;
pub mod f3;
pub mod f4;
pub mod props;
pub mod rogue_noise;
pub mod rogue_session;

#[global_allocator]
static GLOBAL: alloc_count::Counting = alloc_count::Counting;
