pub mod common;
pub mod engine;
pub mod props;
