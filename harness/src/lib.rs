pub mod common;
pub mod engine;
pub mod f2;
pub mod props;
pub mod rogue_noise;
