//! C01 at a real node's listener: a rogue peer (see `rogue_session`) goes through the opening of a connection over TCP
//! with a valid or a forged identity proof. The node may report a connection — to its user or to any protocol — only for
//! the valid proof, and then under the peer id that is the hash of the rogue's own key.

use crate::common::peer_from_seed;
use crate::engine::{CaseFail, CaseOk, CaseResult};
use crate::f4::{case_panics, full_address, new_case_id, wait_until, Log, Node, NodeSetup, ObsKind, RrSetup};
use crate::rogue_session::RogueSession;
use crate::{ensure, fail};
use proptest::prelude::*;
use serde::{Deserialize, Serialize};
use std::sync::Arc;
use std::time::Duration;

#[derive(Debug, Clone, Serialize, Deserialize)]
pub struct Case {
    pub seed: u64,
    /// see `RogueSession::connect_forged`; several attempts on the same node, one after the other
    pub forges: Vec<u8>,
}

pub fn strategy() -> impl Strategy<Value = Case> {
    (any::<u64>(), prop::collection::vec(prop_oneof![2 => Just(0u8), 6 => 1u8..7], 1..4)).prop_map(|(seed, forges)| Case { seed, forges })
}

pub fn run_case(c: &Case) -> CaseResult {
    let log: Log = Arc::new(parking_lot::Mutex::new(Vec::new()));
    let case_id = new_case_id();
    let victim = Node::spawn(
        0,
        NodeSetup {
            seed: c.seed % 300 + 141_000,
            keep_alive: Some(Duration::from_secs(20)),
            rr: Some(RrSetup { timeout: Duration::from_millis(800), max_size: 1024, max_concurrent_inbound: None }),
            probes: 1,
            case_id,
            connection_open_timeout: Some(Duration::from_millis(1500)),
            substream_open_timeout: Some(Duration::from_millis(1500)),
            ..Default::default()
        },
        log.clone(),
    )
    .map_err(|e| CaseFail::new("C01/harness-node-start-failed", e))?;
    let addr_v = full_address(&victim);
    let port = addr_v.iter().find_map(|p| if let multiaddr::Protocol::Tcp(port) = p { Some(port) } else { None }).ok_or_else(|| CaseFail::new("C01/harness-no-port", "no tcp port"))?;
    let mut valid = 0usize;
    let mut forged = 0usize;
    for (k, forge) in c.forges.iter().enumerate() {
        let seed = c.seed % 1000 + 142_000 + 10 * k as u64;
        let own = peer_from_seed(seed);
        let mark = log.lock().len();
        let session = RogueSession::connect_forged(([127, 0, 0, 1], port).into(), seed, *forge);
        let reported = |l: &[crate::f4::Obs]| {
            l[mark.min(l.len())..]
                .iter()
                .filter(|o| o.node == 0)
                .filter_map(|o| match &o.kind {
                    ObsKind::ConnEstablished { peer, .. } | ObsKind::ProbeEstablished { peer, .. } => Some(*peer),
                    _ => None,
                })
                .collect::<Vec<_>>()
        };
        if *forge == 0 {
            valid += 1;
            if let Err(e) = &session {
                return Err(CaseFail::new("C01/harness-rogue-could-not-connect", format!("valid identity: {e}")));
            }
            ensure!(
                wait_until(&log, Duration::from_millis(3000), |l| reported(l).len() >= 2),
                "C01/harness-calibration-failed",
                "the node did not report the rogue's valid connection within 3 s"
            );
            std::thread::sleep(Duration::from_millis(50));
            let r = reported(&log.lock());
            ensure!(r.iter().all(|p| *p == own), "C01/connection-reported-under-another-identity", "valid proof for {own}; reported {:?}", r);
        } else {
            forged += 1;
            // give the node time to (wrongly) report something
            wait_until(&log, Duration::from_millis(400), |l| !reported(l).is_empty());
            let r = reported(&log.lock());
            if !r.is_empty() {
                fail!(
                    "C01/connection-reported-without-valid-identity-proof",
                    "forgery {forge} (attempt {k}; rogue's own id {own}, the other keypair's id {}): the node reported a connection with {:?}; the rogue's side of the opening ended with {:?}",
                    peer_from_seed(seed + 1),
                    r,
                    session.as_ref().err()
                );
            }
        }
        if let Ok(s) = session {
            s.shutdown();
        }
        std::thread::sleep(Duration::from_millis(30));
    }
    for p in case_panics(case_id) {
        if p.thread.ends_with("-node0") {
            fail!(format!("C01/panic@{}", p.location), "the node panicked: {}", p.message);
        }
    }
    Ok(CaseOk::nontrivial().class_if(valid > 0, "valid-proof-at-a-real-listener").class_if(forged > 0, "forged-proof-at-a-real-listener"))
}
