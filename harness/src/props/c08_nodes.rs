//! C08, end-to-end half: "a request to open a substream is answered at most once, with either the opened substream or
//! a failure carrying the same identifier, and exactly once unless its connection terminates first", with the real
//! `TcpConnection` event loop (negotiation, open timeouts) instead of the harness-played connection of the F3 campaigns.
//!
//! Three real nodes over loopback TCP. Nodes 0 and 1 run probe protocols `/vh/probe/0` and `/vh/probe/1`; node 2 runs
//! `/vh/absent/0` and `/vh/probe/1`, so opens of probe 0 towards node 2 are refused by negotiation. A node can be
//! *frozen* (its only worker thread blocked): its sockets stay open and nothing answers, which is how a silent peer
//! looks; the open then ends by the configured substream-open timeout.

use crate::engine::{CaseFail, CaseOk, CaseResult};
use crate::f4::{full_address, wait_until, Cmd, Log, Node, NodeSetup, Obs, ObsKind, ProbeCmd};
use crate::{ensure, fail};
use litep2p::PeerId;
use proptest::prelude::*;
use serde::{Deserialize, Serialize};
use std::collections::{BTreeMap, BTreeSet};
use std::sync::Arc;
use std::time::{Duration, Instant};

#[derive(Debug, Clone, Serialize, Deserialize)]
pub enum Op {
    /// connect the pair (a, b), a < b, by a dialing b — unless they are connected, or one of them is frozen or dead
    Connect { pair: u8 },
    /// `n` back-to-back open requests by a probe towards another node
    Open { node: u8, probe: u8, target: u8, n: u8 },
    DropHeld { node: u8, probe: u8 },
    Sleep { ms: u16 },
    ForceClose { node: u8, probe: u8, target: u8 },
    /// block the node's worker thread (node 1 or 2)
    Freeze { node: u8, ms: u16 },
    /// crash node 1 or 2
    Kill { node: u8 },
}

#[derive(Debug, Clone, Serialize, Deserialize)]
pub struct Case {
    /// pairs connected before the script starts (bit k = pair k)
    pub initial: u8,
    pub ops: Vec<Op>,
    pub seed: u64,
}

pub fn strategy() -> impl Strategy<Value = Case> {
    let op = prop_oneof![
        6 => (0u8..3).prop_map(|pair| Op::Connect { pair }),
        10 => (0u8..3, 0u8..2, 0u8..3, prop_oneof![4 => Just(1u8), 2 => Just(2), 1 => Just(5), 1 => Just(12)]).prop_map(|(node, probe, target, n)| Op::Open { node, probe, target, n }),
        2 => (0u8..3, 0u8..2).prop_map(|(node, probe)| Op::DropHeld { node, probe }),
        4 => prop_oneof![Just(0u16), Just(1), Just(3), Just(20), Just(100)].prop_map(|ms| Op::Sleep { ms }),
        2 => (0u8..3, 0u8..2, 0u8..3).prop_map(|(node, probe, target)| Op::ForceClose { node, probe, target }),
        3 => (1u8..3, prop_oneof![Just(50u16), Just(300), Just(700), Just(1200)]).prop_map(|(node, ms)| Op::Freeze { node, ms }),
        1 => (1u8..3).prop_map(|node| Op::Kill { node }),
    ];
    (prop_oneof![6 => Just(7u8), 1 => Just(3), 1 => Just(5), 1 => Just(1), 1 => Just(0)], prop::collection::vec(op, 3..14), any::<u64>()).prop_map(|(initial, ops, seed)| Case { initial, ops, seed })
}

const OPEN_TIMEOUT: Duration = Duration::from_millis(500);
const KEEP_ALIVE: Duration = Duration::from_millis(2500);

fn app_connected(log: &[Obs], node: usize, peer: &PeerId) -> i64 {
    let e = log.iter().filter(|o| o.node == node && matches!(&o.kind, ObsKind::ConnEstablished { peer: p, .. } if p == peer)).count() as i64;
    let c = log.iter().filter(|o| o.node == node && matches!(&o.kind, ObsKind::ConnClosed { peer: p } if p == peer)).count() as i64;
    e - c
}

fn pair_of(k: u8) -> (usize, usize) {
    match k % 3 {
        0 => (0, 1),
        1 => (0, 2),
        _ => (1, 2),
    }
}

pub fn run_case(c: &Case) -> CaseResult {
    let log: Log = Arc::new(parking_lot::Mutex::new(Vec::new()));
    let case_id = crate::f4::new_case_id();
    let mut nodes: Vec<Node> = Vec::new();
    for i in 0..3usize {
        let setup = NodeSetup {
            seed: c.seed % 500 + 41_000 + i as u64,
            keep_alive: Some(KEEP_ALIVE),
            probes: 2,
            probe_names: if i == 2 { vec!["/vh/absent/0".to_string(), "/vh/probe/1".to_string()] } else { Vec::new() },
            connection_open_timeout: Some(Duration::from_millis(1500)),
            substream_open_timeout: Some(OPEN_TIMEOUT),
            case_id,
            ..Default::default()
        };
        nodes.push(Node::spawn(i, setup, log.clone()).map_err(|e| CaseFail::new("C08/harness-node-start-failed", e))?);
    }
    let peers: Vec<PeerId> = nodes.iter().map(|n| n.peer).collect();
    let addrs: Vec<_> = nodes.iter().map(full_address).collect();
    let mut alive = [true; 3];
    let mut frozen_until: [Option<Instant>; 3] = [None; 3];
    let is_frozen = |f: &[Option<Instant>; 3], n: usize| f[n].map(|u| Instant::now() < u).unwrap_or(false);
    let mut two_connections = false;
    let mut opened_to_frozen = false;
    let mut opened_to_unsupported = false;
    let mut burst = false;
    let mut closed_with_pending = false;
    let mut last_open: Option<Instant> = None;

    let initial: Vec<Op> = (0..3u8).filter(|k| c.initial & (1 << k) != 0).map(|pair| Op::Connect { pair }).collect();
    for op in initial.iter().chain(c.ops.iter()) {
        match op {
            Op::Connect { pair } => {
                let (a, b) = pair_of(*pair);
                if !alive[a] || !alive[b] || is_frozen(&frozen_until, a) || is_frozen(&frozen_until, b) {
                    continue;
                }
                {
                    let l = log.lock();
                    if app_connected(&l, a, &peers[b]) > 0 || app_connected(&l, b, &peers[a]) > 0 {
                        continue;
                    }
                }
                nodes[a].send(Cmd::DialAddress(addrs[b].clone()));
                let (pa, pb) = (peers[a], peers[b]);
                let ok = wait_until(&log, Duration::from_millis(3000), |l| app_connected(l, a, &pb) > 0 && app_connected(l, b, &pa) > 0);
                if !ok {
                    return Err(CaseFail::new("C08/harness-calibration-failed", format!("nodes {a} and {b} did not connect within 3 s")));
                }
                // both probes of both ends have been told
                let told = wait_until(&log, Duration::from_millis(2000), |l| {
                    [(a, pb), (b, pa)].iter().all(|(n, p)| (0..2).all(|k| probe_connected(l, *n, k, p)))
                });
                if !told {
                    return Err(CaseFail::new("C08/harness-calibration-failed", "probes were not told about a new connection within 2 s"));
                }
            }
            Op::Open { node, probe, target, n } => {
                let from = *node as usize % 3;
                let mut to = *target as usize % 3;
                if to == from {
                    to = (to + 1) % 3;
                }
                if !alive[from] || is_frozen(&frozen_until, from) {
                    continue;
                }
                if alive[to] && is_frozen(&frozen_until, to) {
                    opened_to_frozen = true;
                }
                if to == 2 && *probe % 2 == 0 || from == 2 && *probe % 2 == 0 {
                    opened_to_unsupported = true;
                }
                if *n > 2 {
                    burst = true;
                }
                for _ in 0..*n {
                    let _ = nodes[from].probes[*probe as usize % 2].send(ProbeCmd::Open(peers[to]));
                }
                last_open = Some(Instant::now());
            }
            Op::DropHeld { node, probe } => {
                let n = *node as usize % 3;
                if alive[n] {
                    let _ = nodes[n].probes[*probe as usize % 2].send(ProbeCmd::DropHeld);
                }
            }
            Op::Sleep { ms } => std::thread::sleep(Duration::from_millis(*ms as u64)),
            Op::ForceClose { node, probe, target } => {
                let from = *node as usize % 3;
                let mut to = *target as usize % 3;
                if to == from {
                    to = (to + 1) % 3;
                }
                if !alive[from] {
                    continue;
                }
                if last_open.map(|t| t.elapsed() < Duration::from_millis(8)).unwrap_or(false) {
                    closed_with_pending = true;
                }
                let _ = nodes[from].probes[*probe as usize % 2].send(ProbeCmd::ForceClose(peers[to]));
            }
            Op::Freeze { node, ms } => {
                let n = *node as usize % 3;
                if n == 0 || !alive[n] || is_frozen(&frozen_until, n) {
                    continue;
                }
                nodes[n].send(Cmd::Freeze(Duration::from_millis(*ms as u64)));
                // the command is executed when the node's loop gets to it; count generously
                frozen_until[n] = Some(Instant::now() + Duration::from_millis(*ms as u64 + 30));
                std::thread::sleep(Duration::from_millis(3));
            }
            Op::Kill { node } => {
                let n = *node as usize % 3;
                if n == 0 || !alive[n] {
                    continue;
                }
                if last_open.map(|t| t.elapsed() < Duration::from_millis(8)).unwrap_or(false) {
                    closed_with_pending = true;
                }
                nodes[n].kill();
                alive[n] = false;
            }
        }
        // two simultaneous connections between a pair (not generated on purpose) make 'its connection terminated'
        // unobservable for the protocol: such cases are only judged for the at-most-once clauses
        let l = log.lock();
        for a in 0..3 {
            for b in 0..3 {
                if a != b && app_connected(&l, a, &peers[b]) > 1 {
                    two_connections = true;
                }
            }
        }
    }

    // settle: every freeze is over, then every open request has had 5 x the open timeout
    let freeze_left = frozen_until.iter().flatten().map(|u| u.saturating_duration_since(Instant::now())).max().unwrap_or_default();
    std::thread::sleep(freeze_left);
    let deadline = OPEN_TIMEOUT * 5 + Duration::from_millis(500);
    let t_settle = Instant::now();
    let settled = wait_until(&log, deadline, |l| (0..3).filter(|n| alive[*n]).all(|n| unresolved(l, n, &peers).is_empty()));
    let _ = t_settle;
    std::thread::sleep(Duration::from_millis(60));
    let history: Vec<Obs> = log.lock().clone();

    for p in crate::f4::case_panics(case_id) {
        fail!(format!("panic@{}", p.location), "a node thread panicked: {}", p.message);
    }

    let mut answered_total = 0usize;
    let mut failures_total = 0usize;
    for n in 0..3usize {
        if !alive[n] {
            continue;
        }
        // ids are never reused across the protocols of a node
        let mut all_ids: BTreeSet<usize> = BTreeSet::new();
        for o in history.iter().filter(|o| o.node == n) {
            if let ObsKind::ProbeOpenCalled { id: Some(id), probe, .. } = &o.kind {
                ensure!(all_ids.insert(*id), "C08/substream-id-reused", "node {n} probe {probe}: open_substream returned id {id} a second time");
            }
        }
        for k in 0..2usize {
            let mut issued: BTreeMap<usize, (usize, PeerId)> = BTreeMap::new(); // id -> (log index of the call, peer)
            let mut answers: BTreeMap<usize, u32> = BTreeMap::new();
            let mut connected_now: BTreeSet<Vec<u8>> = BTreeSet::new();
            for (i, o) in history.iter().enumerate().filter(|(_, o)| o.node == n) {
                match &o.kind {
                    ObsKind::ProbeEstablished { probe, peer } if *probe == k => {
                        ensure!(connected_now.insert(peer.to_bytes()), "C08/established-twice-without-closed", "node {n} probe {k} peer {peer}");
                    }
                    ObsKind::ProbeClosed { probe, peer } if *probe == k => {
                        ensure!(connected_now.remove(&peer.to_bytes()), "C08/closed-without-established", "node {n} probe {k} peer {peer}");
                    }
                    ObsKind::ProbeOpenCalled { probe, peer, id, err } if *probe == k => match id {
                        Some(id) => {
                            ensure!(connected_now.contains(&peer.to_bytes()), "C08/open-accepted-for-disconnected-peer", "node {n} probe {k}: open_substream({peer}) returned Ok({id}) while the protocol had not been told of a connection");
                            issued.insert(*id, (i, *peer));
                        }
                        None => {
                            // refused while the protocol believes the peer connected: only legitimate when the connection is
                            // going away (the closed event follows) or the command channel is full
                            let e = err.clone().unwrap_or_default();
                            if connected_now.contains(&peer.to_bytes()) && !e.contains("ChannelClogged") {
                                let closed_follows = history.iter().skip(i).any(|o2| o2.node == n && matches!(&o2.kind, ObsKind::ProbeClosed { probe, peer: p } if *probe == k && p == peer));
                                ensure!(closed_follows, "C08/open-refused-while-connected", "node {n} probe {k}: open_substream({peer}) failed with {e} while connected and no connection-closed event followed");
                            }
                        }
                    },
                    ObsKind::ProbeSubstream { probe, peer, inbound, id } if *probe == k => {
                        ensure!(connected_now.contains(&peer.to_bytes()), "C08/substream-event-for-disconnected-peer", "node {n} probe {k} peer {peer} inbound {inbound}");
                        if let Some(id) = id {
                            let Some((_, want)) = issued.get(id) else {
                                fail!("C08/answer-with-unknown-id", "node {n} probe {k}: substream opened with id {id} which this protocol never requested");
                            };
                            ensure!(want == peer, "C08/answer-for-wrong-peer", "node {n} probe {k}: id {id} was requested for {want} and opened to {peer}");
                            *answers.entry(*id).or_default() += 1;
                        }
                    }
                    ObsKind::ProbeOpenFailure { probe, id } if *probe == k => {
                        ensure!(issued.contains_key(id), "C08/answer-with-unknown-id", "node {n} probe {k}: open failure with id {id} which this protocol never requested");
                        failures_total += 1;
                        *answers.entry(*id).or_default() += 1;
                    }
                    _ => {}
                }
            }
            for (id, cnt) in &answers {
                ensure!(*cnt <= 1, "C08/open-request-answered-twice", "node {n} probe {k}: id {id} answered {cnt} times");
            }
            answered_total += answers.len();
            if !two_connections {
                for (id, (i, peer)) in &issued {
                    if answers.contains_key(id) {
                        continue;
                    }
                    let closed_after = history.iter().skip(*i).any(|o| o.node == n && matches!(&o.kind, ObsKind::ProbeClosed { probe, peer: p } if *probe == k && p == peer));
                    if !closed_after {
                        if !settled {
                            // the deadline passed with this request unanswered and its connection alive
                        }
                        fail!(
                            "C08/open-request-never-answered",
                            "node {n} probe {k}: open_substream({peer}) returned id {id}; {} ms later (open timeout {} ms) there is neither an opened substream, nor a failure, nor a connection-closed event",
                            history.last().map(|o| o.t.duration_since(history[*i].t).as_millis()).unwrap_or(0),
                            OPEN_TIMEOUT.as_millis()
                        );
                    }
                }
            }
        }
    }
    Ok(CaseOk::trivial()
        .nt(opened_to_frozen || closed_with_pending || (burst && opened_to_unsupported))
        .class_if(opened_to_frozen, "open-towards-silent-peer")
        .class_if(opened_to_unsupported, "open-of-unsupported-protocol")
        .class_if(burst, "burst-of-opens")
        .class_if(closed_with_pending, "terminated-with-open-pending")
        .class_if(two_connections, "two-connections-(exactly-once-not-judged)")
        .class_if(answered_total == 0, "no-open-answered")
        .class_if(answered_total > failures_total, "some-open-succeeded")
        .class_if(failures_total > 0, "some-open-failed")
        .class_if(opened_to_frozen && failures_total > 0, "silent-peer-and-failure-reported"))
}

fn probe_connected(l: &[Obs], node: usize, k: usize, peer: &PeerId) -> bool {
    let e = l.iter().filter(|o| o.node == node && matches!(&o.kind, ObsKind::ProbeEstablished { probe, peer: p } if *probe == k && p == peer)).count();
    let c = l.iter().filter(|o| o.node == node && matches!(&o.kind, ObsKind::ProbeClosed { probe, peer: p } if *probe == k && p == peer)).count();
    e > c
}

/// Open requests of `node` that have no answer and whose connection has not been reported closed since.
fn unresolved(l: &[Obs], node: usize, _peers: &[PeerId]) -> Vec<usize> {
    let mut out = Vec::new();
    for (i, o) in l.iter().enumerate().filter(|(_, o)| o.node == node) {
        if let ObsKind::ProbeOpenCalled { probe, peer, id: Some(id), .. } = &o.kind {
            let answered = l.iter().skip(i).any(|o2| {
                o2.node == node
                    && match &o2.kind {
                        ObsKind::ProbeSubstream { probe: p, id: Some(x), .. } => p == probe && x == id,
                        ObsKind::ProbeOpenFailure { probe: p, id: x } => p == probe && x == id,
                        ObsKind::ProbeClosed { probe: p, peer: q } => p == probe && q == peer,
                        _ => false,
                    }
            });
            if !answered {
                out.push(*id);
            }
        }
    }
    out
}
