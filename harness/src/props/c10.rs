//! C10 — the peer address book stays bounded, attributable and dialable.

use crate::engine::{CampaignCfg, CaseFail, CaseOk, CaseResult, Ctx};
use crate::f3::{addr_sel_strategy, build_addr, limit_strategy, run_history, AddrSel, History, Op, StepRecord, World, N_PEERS};
use crate::{ensure, fail};
use litep2p::verif::scripted::Call;
use litep2p::verif::tcp_multiaddr_to_socket_address;
use litep2p::PeerId;
use multiaddr::{Multiaddr, Protocol};
use proptest::prelude::*;
use std::cell::RefCell;
use std::collections::{BTreeMap, BTreeSet};
use std::net::IpAddr;

const BOUND: usize = 64;

type Snap = BTreeMap<Vec<u8>, (Multiaddr, i32)>;

fn snap(w: &World, p: &PeerId) -> Snap {
    w.m.peer_addresses(p).into_iter().map(|(a, s)| (a.to_vec(), (a, s))).collect()
}

fn ip_port(a: &Multiaddr) -> Option<(IpAddr, u16)> {
    let mut it = a.iter();
    let ip = match it.next()? {
        Protocol::Ip4(i) => IpAddr::V4(i),
        Protocol::Ip6(i) => IpAddr::V6(i),
        _ => return None,
    };
    match it.next()? {
        Protocol::Tcp(p) | Protocol::Udp(p) => Some((ip, p)),
        _ => None,
    }
}

/// "is one of the node's own listen addresses": exact match, or same port with the same ip / an unspecified listener and a
/// loopback address / two loopback addresses.
fn is_local(a: &Multiaddr, listen: &[Multiaddr]) -> bool {
    let stripped: Multiaddr = a.iter().take_while(|p| !matches!(p, Protocol::P2p(_))).collect();
    if listen.iter().any(|l| *l == stripped) {
        return true;
    }
    let Some((ip, port)) = ip_port(&stripped) else { return false };
    listen.iter().filter_map(ip_port).any(|(lip, lport)| lport == port && (lip == ip || (lip.is_unspecified() && ip.is_loopback()) || (lip.is_loopback() && ip.is_loopback())))
}

fn initial_score(a: &Multiaddr) -> i32 {
    match a.iter().next() {
        Some(Protocol::Ip4(ip)) => {
            let o = ip.octets();
            // the generator only produces 52.x (global), 192.168.x (private), 127.0.0.1, 0.0.0.0
            i32::from(o[0] == 52)
        }
        Some(Protocol::Ip6(ip)) => i32::from(ip.segments()[0] == 0x2a01),
        Some(Protocol::Dns(_)) | Some(Protocol::Dns4(_)) | Some(Protocol::Dns6(_)) => 1,
        _ => 0,
    }
}

#[derive(Default)]
struct St {
    prev: Vec<Snap>,
    over_bound: bool,
    rediscovery_after_score: bool,
    scored: BTreeSet<Vec<u8>>,
    eviction_seen: bool,
    capped_dial: bool,
}

fn check_step(w: &mut World, rec: &StepRecord, st: &RefCell<St>) -> Result<(), CaseFail> {
    let mut st = st.borrow_mut();
    if st.prev.is_empty() {
        st.prev = vec![Snap::new(); w.peers.len()];
    }
    let rescored: BTreeMap<Vec<u8>, i32> = rec.rescored.iter().map(|(a, s)| (a.to_vec(), *s)).collect();
    for i in 0..w.peers.len() {
        let p = w.peers[i];
        let before = st.prev[i].clone();
        let after = snap(w, &p);
        // (2) bounded
        ensure!(after.len() <= BOUND, "C10/more-addresses-than-the-bound", "peer {i}: {} addresses", after.len());
        // (1) attributable, not local, dialable by the transport's own parser
        for (a, _) in after.values() {
            match a.iter().last() {
                Some(Protocol::P2p(h)) => ensure!(
                    PeerId::from_multihash(h).ok() == Some(p),
                    "C10/stored-address-names-another-peer",
                    "peer {i}: {a} (after {})",
                    rec.op
                ),
                _ => fail!("C10/stored-address-without-peer-id", "peer {i}: {a}"),
            }
            ensure!(!is_local(a, &w.listen), "C10/own-listen-address-stored", "peer {i}: {a} with listen addresses {:?} (after {})", w.listen, rec.op);
            match tcp_multiaddr_to_socket_address(a) {
                Ok((_, Some(parsed))) => ensure!(parsed == p, "C10/transport-would-dial-another-peer", "peer {i}: {a} parses to {parsed} (after {})", rec.op),
                Ok((_, None)) => fail!("C10/stored-address-not-dialable", "peer {i}: {a}: the transport parser finds no peer id"),
                Err(e) => fail!("C10/stored-address-not-dialable", "peer {i}: {a}: {e} (after {})", rec.op),
            }
        }
        let added: Vec<&Vec<u8>> = after.keys().filter(|k| !before.contains_key(*k)).collect();
        let removed: Vec<&Vec<u8>> = before.keys().filter(|k| !after.contains_key(*k)).collect();
        // (3) displacement only at the bound, and only of lowest-scored addresses
        if !removed.is_empty() {
            st.eviction_seen = true;
            ensure!(before.len() + added.len() > BOUND || before.len() == BOUND, "C10/address-dropped-below-the-bound", "peer {i}: {} before, {} removed (after {})", before.len(), removed.len(), rec.op);
            // scores may have been rewritten earlier in this very step (a dial result naming several addresses): a displaced
            // address is judged by the lowest score it can have had, a survivor by the highest
            let min_survivor = before
                .iter()
                .filter(|(k, _)| after.contains_key(*k))
                .map(|(k, (_, s))| (*s).max(after[k].1))
                .min();
            if let Some(ms) = min_survivor {
                for r in &removed {
                    let (a, s) = &before[*r];
                    let s_eff = rescored.get(*r).map(|x| (*x).min(*s)).unwrap_or(*s);
                    ensure!(s_eff <= ms, "C10/displaced-address-was-not-lowest-scored", "peer {i}: {a} (score {s_eff}) was displaced while an address with score {ms} stayed (after {})", rec.op.chars().take(200).collect::<String>());
                }
            }
        }
        if before.len() >= BOUND {
            st.over_bound = true;
            // an offered valid new address that was not stored and displaced nothing must score below the minimum
            if removed.is_empty() && added.is_empty() {
                let min = before.values().map(|(_, s)| *s).min().unwrap();
                for (q, a) in &rec.offered {
                    // (judged for single-address offers only: in a batch a new address can be stored and displaced again)
                    if *q != p || !rec.op.starts_with("AddKnown") || rec.offered.len() != 1 {
                        continue;
                    }
                    // (an address offered without a peer id is refused by the current code although the statement allows
                    //  appending the id; only the only-if direction is checked for it)
                    let full = a.clone();
                    if before.contains_key(&full.to_vec()) || !canonical_ok(&full, p, &w.listen) {
                        continue;
                    }
                    ensure!(initial_score(&full) < min, "C10/new-address-refused-although-not-below-minimum", "peer {i}: {full} (initial score {}) refused, minimum stored score {min}", initial_score(&full));
                }
            }
        }
        // (4) scores change only for the addresses this step's dial result names, to the value the result implies
        for (k, (a, s_after)) in &after {
            match before.get(k) {
                Some((_, s_before)) => {
                    if let Some(expect) = rescored.get(k) {
                        // (an address displaced and re-inserted by the same multi-address dial result restarts as a new record:
                        //  result score plus the initial bonus)
                        let multi = rec.rescored.len() > 1 && before.len() >= BOUND;
                        ensure!(*s_after == *expect || (multi && *s_after == expect.saturating_add(initial_score(a))), "C10/dial-result-not-recorded-for-the-address-used", "peer {i}: {a}: score {s_before} -> {s_after}, the dial result implies {expect} (after {})", rec.op);
                    } else {
                        // in a multi-address offer at the bound an address can be displaced and offered again within the same
                        // call (it then legitimately restarts at its initial score): judged only across single-address steps
                        let reoffered_at_bound = before.len() + rec.offered.len() > BOUND && rec.offered.len() > 1 && rec.offered.iter().any(|(_, o)| o.to_vec() == *k);
                        ensure!(s_after == s_before || (reoffered_at_bound && *s_after == initial_score(a)), "C10/score-changed-for-an-address-not-used", "peer {i}: {a}: {s_before} -> {s_after} (after {})", rec.op.chars().take(200).collect::<String>());
                        if rec.op.starts_with("AddKnown") && st.scored.contains(k) && rec.offered.iter().any(|(_, o)| o.to_vec() == *k) {
                            st.rediscovery_after_score = true;
                        }
                    }
                }
                None => {
                    // a new address starts at its initial score unless this very step carries a dial result for it
                    if let Some(expect) = rescored.get(k) {
                        let init = initial_score(a);
                        ensure!(*s_after == *expect || *s_after == expect.saturating_add(init), "C10/dial-result-not-recorded-for-the-address-used", "peer {i}: new {a}: score {s_after}, expected {expect}");
                    } else {
                        ensure!(*s_after == initial_score(a), "C10/new-address-with-unexpected-score", "peer {i}: {a}: {s_after} (after {})", rec.op);
                    }
                }
            }
        }
        for k in rescored.keys() {
            if after.contains_key(k) {
                st.scored.insert(k.clone());
            }
        }
        // (6) floor: the canonical shape is remembered while there is room
        if rec.op.starts_with("AddKnown") && before.len() + rec.offered.len() <= BOUND {
            for (q, a) in &rec.offered {
                if *q != p {
                    continue;
                }
                let full = a.clone();
                if canonical_ok(&full, p, &w.listen) {
                    ensure!(after.contains_key(&full.to_vec()), "C10/canonical-address-not-remembered", "peer {i}: {full} (after {})", rec.op);
                }
            }
        }
        // (5) dial by peer id: addresses in non-increasing score order, a top-k set, k = min(|S|, free outbound capacity)
        if rec.op.starts_with("Dial {") && matches!(rec.api_result, Some(Ok(()))) {
            if let Some(id) = rec.new_attempt {
                if w.attempts[&id].peer == p {
                    if let Some(Call::Open { addresses, .. }) = rec.calls.iter().find(|c| matches!(c, Call::Open { id: i, .. } if *i == id)) {
                        let scores: Vec<i32> = addresses.iter().map(|a| before.get(&a.to_vec()).map(|(_, s)| *s).unwrap_or(i32::MIN)).collect();
                        for a in addresses {
                            ensure!(before.contains_key(&a.to_vec()), "C10/dialed-address-not-in-the-book", "peer {i}: {a}");
                        }
                        ensure!(scores.windows(2).all(|x| x[0] >= x[1]), "C10/dial-order-not-by-score", "peer {i}: scores {:?}", scores);
                        let out_now = w.truth.values().filter(|(_, l)| !*l).count();
                        let cap = w.max_out.map(|m| m.saturating_sub(out_now)).unwrap_or(usize::MAX);
                        let k = before.len().min(cap);
                        ensure!(addresses.len() == k, "C10/dial-uses-wrong-number-of-addresses", "peer {i}: {} addresses dialed, book has {}, free outbound capacity {}", addresses.len(), before.len(), cap);
                        if k < before.len() {
                            st.capped_dial = true;
                            let min_used = scores.iter().min().cloned().unwrap_or(i32::MAX);
                            let used: BTreeSet<Vec<u8>> = addresses.iter().map(|a| a.to_vec()).collect();
                            let max_unused = before.iter().filter(|(k, _)| !used.contains(*k)).map(|(_, (_, s))| *s).max().unwrap_or(i32::MIN);
                            ensure!(max_unused <= min_used, "C10/dial-skips-a-better-scored-address", "peer {i}: best unused score {max_unused}, worst used {min_used}");
                        }
                    }
                }
            }
        }
        st.prev[i] = after;
    }
    Ok(())
}

/// The canonical dialable shape for peer `p` that is not a local listen address.
fn canonical_ok(full: &Multiaddr, p: PeerId, listen: &[Multiaddr]) -> bool {
    let comps: Vec<Protocol> = full.iter().collect();
    if comps.len() != 3 {
        return false;
    }
    let first_ok = match &comps[0] {
        Protocol::Ip4(ip) => !ip.is_unspecified(),
        Protocol::Ip6(ip) => !ip.is_unspecified(),
        Protocol::Dns(_) | Protocol::Dns4(_) | Protocol::Dns6(_) => true,
        _ => false,
    };
    first_ok && matches!(comps[1], Protocol::Tcp(_)) && matches!(&comps[2], Protocol::P2p(h) if PeerId::from_multihash(*h).ok() == Some(p)) && !is_local(full, listen)
}

fn c10_strategy(max_ops: usize) -> impl Strategy<Value = History> {
    let peer = 0u8..2;
    let op = prop_oneof![
        8 => (peer.clone(), prop::collection::vec(addr_sel_strategy(true), 1..9)).prop_map(|(peer, addrs)| Op::AddKnown { peer, addrs }),
        3 => peer.clone().prop_map(|peer| Op::Dial { peer }),
        1 => (peer.clone(), addr_sel_strategy(true)).prop_map(|(peer, addr)| Op::DialAddress { peer, addr }),
        6 => (any::<u16>(), any::<u8>()).prop_map(|(pick, outcome)| Op::Resolve { pick, outcome }),
        1 => peer.prop_map(|peer| Op::Inbound { peer }),
        2 => any::<u16>().prop_map(|pick| Op::Close { pick }),
        2 => (0u8..2, prop_oneof![Just(0u8), Just(1u8), Just(4u8), Just(7u8)], 0u16..500, 20u8..90).prop_map(|(peer, first, start, count)| Op::Bulk { peer, first, start, count }),
    ];
    (
        prop_oneof![3 => Just(None), 1 => Just(Some(1u8)), 2 => Just(Some(3u8))],
        prop::collection::vec(op, 5..max_ops),
        prop::collection::vec((any::<u16>(), any::<u8>()), 0..8),
        prop::collection::vec(addr_sel_strategy(true), 0..3),
    )
        .prop_map(|(max_out, ops, drain, listen)| History {
            max_in: None,
            max_out,
            ops,
            drain,
            general: false,
            listen,
            accept_faults: false,
        })
}

fn run_case_with(h: &History, avoid: bool) -> CaseResult {
    let st = RefCell::new(St::default());
    let w = run_history(h, avoid, |w, rec| check_step(w, rec, &st), |_| Ok(()))?;
    let st = st.into_inner();
    let mut ok = CaseOk::trivial();
    ok.excluded = w.steered > 0;
    Ok(ok
        .nt(st.over_bound || st.rediscovery_after_score)
        .class_if(st.over_bound, "reached-64-addresses")
        .class_if(st.eviction_seen, "displacement-seen")
        .class_if(st.rediscovery_after_score, "rediscovery-after-scored-dial-result")
        .class_if(st.capped_dial, "dial-capped-by-outbound-capacity"))
}

// ---------------------------------------------------------------------------------------------
// grammar-only campaign: one offered address, what is remembered?

#[derive(Debug, Clone, serde::Serialize, serde::Deserialize)]
pub struct GrammarCase {
    pub addr: AddrSel,
    pub listen: Vec<AddrSel>,
}

fn run_grammar(c: &GrammarCase) -> CaseResult {
    let h = History {
        max_in: None,
        max_out: None,
        ops: vec![Op::AddKnown { peer: 0, addrs: vec![c.addr.clone()] }],
        drain: vec![],
        general: false,
        listen: c.listen.clone(),
        accept_faults: false,
    };
    let st = RefCell::new(St::default());
    let w = run_history(&h, false, |w, rec| check_step(w, rec, &st), |_| Ok(()))?;
    let stored = !w.m.peer_addresses(&w.peers[0]).is_empty();
    let _ = build_addr;
    Ok(CaseOk::nontrivial().class_if(stored, "remembered").class_if(!stored, "refused"))
}

pub fn run(ctx: &mut Ctx) {
    ctx.rule = "(grammar) one offered multiaddress from the grammar first in {ip4 global/private/loopback/unspecified, ip6 global/loopback/unspecified, dns, dns4, dns6, other} x \
        second in {tcp, udp, none, other} x tail in {none, /p2p/self, /p2p/other, /p2p/other/p2p/self, /p2p/self/p2p/other, /ws/p2p, /p2p/../ws, /quic-v1/p2p, /p2p/local} against 0..2 \
        listen addresses. (histories) add_known_address (1..8 addresses), dial, dial_address, dial results (success / failure kinds incl. AddressError), rediscovery, closes over 2 peers \
        with up to ~500 distinct addresses each, outbound limit in {none,1,3}. After every step the per-peer snapshots (address -> score) are compared. Non-trivial = a peer reached \
        64 stored addresses, or a known address was rediscovered after a scored dial result; every grammar case; distinct by case hash."
        .into();
    ctx.assumptions = vec![
        "scores: a new address starts at 1 if global/dns else 0; dial success sets 100, failure -100, AddressError i32::MIN (constants of address.rs `scores`)".into(),
        "the transport's own parser is called through a hook (TcpAddress::multiaddr_to_socket_address)".into(),
        "only-if direction for 'remembered'; converse demanded only for the canonical /ip|dns/tcp/p2p/<peer> shape while below the bound".into(),
    ];
    let t = ctx.tier;
    let avoid = ctx.avoid(crate::props::c05::SIG_G) && ctx.is_generate();
    ctx.campaign(
        "grammar",
        CampaignCfg::new(t.pick(30_000, 3_000_000)).shards(16),
        || (addr_sel_strategy(true), prop::collection::vec(addr_sel_strategy(true), 0..3)).prop_map(|(addr, listen)| GrammarCase { addr, listen }),
        run_grammar,
    );
    ctx.campaign("histories", CampaignCfg::new(t.pick(6_000, 600_000)).shards(16).shrink_iters(1500), move || c10_strategy(70), move |h: &History| run_case_with(h, avoid));
    let _ = (limit_strategy, N_PEERS);
}
