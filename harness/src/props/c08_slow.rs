//! C08, a protocol that is behind on its events: its event channel (4096 slots) is full when the connection has an answer
//! for one of its open requests. A real connection task waits for room; the answer must still arrive exactly once.
//!
//! One real `TransportService` behind the real manager, the harness plays the connection. The service issues open
//! requests in batches without reading its events, the connection answers each (mostly failures, some real substreams);
//! once 4096 answers are queued further answers block and the harness lets the protocol read a few events at a time.

use crate::common::{keypair_from_seed, peer_from_seed};
use crate::engine::{CaseFail, CaseOk, CaseResult};
use crate::f2::{pipe, PipeCfg};
use crate::{ensure, fail};
use futures::StreamExt;
use litep2p::protocol::{Direction, TransportEvent, TransportService};
use litep2p::verif::scripted::{Call, ConnCommand, Inject, VerifManager};
use litep2p::yamux;
use litep2p::{PeerId, ProtocolName};
use multiaddr::Multiaddr;
use proptest::prelude::*;
use serde::{Deserialize, Serialize};
use std::collections::BTreeMap;
use std::time::Duration;

#[derive(Debug, Clone, Serialize, Deserialize)]
pub struct Case {
    /// answers produced beyond the channel capacity
    pub extra: u16,
    /// requests per batch (the command channel of a connection holds 256)
    pub batch: u8,
    /// every n-th answer is a real substream (0 = failures only)
    pub success_every: u8,
    /// events the protocol reads each time the connection is blocked
    pub drain: u8,
    /// events already read by the protocol before the backlog builds up
    pub head_start: u16,
}

pub fn strategy() -> impl Strategy<Value = Case> {
    (
        prop_oneof![Just(1u16), Just(2), Just(7), Just(40), Just(300)],
        prop_oneof![Just(1u8), Just(50), Just(200), Just(250)],
        prop_oneof![3 => Just(0u8), 1 => Just(97), 1 => Just(250)],
        prop_oneof![Just(1u8), Just(3), Just(100)],
        prop_oneof![Just(0u16), Just(10), Just(4000)],
    )
        .prop_map(|(extra, batch, success_every, drain, head_start)| Case { extra, batch, success_every, drain, head_start })
}

const CHANNEL: usize = 4096;

struct Ledger {
    issued: BTreeMap<usize, ()>,
    answers: BTreeMap<usize, u32>,
    unknown: Option<usize>,
    read: usize,
}

fn note(ledger: &mut Ledger, ev: TransportEvent) {
    ledger.read += 1;
    let id = match ev {
        TransportEvent::SubstreamOpened { direction: Direction::Outbound(id), .. } => id.verif_raw(),
        TransportEvent::SubstreamOpenFailure { substream, .. } => substream.verif_raw(),
        _ => return,
    };
    if !ledger.issued.contains_key(&id) {
        ledger.unknown = Some(id);
    }
    *ledger.answers.entry(id).or_default() += 1;
}

fn read_events(service: &mut TransportService, gate: &std::sync::Arc<crate::common::WakeGate>, ledger: &mut Ledger, max: usize) {
    for _ in 0..max {
        match crate::common::next_if_woken(service, gate) {
            Some(ev) => note(ledger, ev),
            None => break,
        }
    }
}

pub fn run_case(c: &Case) -> CaseResult {
    crate::f2::block_on_paused(async {
        let (mut m, mut services) = VerifManager::new(keypair_from_seed(0xC085), None, None, vec![(ProtocolName::from("/c08/slow"), true)], Duration::from_secs(3600));
        let mut service = services.remove(0);
        let peer: PeerId = peer_from_seed(0xC08510);
        // yamux pair for the few real substreams
        let (a, b, _ab, _ba) = pipe(PipeCfg::default());
        let conn_a = yamux::Connection::new(a, yamux::Config::default(), yamux::Mode::Client);
        let conn_b = yamux::Connection::new(b, yamux::Config::default(), yamux::Mode::Server);
        let (mut control, mut conn_a) = yamux::Control::new(conn_a);
        let (_control_b, mut conn_b) = yamux::Control::new(conn_b);
        let t1 = tokio::spawn(async move { while let Some(Ok(_)) = conn_a.next().await {} });
        let t2 = tokio::spawn(async move {
            let mut keep = Vec::new();
            while let Some(Ok(s)) = conn_b.next().await {
                keep.push(s);
            }
        });
        // one outbound connection
        let address: Multiaddr = format!("/ip4/52.21.0.9/tcp/30333/p2p/{peer}").parse().unwrap();
        m.dial_address(address).map_err(|e| CaseFail::new("C08/harness-dial-refused", e))?;
        let mut conn: Option<usize> = None;
        for _ in 0..16 {
            let _ = m.poll();
            for call in m.take_calls() {
                if let Call::Dial { id, address } = call {
                    let stripped: Multiaddr = address.iter().take_while(|p| !matches!(p, multiaddr::Protocol::P2p(_))).collect();
                    m.inject(Inject::Established { peer, address: stripped, id, listener: false });
                    conn = Some(id);
                }
            }
            let _ = m.take_accept_results();
        }
        let conn = conn.ok_or_else(|| CaseFail::new("C08/harness-no-connection", "the dial did not reach the transport"))?;
        let mut ledger = Ledger { issued: BTreeMap::new(), answers: BTreeMap::new(), unknown: None, read: 0 };
        let gate = crate::common::WakeGate::new();
        let mut established = false;
        while let Some(ev) = crate::common::next_if_woken(&mut service, &gate) {
            if matches!(ev, TransportEvent::ConnectionEstablished { .. }) {
                established = true;
            }
        }
        if !established {
            return Err(CaseFail::new("C08/harness-no-connection", "the service was not told of the connection"));
        }

        let target = CHANNEL + c.extra as usize;
        let mut answered = 0usize;
        let mut blocked_answers = 0usize;
        let mut report_errors: Vec<String> = Vec::new();
        let batch = (c.batch as usize).clamp(1, 250);
        let mut head_start_left = c.head_start as usize;
        while answered < target {
            // a batch of requests; the service is not polled
            let mut requests: Vec<usize> = Vec::new();
            for _ in 0..batch.min(target - answered) {
                match service.open_substream(peer) {
                    Ok(id) => {
                        ensure!(ledger.issued.insert(id.verif_raw(), ()).is_none(), "C08/substream-id-reused", "id {}", id.verif_raw());
                    }
                    Err(e) => fail!("C08/open-refused-while-connected", "open_substream failed with {e:?} on a live connection whose command queue is read by the connection"),
                }
            }
            while let Some(cmd) = m.poll_connection(conn) {
                match cmd {
                    ConnCommand::OpenSubstream { substream_id, .. } => requests.push(substream_id),
                    _ => fail!("C08/harness-unexpected-command", "the connection got a close command"),
                }
            }
            for sid in requests {
                let full_before = ledger.issued.len() > 0 && answered - ledger.read.min(answered) >= CHANNEL;
                let n = answered + 1;
                let success = c.success_every != 0 && n % c.success_every as usize == 0;
                let mut drained_here = 0usize;
                let mut drain = || {
                    drained_here += 1;
                    read_events(&mut service, &gate, &mut ledger, c.drain.max(1) as usize);
                };
                let r = if success {
                    let stream = control.open_stream().await.map_err(|e| CaseFail::new("C08/harness-yamux-open-failed", format!("{e:?}")))?;
                    m.answer_open_success_draining(conn, sid, stream, &mut drain)
                } else {
                    m.answer_open_failure_draining(conn, sid, &mut drain)
                };
                if drained_here > 0 || full_before {
                    blocked_answers += 1;
                }
                if let Err(e) = r {
                    // a real connection task logs a failed report and carries on
                    report_errors.push(e);
                }
                answered += 1;
                if head_start_left > 0 {
                    let k = head_start_left.min(1);
                    read_events(&mut service, &gate, &mut ledger, k);
                    head_start_left -= k;
                }
            }
        }
        // now the protocol catches up
        read_events(&mut service, &gate, &mut ledger, usize::MAX >> 1);
        t1.abort();
        t2.abort();

        if let Some(id) = ledger.unknown {
            fail!("C08/answer-with-unknown-id", "the service was given an answer for id {id} which it never requested");
        }
        for (id, n) in &ledger.answers {
            ensure!(*n <= 1, "C08/open-request-answered-twice", "id {id} answered {n} times");
        }
        let missing: Vec<usize> = ledger.issued.keys().filter(|id| !ledger.answers.contains_key(id)).cloned().collect();
        ensure!(
            missing.is_empty(),
            "C08/open-request-never-answered",
            "{} of {} open requests were never answered although the connection is alive and answered every one of them (first missing id {}; {} answers were produced while the protocol's event channel was full; connection-side report errors: {:?})",
            missing.len(),
            ledger.issued.len(),
            missing[0],
            blocked_answers,
            report_errors.iter().take(2).collect::<Vec<_>>()
        );
        Ok(CaseOk::trivial()
            .nt(blocked_answers > 0)
            .class_if(blocked_answers > 0, "answer-produced-while-event-channel-full")
            .class_if(c.success_every != 0, "some-answers-are-substreams")
            .class_if(c.head_start >= 4000, "protocol-almost-keeps-up"))
    })
}
