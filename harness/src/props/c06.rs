//! C06 — connection caps: at most two per peer, configured limits never exceeded, capacity released on close.

use crate::engine::{CampaignCfg, CaseFail, CaseOk, CaseResult, Ctx};
use crate::f3::{history_strategy, run_history, History, StepRecord, World, N_PEERS};
use crate::{ensure, fail};
use litep2p::verif::scripted::{Call, Inject, MgrEvent};
use multiaddr::Multiaddr;
use proptest::prelude::*;
use std::cell::RefCell;
use std::collections::BTreeSet;

#[derive(Default)]
struct Flags {
    reached_limit: bool,
    closed_after_limit: bool,
    two_per_peer: bool,
    surplus_rejected: bool,
}

fn check_step(w: &mut World, rec: &StepRecord, flags: &RefCell<Flags>) -> Result<(), CaseFail> {
    let mut f = flags.borrow_mut();
    let (inb, out) = w.counts_truth();
    // caps
    if let Some(max) = w.max_in {
        ensure!(inb <= max, "C06/inbound-limit-exceeded", "step {}: {inb} inbound connections with limit {max}", rec.step);
        if inb == max {
            f.reached_limit = true;
        }
    }
    if let Some(max) = w.max_out {
        ensure!(out <= max, "C06/outbound-limit-exceeded", "step {}: {out} outbound connections with limit {max}", rec.step);
        if out == max && max > 0 {
            f.reached_limit = true;
        }
    }
    for i in 0..w.peers.len() {
        let p = w.peers[i];
        let ids: BTreeSet<usize> = w.truth.iter().filter(|(_, (q, _))| *q == p).map(|(id, _)| *id).collect();
        ensure!(ids.len() <= 2, "C06/more-than-two-connections-per-peer", "step {}: peer {i} has connections {:?}", rec.step, ids);
        if ids.len() == 2 {
            f.two_per_peer = true;
        }
        // the manager's view of the peer agrees with the connections that exist
        let view = w.state(&p);
        let view_ids: BTreeSet<usize> = view.iter().flat_map(|v| v.primary.iter().chain(v.secondary.iter()).cloned()).collect();
        ensure!(
            view_ids == ids,
            "C06/manager-connection-set-differs-from-open-connections",
            "step {} ({}): peer {i}: manager tracks {:?}, open connections {:?}",
            rec.step,
            rec.op,
            view_ids,
            ids
        );
    }
    // counted against the limits == connections that exist (capacity is released exactly when a counted connection closes)
    // (the manager only keeps a counter for a direction that has a limit configured)
    let counted = w.m.connection_counts();
    let expect = (if w.max_in.is_some() { inb } else { 0 }, if w.max_out.is_some() { out } else { 0 });
    ensure!(
        counted == expect,
        "C06/limit-counters-differ-from-open-connections",
        "step {} ({}): counted (in,out) {:?}, open {:?} (limits {:?}/{:?})",
        rec.step,
        rec.op,
        counted,
        (inb, out),
        w.max_in,
        w.max_out
    );
    // closing: the application hears about it exactly when the peer's last connection is gone
    if let Some((id, peer)) = rec.closed {
        let remaining = w.truth.values().filter(|(q, _)| *q == peer).count();
        let closed_events: Vec<&MgrEvent> = rec.events.iter().filter(|e| matches!(e, MgrEvent::Closed { peer: q, .. } if *q == peer)).collect();
        if remaining == 0 {
            ensure!(closed_events.len() == 1, "C06/close-of-last-connection-not-reported-once", "conn {id}: {} ConnectionClosed events", closed_events.len());
        } else {
            ensure!(closed_events.is_empty(), "C06/close-reported-while-another-connection-is-open", "conn {id}: {} remaining", remaining);
        }
        if w.max_in.is_some() || w.max_out.is_some() {
            f.closed_after_limit |= f.reached_limit;
        }
    }
    // a rejected surplus connection disturbs nothing
    if !rec.rejected.is_empty() {
        f.surplus_rejected = true;
        ensure!(
            rec.closed.is_some() || !rec.events.iter().any(|e| matches!(e, MgrEvent::Closed { .. })),
            "C06/rejection-closed-an-existing-connection",
            "step {}: {:?}",
            rec.step,
            rec.events
        );
        for id in &rec.rejected {
            ensure!(!w.truth.contains_key(id), "C06/rejected-connection-is-live", "conn {id}");
            ensure!(!rec.events.iter().any(|e| matches!(e, MgrEvent::Established { id: i, .. } if i == id)), "C06/rejected-connection-reported-established", "conn {id}");
        }
    }
    Ok(())
}

fn check_end(w: &mut World) -> Result<(), CaseFail> {
    // release probe: below the limits a connection from a peer we are not connected to is accepted, at the limit it is refused
    let fresh = w.peers[N_PEERS + 1];
    let (inb, out) = w.counts_truth();
    let id = w.m.next_connection_id();
    w.m.inject(Inject::PendingInbound { id });
    let _ = w.m.poll();
    let calls = w.m.take_calls();
    let room_in = w.max_in.map(|m| inb < m).unwrap_or(true);
    let accepted_pending = calls.iter().any(|c| matches!(c, Call::AcceptPending { id: i } if *i == id));
    let rejected_pending = calls.iter().any(|c| matches!(c, Call::RejectPending { id: i } if *i == id));
    if room_in {
        ensure!(accepted_pending, "C06/inbound-socket-refused-below-limit", "inbound {inb} limit {:?}: calls {:?}", w.max_in, calls);
        let address: Multiaddr = "/ip4/52.99.0.1/tcp/40000".parse().unwrap();
        w.m.inject(Inject::Established { peer: fresh, address, id, listener: true });
        let events = w.m.poll();
        let calls = w.m.take_calls();
        let accepted = calls.iter().any(|c| matches!(c, Call::Accept { id: i } if *i == id));
        let reported = events.iter().any(|e| matches!(e, MgrEvent::Established { id: i, .. } if *i == id));
        ensure!(
            accepted && reported,
            "C06/inbound-connection-refused-below-limit",
            "inbound {inb} limit {:?}: calls {:?} events {:?}",
            w.max_in,
            calls,
            events
        );
    } else {
        ensure!(rejected_pending && !accepted_pending, "C06/inbound-socket-accepted-at-limit", "inbound {inb} limit {:?}: calls {:?}", w.max_in, calls);
    }
    // outbound: a dial is possible iff below the outbound limit
    let fresh_out = w.peers[N_PEERS];
    let addr: Multiaddr = format!("/ip4/52.98.0.1/tcp/30333/p2p/{fresh_out}").parse().unwrap();
    let r = w.m.dial_address(addr.clone());
    let _ = w.m.poll();
    let calls = w.m.take_calls();
    let room_out = w.max_out.map(|m| out < m).unwrap_or(true);
    if room_out {
        let dial_id = calls.iter().find_map(|c| if let Call::Dial { id, .. } = c { Some(*id) } else { None });
        let Some(dial_id) = dial_id else {
            fail!("C06/dial-refused-below-outbound-limit", "outbound {out} limit {:?}: dial_address returned {:?}, calls {:?}", w.max_out, r, calls);
        };
        w.m.inject(Inject::Established { peer: fresh_out, address: "/ip4/52.98.0.1/tcp/30333".parse().unwrap(), id: dial_id, listener: false });
        let events = w.m.poll();
        let calls = w.m.take_calls();
        ensure!(
            calls.iter().any(|c| matches!(c, Call::Accept { id } if *id == dial_id)) && events.iter().any(|e| matches!(e, MgrEvent::Established { id, .. } if *id == dial_id)),
            "C06/outbound-connection-refused-below-limit",
            "outbound {out} limit {:?}: calls {:?} events {:?}",
            w.max_out,
            calls,
            events
        );
    } else {
        ensure!(r.is_err() && calls.is_empty(), "C06/dial-accepted-at-outbound-limit", "outbound {out} limit {:?}: {:?} calls {:?}", w.max_out, r, calls);
    }
    Ok(())
}

fn run_case_with(h: &History, avoid: bool) -> CaseResult {
    let flags = RefCell::new(Flags::default());
    let w = run_history(h, avoid, |w, rec| check_step(w, rec, &flags), check_end)?;
    let f = flags.into_inner();
    let mut ok = CaseOk::trivial();
    ok.excluded = w.steered > 0;
    Ok(ok
        .nt(f.closed_after_limit)
        .class_if(f.reached_limit, "reached-a-limit")
        .class_if(f.closed_after_limit, "closed-after-reaching-limit")
        .class_if(f.two_per_peer, "two-connections-to-one-peer")
        .class_if(f.surplus_rejected, "surplus-rejected")
        .class_if(w.accept_failed > 0, "accept-call-failed-and-rolled-back")
        .nt(w.accept_failed > 0))
}

pub fn run(ctx: &mut Ctx) {
    ctx.rule = "same history language as C05 (real TransportManager + scripted transport) biased to inbound arrivals: inbound sockets from 4 peers, dials, resolutions, closes, \
        limits (in,out) from {none,0,1,2,3}^2. After every step: per-peer connections <= 2, inbound/outbound <= limits, the manager's per-peer connection set and its limit \
        counters equal the set of open connections, closes are reported exactly for last connections, rejections disturb nothing; at the end a release probe (fresh inbound peer, \
        fresh outbound dial) must be accepted iff below the limit. Non-trivial = a history that reaches a limit and later closes a counted connection; distinct by case hash."
        .into();
    ctx.assumptions = vec![
        "truth = connections for which accept() was called and whose accept future resolved Ok, not yet closed by the harness".into(),
        "feasible transport behaviour as in C05; while the C05 finding (own dial established after the outbound limit filled) is open, histories do not over-commit the outbound limit".into(),
    ];
    let t = ctx.tier;
    let avoid = ctx.avoid(crate::props::c05::SIG_G) && ctx.is_generate();
    let run_case = move |h: &History| run_case_with(h, avoid);
    ctx.campaign("inbound-heavy", CampaignCfg::new(t.pick(60_000, 6_000_000)).shards(16), || history_strategy(40, false, 12, false), run_case);
    let depth = t.pick(4u32, 5);
    ctx.enumerate_indexed("small-scope-exhaustive", crate::f3::small_space_size(depth), 16, crate::f3::small_history, run_case);
    // the Transport trait lets accept() fail (the TCP transport never does): the manager rolls the connection back and the
    // capacity it had counted must be free again
    ctx.campaign(
        "accept-faults",
        CampaignCfg::new(t.pick(30_000, 1_500_000)).shards(16),
        || {
            history_strategy(40, false, 10, false).prop_map(|mut h| {
                h.accept_faults = true;
                h
            })
        },
        run_case,
    );
    ctx.campaign("nodes", CampaignCfg::new(t.pick(240, 5_000)).shards(16).shrink_iters(8), super::c06_nodes::strategy, super::c06_nodes::run_case);
    ctx.campaign("long", CampaignCfg::new(t.pick(8_000, 900_000)).shards(16), || history_strategy(120, false, 10, false), run_case);
}
