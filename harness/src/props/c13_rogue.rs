//! C13 against a misbehaving responder: the responder is a rogue node whose user protocol carries the request-response
//! protocol's name and speaks raw bytes (or nothing). Requests of a few bytes up to more than the 256 KiB stream window
//! meet a responder that never reads, reads and stays silent, answers with a short frame and stalls, announces more than
//! the maximum, answers garbage, closes at once, answers twice, or answers correctly.
//!
//! Oracle: every request gets exactly one terminal event within 5 x the request timeout (+ the open timeout) while the
//! connection stays up; a delivered response is byte-identical to the first complete frame the rogue wrote.

use crate::common::uvarint;
use crate::engine::{CaseFail, CaseOk, CaseResult};
use crate::f4::{full_address, wait_until, Cmd, Log, Node, NodeSetup, Obs, ObsKind, ProbeCmd, RawReply, RrSetup, RR_PROTOCOL};
use crate::{ensure, fail};
use litep2p::PeerId;
use proptest::prelude::*;
use serde::{Deserialize, Serialize};
use std::sync::Arc;
use std::time::{Duration, Instant};

#[derive(Debug, Clone, Serialize, Deserialize)]
pub enum Behaviour {
    /// hold the substream and never read nor write
    NeverRead,
    /// read what is there, then stay silent
    ReadAndStall,
    /// a correct response of `len` bytes
    Answer { len: u32 },
    /// a length prefix announcing `announced` bytes followed by only `sent`
    ShortFrame { announced: u32, sent: u32 },
    /// a response longer than the requester's maximum
    TooBig,
    Garbage(Vec<u8>),
    /// close without a byte
    CloseAtOnce,
    /// two correct responses back to back
    AnswerTwice { len: u32 },
}

#[derive(Debug, Clone, Serialize, Deserialize)]
pub struct Step {
    pub behaviour: Behaviour,
    /// request size class: 0 15 B, 1 2 KiB, 2 100 KiB, 3 300 KiB (more than the stream window), 4 1 MiB
    pub size: u8,
    /// cancel the request this many ms after issuing it
    pub cancel_after: Option<u8>,
}

#[derive(Debug, Clone, Serialize, Deserialize)]
pub struct Case {
    pub seed: u64,
    pub timeout_ms: u16,
    pub steps: Vec<Step>,
}

pub fn strategy() -> impl Strategy<Value = Case> {
    let behaviour = prop_oneof![
        3 => Just(Behaviour::NeverRead),
        2 => Just(Behaviour::ReadAndStall),
        3 => prop_oneof![Just(0u32), Just(1), Just(800), Just(60_000)].prop_map(|len| Behaviour::Answer { len }),
        2 => (prop_oneof![Just(10u32), Just(5_000)], prop_oneof![Just(0u32), Just(3)]).prop_map(|(announced, sent)| Behaviour::ShortFrame { announced, sent }),
        1 => Just(Behaviour::TooBig),
        1 => prop::collection::vec(any::<u8>(), 1..12).prop_map(Behaviour::Garbage),
        2 => Just(Behaviour::CloseAtOnce),
        1 => prop_oneof![Just(5u32), Just(900)].prop_map(|len| Behaviour::AnswerTwice { len }),
    ];
    let step = (behaviour, prop_oneof![3 => Just(0u8), 2 => Just(1), 1 => Just(2), 3 => Just(3), 1 => Just(4)], prop::option::weighted(0.15, prop_oneof![Just(0u8), Just(5), Just(60)]))
        .prop_map(|(behaviour, size, cancel_after)| Step { behaviour, size, cancel_after });
    (any::<u64>(), prop_oneof![Just(300u16), Just(500)], prop::collection::vec(step, 1..5)).prop_map(|(seed, timeout_ms, steps)| Case { seed, timeout_ms, steps })
}

const MAX: usize = 2 << 20;

fn connected(log: &[Obs], node: usize, peer: &PeerId) -> bool {
    let mut up = false;
    for o in log.iter().filter(|o| o.node == node) {
        match &o.kind {
            ObsKind::ConnEstablished { peer: p, .. } if p == peer => up = true,
            ObsKind::ConnClosed { peer: p } if p == peer => up = false,
            _ => {}
        }
    }
    up
}

fn framed(body: &[u8]) -> Vec<u8> {
    let mut v = uvarint(body.len() as u64);
    v.extend_from_slice(body);
    v
}

pub fn run_case(c: &Case) -> CaseResult {
    let log: Log = Arc::new(parking_lot::Mutex::new(Vec::new()));
    let case_id = crate::f4::new_case_id();
    let timeout = Duration::from_millis(c.timeout_ms as u64);
    let requester = Node::spawn(
        0,
        NodeSetup {
            seed: c.seed % 300 + 101_000,
            keep_alive: Some(Duration::from_secs(30)),
            rr: Some(RrSetup { timeout, max_size: MAX, max_concurrent_inbound: None }),
            connection_open_timeout: Some(Duration::from_millis(1500)),
            substream_open_timeout: Some(Duration::from_millis(1000)),
            case_id,
            ..Default::default()
        },
        log.clone(),
    )
    .map_err(|e| CaseFail::new("C13/harness-node-start-failed", e))?;
    let rogue = Node::spawn(
        1,
        NodeSetup {
            seed: c.seed % 300 + 102_000,
            keep_alive: Some(Duration::from_secs(30)),
            probes: 1,
            probe_names: vec![RR_PROTOCOL.to_string()],
            case_id,
            ..Default::default()
        },
        log.clone(),
    )
    .map_err(|e| CaseFail::new("C13/harness-node-start-failed", e))?;
    let (p0, p1) = (requester.peer, rogue.peer);
    requester.send(Cmd::DialAddress(full_address(&rogue)));
    if !wait_until(&log, Duration::from_millis(3000), |l| connected(l, 0, &p1) && connected(l, 1, &p0)) {
        return Err(CaseFail::new("C13/harness-calibration-failed", "requester and rogue responder did not connect within 3 s"));
    }
    let mut window_exceeded_and_unread = false;
    let mut faulty = 0usize;
    for (k, step) in c.steps.iter().enumerate() {
        if !connected(&log.lock(), 0, &p1) {
            break;
        }
        // what the rogue will do with the next inbound substream, and the response the requester may legitimately see
        let (reply, expect): (Option<RawReply>, Option<Vec<u8>>) = match &step.behaviour {
            Behaviour::NeverRead => (None, None),
            Behaviour::ReadAndStall => (Some(RawReply { read_first: true, chunks: vec![], hold_ms: 4000 }), None),
            Behaviour::Answer { len } => {
                let body = crate::engine::fill_bytes(k as u64 + 1, *len as usize);
                (Some(RawReply { read_first: true, chunks: vec![framed(&body)], hold_ms: 50 }), Some(body))
            }
            Behaviour::ShortFrame { announced, sent } => {
                let mut v = uvarint(*announced as u64);
                v.extend(crate::engine::fill_bytes(9, (*sent).min(*announced) as usize));
                (Some(RawReply { read_first: true, chunks: vec![v], hold_ms: 4000 }), None)
            }
            Behaviour::TooBig => (Some(RawReply { read_first: true, chunks: vec![uvarint(MAX as u64 + 1), vec![7u8; 64]], hold_ms: 200 }), None),
            Behaviour::Garbage(g) => {
                // random bytes can happen to be a complete, well-formed frame: then that frame is the response
                let mut len = 0u64;
                let mut used = 0usize;
                let mut ok = false;
                for (i, b) in g.iter().enumerate().take(10) {
                    len |= ((b & 0x7f) as u64) << (7 * i);
                    if b & 0x80 == 0 {
                        used = i + 1;
                        // a non-minimal encoding (trailing zero byte) is rejected by the varint decoder
                        ok = !(i > 0 && *b == 0);
                        break;
                    }
                }
                let frame = if ok && len as usize <= MAX && g.len() - used >= len as usize { Some(g[used..used + len as usize].to_vec()) } else { None };
                (Some(RawReply { read_first: true, chunks: vec![g.clone()], hold_ms: 200 }), frame)
            }
            Behaviour::CloseAtOnce => (Some(RawReply { read_first: false, chunks: vec![], hold_ms: 0 }), None),
            Behaviour::AnswerTwice { len } => {
                let body = crate::engine::fill_bytes(k as u64 + 50, *len as usize);
                let mut two = framed(&body);
                two.extend(framed(&crate::engine::fill_bytes(k as u64 + 51, *len as usize)));
                (Some(RawReply { read_first: true, chunks: vec![two], hold_ms: 50 }), Some(body))
            }
        };
        if expect.is_none() {
            faulty += 1;
        }
        if reply.is_none() {
            // hold whatever was held before as well: dropping would close earlier substreams, which is harmless
        }
        let _ = rogue.probes[0].send(ProbeCmd::SetReply(reply.clone()));
        std::thread::sleep(Duration::from_millis(5));
        let size = match step.size % 5 {
            0 => 15,
            1 => 2 << 10,
            2 => 100 << 10,
            3 => 300 << 10,
            _ => 1 << 20,
        };
        if size > 256 << 10 && matches!(step.behaviour, Behaviour::NeverRead) {
            window_exceeded_and_unread = true;
        }
        let sent_before = log.lock().iter().filter(|o| o.node == 0 && matches!(&o.kind, ObsKind::RrSent { .. } | ObsKind::RrSendError { .. })).count();
        let issued = Instant::now();
        requester.send(Cmd::RrSend { peer: p1, payload: crate::engine::fill_bytes(1000 + k as u64, size), dial: false });
        if !wait_until(&log, Duration::from_millis(2000), |l| l.iter().filter(|o| o.node == 0 && matches!(&o.kind, ObsKind::RrSent { .. } | ObsKind::RrSendError { .. })).count() > sent_before) {
            return Err(CaseFail::new("C13/harness-node-not-responding", "send_request did not return within 2 s"));
        }
        let id = log.lock().iter().rev().find_map(|o| if o.node == 0 { if let ObsKind::RrSent { id, .. } = &o.kind { Some(*id) } else { None } } else { None });
        let Some(id) = id else { continue };
        let mut cancelled = false;
        if let Some(ms) = step.cancel_after {
            std::thread::sleep(Duration::from_millis(ms as u64));
            requester.send(Cmd::RrCancel { id });
            cancelled = true;
        }
        // exactly one terminal event: within the open timeout + 5 request timeouts, unless the connection went away
        let deadline = Duration::from_millis(1000) + timeout * 5;
        let terminal = |l: &[Obs]| l.iter().filter(|o| o.node == 0 && matches!(&o.kind, ObsKind::RrResponse { id: i, .. } | ObsKind::RrFailed { id: i, .. } if *i == id)).count();
        let got = wait_until(&log, deadline, |l| terminal(l) > 0 || !connected(l, 0, &p1));
        if !cancelled && !got {
            fail!(
                "C13/request-without-terminal-event",
                "request {id} of {size} bytes to a responder that {:?}: no terminal event {} ms after it was issued (request timeout {} ms), the connection is still up",
                step.behaviour,
                issued.elapsed().as_millis(),
                c.timeout_ms
            );
        }
        std::thread::sleep(Duration::from_millis(60));
        let l = log.lock();
        let n = terminal(&l);
        ensure!(n <= 1, "C13/more-than-one-terminal-event", "request {id}: {n} terminal events");
        if let Some(resp) = l.iter().find_map(|o| if o.node == 0 { if let ObsKind::RrResponse { id: i, response, .. } = &o.kind { if *i == id { Some(response.clone()) } else { None } } else { None } } else { None }) {
            match &expect {
                Some(body) => ensure!(resp == *body, "C13/response-differs-from-what-the-responder-wrote", "request {id}: {} bytes delivered, {} written", resp.len(), body.len()),
                None => fail!("C13/response-delivered-although-none-was-written", "request {id} to a responder that {:?}: a response of {} bytes was delivered", step.behaviour, resp.len()),
            }
        }
    }
    for p in crate::f4::case_panics(case_id) {
        if p.thread.ends_with("-node0") {
            fail!(format!("panic@{}", p.location), "the requester panicked: {}", p.message);
        }
    }
    Ok(CaseOk::trivial()
        .nt(faulty > 0)
        .class_if(window_exceeded_and_unread, "request-larger-than-the-window-to-a-responder-that-never-reads")
        .class_if(faulty > 0, "misbehaving-responder")
        .class_if(c.steps.iter().any(|s| s.cancel_after.is_some()), "cancelled"))
}
