//! C02 — Noise transport delivers the exact byte stream or fails.

use crate::common::keypair_from_seed;
use crate::engine::{fill_bytes, CampaignCfg, CaseFail, CaseOk, CaseResult, Ctx};
use crate::f2::{block_on_paused, chunk_script_strategy, pipe, ChunkScript, FrameAttack, PipeCfg};
use crate::{ensure, fail};
use futures::io::{AsyncReadExt, AsyncWriteExt};
use futures::AsyncWrite;
use litep2p::config::Role;
use litep2p::verif::noise::{handshake, HandshakeTransport};
use proptest::prelude::*;
use serde::{Deserialize, Serialize};
use std::pin::Pin;
use std::time::Duration;

#[derive(Debug, Clone, Serialize, Deserialize)]
pub struct Case {
    pub read_ahead: u8,
    pub write_buf: u8,
    /// (length, flush afterwards)
    pub writes: Vec<(u32, bool)>,
    pub reader_bufs: Vec<u32>,
    pub deliver: ChunkScript,
    pub accept: ChunkScript,
    /// attack on ciphertext frame k of the data phase (k counted from the first transport frame)
    pub attack: Option<FrameAttack>,
    pub seed: u64,
    /// listener writes, dialer reads
    pub reverse: bool,
}

fn size_strategy() -> impl Strategy<Value = u32> {
    prop_oneof![
        4 => 1u32..20,
        3 => 20u32..2000,
        2 => Just(16_384u32),
        2 => 2000u32..40_000,
        3 => 65_500u32..65_540,
        1 => Just(65_519u32),
        1 => Just(65_520u32),
        1 => Just(65_521u32),
        2 => 131_020u32..131_060,
        1 => 131_060u32..200_000,
    ]
}

fn attack_strategy() -> impl Strategy<Value = FrameAttack> {
    let frame = prop_oneof![3 => 0u16..3, 2 => 3u16..10];
    prop_oneof![
        4 => (frame.clone(), any::<u32>(), 0u8..8).prop_map(|(frame, at, bit)| FrameAttack::Flip { frame, at, bit }),
        1 => (frame.clone(), 0u32..2, 0u8..8).prop_map(|(frame, at, bit)| FrameAttack::Flip { frame, at, bit }),
        2 => (frame.clone(), any::<u32>()).prop_map(|(frame, keep)| FrameAttack::Truncate { frame, keep }),
        2 => frame.clone().prop_map(|frame| FrameAttack::Drop { frame }),
        2 => frame.clone().prop_map(|frame| FrameAttack::Duplicate { frame }),
        2 => frame.clone().prop_map(|frame| FrameAttack::Swap { frame }),
        1 => (frame, 0u16..200, any::<u64>()).prop_map(|(frame, len, seed)| FrameAttack::Garbage { frame, len, seed }),
    ]
}

fn strategy(with_attack: bool, big: bool) -> impl Strategy<Value = Case> {
    let writes = if big {
        prop::collection::vec((size_strategy(), prop::bool::weighted(0.4)), 1..10).boxed()
    } else {
        prop::collection::vec((prop_oneof![6 => 1u32..3000, 1 => size_strategy()], prop::bool::weighted(0.4)), 1..14).boxed()
    };
    let rbuf = prop_oneof![
        1 => Just(1u32), 1 => Just(2u32), 1 => 15u32..18, 2 => Just(1024u32), 2 => Just(16_384u32), 1 => Just(65_519u32), 1 => Just(65_520u32), 1 => Just(131_072u32), 1 => 1u32..70_000,
    ];
    (
        1u8..=5,
        1u8..=3,
        writes,
        prop::collection::vec(rbuf, 1..5),
        chunk_script_strategy(),
        chunk_script_strategy(),
        if with_attack { attack_strategy().prop_map(Some).boxed() } else { Just(None).boxed() },
        any::<u64>(),
        any::<bool>(),
    )
        .prop_map(|(read_ahead, write_buf, writes, reader_bufs, deliver, accept, attack, seed, reverse)| Case {
            read_ahead,
            write_buf,
            writes,
            reader_bufs,
            deliver,
            accept,
            attack,
            seed,
            reverse,
        })
}

struct Outcome {
    received: usize,
    sent_total: usize,
    writer_err: Option<(usize, u32, String)>,
    reader_err: Option<String>,
    bad_write_return: Option<String>,
    mismatch_at: Option<usize>,
    frames: Vec<usize>,
    attack_applied: bool,
    frames_after_attack: usize,
    handshake_frames: usize,
    stalled: bool,
}

async fn run_async(c: &Case) -> Result<Outcome, CaseFail> {
    let kp_a = keypair_from_seed(c.seed ^ 1);
    let kp_b = keypair_from_seed(c.seed ^ 2);
    // transport frames follow the handshake frames of the writer's direction: dialer->listener carries 2, listener->dialer 1
    let hs_frames: u16 = if c.reverse { 1 } else { 2 };
    let shift = |a: &FrameAttack| -> FrameAttack {
        let mut a = a.clone();
        match &mut a {
            FrameAttack::Flip { frame, .. }
            | FrameAttack::Truncate { frame, .. }
            | FrameAttack::Drop { frame }
            | FrameAttack::Duplicate { frame }
            | FrameAttack::Swap { frame }
            | FrameAttack::Garbage { frame, .. }
            | FrameAttack::Substitute { frame, .. } => *frame += hs_frames,
        }
        a
    };
    let attack = c.attack.as_ref().map(shift);
    let mut cfg = PipeCfg::default();
    if c.reverse {
        cfg.b_to_a = c.deliver.clone();
        cfg.b_write = c.accept.clone();
        cfg.attack_b_to_a = attack;
    } else {
        cfg.a_to_b = c.deliver.clone();
        cfg.a_write = c.accept.clone();
        cfg.attack_a_to_b = attack;
    }
    let (a, b, ab, ba) = pipe(cfg);
    let (ra, rb) = tokio::join!(
        handshake(a, &kp_a, Role::Dialer, c.read_ahead as usize, c.write_buf as usize, Duration::from_secs(10), HandshakeTransport::Tcp),
        handshake(b, &kp_b, Role::Listener, c.read_ahead as usize, c.write_buf as usize, Duration::from_secs(10), HandshakeTransport::Tcp),
    );
    let (sa, _) = ra.map_err(|e| CaseFail::new("C02/honest-handshake-failed", format!("dialer: {e:?}")))?;
    let (sb, _) = rb.map_err(|e| CaseFail::new("C02/honest-handshake-failed", format!("listener: {e:?}")))?;
    let (mut w, mut r, dir) = if c.reverse { (sb, sa, ba) } else { (sa, sb, ab) };

    let mut sent = Vec::new();
    for (i, (len, _)) in c.writes.iter().enumerate() {
        sent.extend(fill_bytes(c.seed.wrapping_add(i as u64 * 7919), *len as usize));
    }
    let sent_ref = &sent;
    let writes = c.writes.clone();
    let writer = async move {
        let mut off_total = 0usize;
        let mut bad: Option<String> = None;
        for (i, (len, flush)) in writes.iter().enumerate() {
            let data = &sent_ref[off_total..off_total + *len as usize];
            let mut off = 0usize;
            while off < data.len() {
                let rest = &data[off..];
                match std::future::poll_fn(|cx| Pin::new(&mut w).poll_write(cx, rest)).await {
                    Ok(n) => {
                        if n == 0 || n > rest.len() {
                            bad = Some(format!("poll_write returned {n} for a buffer of {}", rest.len()));
                            return (Some((i, *len, "bad return".to_string())), bad);
                        }
                        off += n;
                    }
                    Err(e) => return (Some((i, *len, format!("{:?}", e.kind()))), bad),
                }
            }
            off_total += data.len();
            if *flush {
                if let Err(e) = w.flush().await {
                    return (Some((i, *len, format!("flush: {:?}", e.kind()))), bad);
                }
            }
        }
        if let Err(e) = w.close().await {
            return (Some((writes.len(), 0, format!("close: {:?}", e.kind()))), bad);
        }
        (None, bad)
    };
    let bufs = c.reader_bufs.clone();
    let reader = async move {
        let mut received = 0usize;
        let mut i = 0usize;
        let mut mismatch = None;
        let mut err = None;
        loop {
            let cap = bufs[i % bufs.len()].max(1) as usize;
            i += 1;
            let mut buf = vec![0u8; cap];
            match r.read(&mut buf).await {
                Ok(0) => break,
                Ok(n) => {
                    if n > cap || received + n > sent_ref.len() || buf[..n] != sent_ref[received..received + n] {
                        mismatch = Some(received);
                        break;
                    }
                    received += n;
                }
                Err(e) => {
                    err = Some(format!("{:?}", e.kind()));
                    break;
                }
            }
        }
        drop(r);
        (received, mismatch, err)
    };
    let joined = tokio::time::timeout(Duration::from_secs(3600), async { tokio::join!(writer, reader) }).await;
    let stalled = joined.is_err();
    let ((writer_err, bad), (received, mismatch, reader_err)) = match joined {
        Ok(v) => v,
        Err(_) => {
            return Ok(Outcome {
                received: 0,
                sent_total: sent.len(),
                writer_err: None,
                reader_err: None,
                bad_write_return: None,
                mismatch_at: None,
                frames: vec![],
                attack_applied: false,
                frames_after_attack: 0,
                handshake_frames: hs_frames as usize,
                stalled,
            })
        }
    };
    let (frames, applied, after) = dir.tap(|t| (t.frames.iter().map(|f| f.len()).collect::<Vec<_>>(), t.attack_applied, t.frames_after_attack));
    Ok(Outcome {
        received,
        sent_total: sent.len(),
        writer_err,
        reader_err,
        bad_write_return: bad,
        mismatch_at: mismatch,
        frames,
        attack_applied: applied,
        frames_after_attack: after,
        handshake_frames: hs_frames as usize,
        stalled,
    })
}

fn run_case(c: &Case) -> CaseResult {
    let o = block_on_paused(run_async(c))?;
    ensure!(!o.stalled, "C02/stall", "writer and reader both stalled (no progress for 1 h of virtual time)");
    if let Some(b) = &o.bad_write_return {
        fail!("C02/poll_write-returned-more-than-buffer", "{b}");
    }
    if let Some(at) = o.mismatch_at {
        fail!("C02/reader-received-altered-or-extra-plaintext", "after {at} correct bytes (attack {:?})", c.attack);
    }
    let max_write = c.writes.iter().map(|w| w.0).max().unwrap_or(0);
    let chunked = !c.deliver.is_passthrough() || !c.accept.is_passthrough();
    let mut ok = CaseOk::trivial()
        .class_if(max_write >= 65_000, "write-ge-65000")
        .class_if(o.sent_total > c.read_ahead as usize * 65536, "exceeds-read-ahead")
        .class_if(chunked, "carrier-chunked")
        .class_if(c.reader_bufs.iter().any(|b| *b < 16), "tiny-reader-buffer")
        .class_if(c.reverse, "listener-writes");
    match &c.attack {
        None => {
            if let Some((i, len, e)) = &o.writer_err {
                let sig = if *len >= 65_520 {
                    "C02/writer-error-on-honest-carrier/single-write>=65520"
                } else {
                    "C02/writer-error-on-honest-carrier"
                };
                fail!(sig, "write #{i} of {len} bytes failed with {e} on an untampered carrier (received so far {})", o.received);
            }
            ensure!(
                o.received == o.sent_total,
                "C02/bytes-lost-on-honest-carrier",
                "received {} of {} (reader ended with {:?})",
                o.received,
                o.sent_total,
                o.reader_err
            );
            Ok(ok.nt(max_write >= 65_000 || chunked).class("honest"))
        }
        Some(a) => {
            if !o.attack_applied {
                // the attacked frame never existed: the run is an honest one
                if o.writer_err.is_none() {
                    ensure!(o.received == o.sent_total, "C02/bytes-lost-on-honest-carrier", "received {} of {}", o.received, o.sent_total);
                }
                return Ok(ok.class("attack-not-reached"));
            }
            // plaintext carried by the frames before the attacked one
            let k = a.frame() as usize;
            let data_frames = &o.frames[o.handshake_frames.min(o.frames.len())..];
            let plain = |n: usize| -> usize { data_frames.iter().take(n).map(|f| f.saturating_sub(2 + 16)).sum() };
            let bound = match a {
                FrameAttack::Duplicate { .. } | FrameAttack::Garbage { .. } => plain(k + 1),
                FrameAttack::Swap { .. } if o.frames_after_attack == 0 => plain(k + 1),
                FrameAttack::Drop { .. } if o.frames_after_attack == 0 => plain(k),
                _ => plain(k),
            };
            ensure!(
                o.received <= bound,
                "C02/plaintext-delivered-past-tampered-frame",
                "received {} bytes but only {} were carried by frames before the attack {:?}",
                o.received,
                bound,
                a
            );
            let detectable = !matches!(a, FrameAttack::Drop { .. } | FrameAttack::Swap { .. }) || o.frames_after_attack > 0;
            if detectable {
                ensure!(o.reader_err.is_some(), "C02/no-error-after-tampering", "reader ended cleanly after {:?} (received {})", a, o.received);
            }
            ok = ok.class(match a {
                FrameAttack::Flip { .. } => "attack-flip",
                FrameAttack::Truncate { .. } => "attack-truncate",
                FrameAttack::Drop { .. } => "attack-drop",
                FrameAttack::Duplicate { .. } => "attack-replay",
                FrameAttack::Swap { .. } => "attack-swap",
                FrameAttack::Garbage { .. } => "attack-garbage",
                FrameAttack::Substitute { .. } => "attack-substitute",
            });
            Ok(ok.nt(true))
        }
    }
}

pub fn run(ctx: &mut Ctx) {
    ctx.rule = "case = honest handshake, then a list of writes (sizes biased to 1, 16 KiB, 65 500..65 540 incl. 65 519/65 520/65 521, ~131 040, up to 200 000; flush placement), \
        reader buffer sizes (1, 2, 15..17, 1 KiB, 16 KiB, 65 519, 65 520, 128 KiB, random), read-ahead 1..5, write-buffer 1..3, independent chunk/Pending scripts for carrier \
        delivery and acceptance (incl. 1 byte at a time, splits inside the 2-byte length prefix), either direction; optionally one attack on ciphertext frame k: bit flip \
        (anywhere incl. the length prefix) / truncation mid-frame / drop / replay / swap with the next / inserted garbage frame. Non-trivial = a write >= 65 000 B, or a chunked \
        carrier, or an attack that reached its frame; distinct by case hash."
        .into();
    ctx.assumptions = vec![
        "ephemeral Noise keys come from litep2p's own RNG, so ciphertext differs between runs of one case; outcomes do not".into(),
        "tokio clock paused: a stall would surface as a 1 h virtual timeout (reported as C02/stall)".into(),
        "NoiseSocket reports every carrier EOF as UnexpectedEof, so for drop/swap of the last frame (undetectable by construction) only the prefix bound is demanded".into(),
    ];
    let t = ctx.tier;
    ctx.campaign("honest-small", CampaignCfg::new(t.pick(1_500, 160_000)).shards(16), || strategy(false, false), run_case);
    ctx.campaign("honest-big", CampaignCfg::new(t.pick(600, 60_000)).shards(16).shrink_iters(400), || strategy(false, true), run_case);
    ctx.campaign("attack", CampaignCfg::new(t.pick(1_500, 160_000)).shards(16).shrink_iters(600), || strategy(true, false), run_case);
    ctx.campaign("attack-big", CampaignCfg::new(t.pick(300, 32_000)).shards(16).shrink_iters(300), || strategy(true, true), run_case);
    let _: Option<&dyn AsyncWrite> = None;
}
