//! C09 — idle connections close after the keep-alive timeout, busy ones are kept.
//!
//! Real time (the keep-alive tracker uses std::time::Instant), short timeouts. Two real
//! `TransportService`s behind the real manager — one keep-alive protocol, one non-keep-alive
//! ("ping-like") — and the harness playing the connections: the moment every protocol has dropped
//! its handle (`AllHandlesDropped`) is the moment a real connection task closes the connection.

use crate::common::{keypair_from_seed, peer_from_seed};
use crate::engine::{pick_idx, CampaignCfg, CaseFail, CaseOk, CaseResult, Ctx};
use crate::f2::{pipe, PipeCfg};
use crate::{ensure, fail};
use futures::StreamExt;
use litep2p::protocol::{TransportEvent, TransportService};
use litep2p::substream::Substream;
use litep2p::verif::scripted::{Call, ConnCommand, Inject, VerifManager};
use litep2p::yamux;
use litep2p::{PeerId, ProtocolName};
use multiaddr::Multiaddr;
use proptest::prelude::*;
use serde::{Deserialize, Serialize};
use std::collections::BTreeMap;
use std::time::{Duration, Instant};

const N_PEERS: usize = 2;

#[derive(Debug, Clone, Serialize, Deserialize)]
pub enum Op {
    Connect { peer: u8, inbound: bool },
    /// open a substream through `service`, the connection answers with success and the protocol holds the substream
    OpenHold { service: u8, peer: u8 },
    /// open a substream that the connection never answers (until AnswerFail)
    OpenPending { service: u8, peer: u8 },
    AnswerFail { pick: u16 },
    /// the remote opens a substream that the protocol holds
    InboundHold { pick: u16, service: u8 },
    DropHeld { pick: u16 },
    /// wait `pct` percent of the keep-alive timeout
    Wait { pct: u16 },
    Close { pick: u16 },
    /// continuous ping-like traffic (a non-keep-alive substream opened and dropped every half timeout) for longer than
    /// timeout + slack: connections nothing else keeps busy must be released nevertheless
    PingTraffic,
}

#[derive(Debug, Clone, Serialize, Deserialize)]
pub struct Case {
    pub timeout_ms: u16,
    pub ops: Vec<Op>,
}

fn strategy() -> impl Strategy<Value = Case> {
    let peer = 0u8..N_PEERS as u8;
    let op = prop_oneof![
        5 => (peer.clone(), any::<bool>()).prop_map(|(peer, inbound)| Op::Connect { peer, inbound }),
        5 => (0u8..2, peer.clone()).prop_map(|(service, peer)| Op::OpenHold { service, peer }),
        2 => (0u8..2, peer).prop_map(|(service, peer)| Op::OpenPending { service, peer }),
        1 => any::<u16>().prop_map(|pick| Op::AnswerFail { pick }),
        2 => (any::<u16>(), 0u8..2).prop_map(|(pick, service)| Op::InboundHold { pick, service }),
        3 => any::<u16>().prop_map(|pick| Op::DropHeld { pick }),
        8 => prop_oneof![Just(30u16), Just(60), Just(90), Just(110), Just(150), Just(250)].prop_map(|pct| Op::Wait { pct }),
        1 => any::<u16>().prop_map(|pick| Op::Close { pick }),
        1 => Just(Op::PingTraffic),
    ];
    (prop_oneof![Just(30u16), Just(50)], prop::collection::vec(op, 2..14)).prop_map(|(timeout_ms, ops)| Case { timeout_ms, ops })
}

struct Held {
    conn: usize,
    keep_alive: bool,
    _substream: Substream,
}

struct W {
    m: VerifManager,
    services: Vec<TransportService>,
    /// one wake flag per service: a service is polled only when it was woken, like a task would be
    gates: Vec<std::sync::Arc<crate::common::WakeGate>>,
    peers: Vec<PeerId>,
    live: BTreeMap<usize, PeerId>,
    /// harness timestamp taken before the latest keep-alive relevant activity on a connection
    activity: BTreeMap<usize, Instant>,
    /// pending open requests: (conn, substream id, by keep-alive service)
    pending: Vec<(usize, usize)>,
    held: Vec<Held>,
    /// substreams delivered to services and not yet claimed: (service, substream)
    delivered: Vec<(usize, Substream)>,
    released: BTreeMap<usize, Instant>,
    control: yamux::Control,
    t: Duration,
    step: usize,
    held_across_2t: bool,
    activity_near_expiry: bool,
    secondary_seen: bool,
}

impl W {
    fn settle(&mut self) -> Result<(), CaseFail> {
        for _ in 0..32 {
            let events = self.m.poll();
            let calls = self.m.take_calls();
            let accepts = self.m.take_accept_results();
            let mut moved = !events.is_empty() || !calls.is_empty() || !accepts.is_empty();
            for (id, ok) in accepts {
                if ok {
                    if let Some((_, p)) = self.m.live_connections().into_iter().find(|(i, _)| *i == id) {
                        if self.live.values().any(|q| *q == p) {
                            self.secondary_seen = true;
                        }
                        self.live.insert(id, p);
                    }
                }
            }
            for c in &calls {
                if let Call::Dial { id, address } = c {
                    let peer = PeerId::try_from_multiaddr(address).expect("peer id");
                    let stripped: Multiaddr = address.iter().take_while(|p| !matches!(p, multiaddr::Protocol::P2p(_))).collect();
                    self.activity.insert(*id, Instant::now());
                    self.m.inject(Inject::Established { peer, address: stripped, id: *id, listener: false });
                    moved = true;
                }
            }
            for si in 0..self.services.len() {
                while let Some(ev) = crate::common::next_if_woken(&mut self.services[si], &self.gates[si]) {
                    moved = true;
                    if let TransportEvent::SubstreamOpened { substream, .. } = ev {
                        self.delivered.push((si, substream));
                    }
                }
            }
            if !moved {
                return Ok(());
            }
        }
        Err(CaseFail::new("C09/harness-does-not-settle", format!("step {}", self.step)))
    }

    fn read_commands(&mut self) -> Result<(), CaseFail> {
        for id in self.live.keys().cloned().collect::<Vec<_>>() {
            while let Some(cmd) = self.m.poll_connection(id) {
                match cmd {
                    ConnCommand::OpenSubstream { substream_id, .. } => self.pending.push((id, substream_id)),
                    ConnCommand::ForceClose => break,
                    ConnCommand::AllHandlesDropped => {
                        let now = Instant::now();
                        // (a) never while something keeps the connection busy
                        let holders = self.held.iter().filter(|h| h.conn == id && h.keep_alive).count();
                        let pend = self.pending.iter().filter(|(c, _)| *c == id).count();
                        ensure!(
                            holders == 0 && pend == 0,
                            "C09/connection-released-while-busy",
                            "step {}: every protocol dropped its handle for connection {id} although {holders} keep-alive substream(s) are held and {pend} open request(s) are pending",
                            self.step
                        );
                        // (b) not before the timeout since the last activity
                        if let Some(a) = self.activity.get(&id) {
                            let idle = now.duration_since(*a);
                            ensure!(
                                idle >= self.t,
                                "C09/connection-released-before-keep-alive-timeout",
                                "step {}: connection {id} released {:?} after its last keep-alive activity (timeout {:?})",
                                self.step,
                                idle,
                                self.t
                            );
                        }
                        self.released.insert(id, now);
                        self.live.remove(&id);
                        self.held.retain(|h| h.conn != id);
                        self.m.close_connection(id).map_err(|e| CaseFail::new("C09/harness-close-failed", e))?;
                        break;
                    }
                }
            }
        }
        Ok(())
    }
}

async fn run_async(c: &Case) -> Result<(bool, bool, bool, usize), CaseFail> {
    let t = Duration::from_millis(c.timeout_ms as u64);
    let (m, services) = VerifManager::new(
        keypair_from_seed(0xC09),
        None,
        None,
        vec![(ProtocolName::from("/c09/keepalive"), true), (ProtocolName::from("/c09/pinglike"), false)],
        t,
    );
    let (a, b, _ab, _ba) = pipe(PipeCfg::default());
    let conn_a = yamux::Connection::new(a, yamux::Config::default(), yamux::Mode::Client);
    let conn_b = yamux::Connection::new(b, yamux::Config::default(), yamux::Mode::Server);
    let (control, mut conn_a) = yamux::Control::new(conn_a);
    let (_control_b, mut conn_b) = yamux::Control::new(conn_b);
    let t1 = tokio::spawn(async move { while let Some(Ok(_)) = conn_a.next().await {} });
    let t2 = tokio::spawn(async move {
        let mut keep = Vec::new();
        while let Some(Ok(s)) = conn_b.next().await {
            keep.push(s);
        }
    });
    let mut w = W {
        m,
        gates: (0..services.len()).map(|_| crate::common::WakeGate::new()).collect(),
        services,
        peers: (0..N_PEERS).map(|i| peer_from_seed(0xC0900 + i as u64)).collect(),
        live: BTreeMap::new(),
        activity: BTreeMap::new(),
        pending: Vec::new(),
        held: Vec::new(),
        delivered: Vec::new(),
        released: BTreeMap::new(),
        control,
        t,
        step: 0,
        held_across_2t: false,
        activity_near_expiry: false,
        secondary_seen: false,
    };
    let mut hold_started: Option<Instant> = None;
    for op in &c.ops {
        w.step += 1;
        match op {
            Op::Connect { peer, inbound } => {
                let p = w.peers[*peer as usize % N_PEERS];
                if *inbound {
                    let id = w.m.next_connection_id();
                    w.m.inject(Inject::PendingInbound { id });
                    w.settle()?;
                    let address: Multiaddr = format!("/ip4/52.30.0.{}/tcp/{}", 1 + id % 200, 40_000 + id % 1000).parse().unwrap();
                    w.activity.insert(id, Instant::now());
                    w.m.inject(Inject::Established { peer: p, address, id, listener: true });
                } else {
                    let address: Multiaddr = format!("/ip4/52.31.0.{}/tcp/30333/p2p/{}", 1 + peer, p).parse().unwrap();
                    let _ = w.m.dial_address(address);
                }
                w.settle()?;
            }
            Op::OpenHold { service, peer } | Op::OpenPending { service, peer } => {
                let si = *service as usize % 2;
                let p = w.peers[*peer as usize % N_PEERS];
                let before = Instant::now();
                let r = w.services[si].open_substream(p);
                if r.is_ok() {
                    let n_before = w.pending.len();
                    w.read_commands()?;
                    if let Some((conn, sid)) = w.pending.get(n_before).cloned() {
                        if si == 0 {
                            if let Some(prev) = w.activity.get(&conn) {
                                let since = before.duration_since(*prev);
                                if since + Duration::from_millis(8) >= w.t && since <= w.t + Duration::from_millis(8) {
                                    w.activity_near_expiry = true;
                                }
                            }
                            w.activity.insert(conn, before);
                        }
                        if matches!(op, Op::OpenHold { .. }) {
                            w.pending.retain(|(c, s)| !(*c == conn && *s == sid));
                            let stream = w.control.open_stream().await.map_err(|e| CaseFail::new("C09/harness-yamux-open-failed", format!("{e:?}")))?;
                            let t_answer = Instant::now();
                            w.m.answer_open_success(conn, sid, stream).map_err(|e| CaseFail::new("C09/harness-answer-failed", e))?;
                            w.settle()?;
                            if si == 0 {
                                w.activity.insert(conn, t_answer);
                            }
                            if let Some(pos) = w.delivered.iter().position(|(s, _)| *s == si) {
                                let (_, sub) = w.delivered.remove(pos);
                                w.held.push(Held { conn, keep_alive: si == 0, _substream: sub });
                                if si == 0 && hold_started.is_none() {
                                    hold_started = Some(Instant::now());
                                }
                            }
                        }
                    }
                }
                w.settle()?;
            }
            Op::AnswerFail { pick } => {
                if w.pending.is_empty() {
                    continue;
                }
                let (conn, sid) = w.pending.remove(pick_idx(*pick, w.pending.len()));
                if w.live.contains_key(&conn) {
                    w.activity.insert(conn, (*w.activity.get(&conn).unwrap_or(&Instant::now())).max(Instant::now() - w.t));
                    let _ = w.m.answer_open_failure(conn, sid);
                }
                w.settle()?;
            }
            Op::InboundHold { pick, service } => {
                if w.live.is_empty() {
                    continue;
                }
                let ids: Vec<usize> = w.live.keys().cloned().collect();
                let conn = ids[pick_idx(*pick, ids.len())];
                let si = *service as usize % 2;
                let stream = w.control.open_stream().await.map_err(|e| CaseFail::new("C09/harness-yamux-open-failed", format!("{e:?}")))?;
                let name = if si == 0 { "/c09/keepalive" } else { "/c09/pinglike" };
                let t_before = Instant::now();
                if w.m.report_inbound_substream(conn, ProtocolName::from(name), stream).is_ok() {
                    w.settle()?;
                    if si == 0 {
                        w.activity.insert(conn, t_before);
                    }
                    if let Some(pos) = w.delivered.iter().position(|(s, _)| *s == si) {
                        let (_, sub) = w.delivered.remove(pos);
                        w.held.push(Held { conn, keep_alive: si == 0, _substream: sub });
                    }
                }
            }
            Op::DropHeld { pick } => {
                if w.held.is_empty() {
                    continue;
                }
                let i = pick_idx(*pick, w.held.len());
                let h = w.held.remove(i);
                if h.keep_alive {
                    // the connection may be released as soon as the last holder is gone, but not before that moment
                    let now = Instant::now();
                    let floor = now.checked_sub(w.t).unwrap_or(now);
                    let cur = w.activity.get(&h.conn).cloned().unwrap_or(floor);
                    w.activity.insert(h.conn, cur.max(floor));
                    if let Some(s) = hold_started {
                        if now.duration_since(s) >= 2 * w.t {
                            w.held_across_2t = true;
                        }
                    }
                }
                drop(h);
                w.settle()?;
            }
            Op::Wait { pct } => {
                tokio::time::sleep(w.t * (*pct as u32) / 100).await;
                w.settle()?;
                w.read_commands()?;
                w.settle()?;
            }
            Op::PingTraffic => {
                let start = Instant::now();
                let total = w.t + Duration::from_millis(500);
                let mut worst = Duration::ZERO;
                while start.elapsed() < total && !w.live.is_empty() {
                    for conn in w.live.keys().cloned().collect::<Vec<_>>() {
                        let stream = w.control.open_stream().await.map_err(|e| CaseFail::new("C09/harness-yamux-open-failed", format!("{e:?}")))?;
                        let _ = w.m.report_inbound_substream(conn, ProtocolName::from("/c09/pinglike"), stream);
                    }
                    w.settle()?;
                    w.delivered.retain(|(s, _)| *s != 1);
                    let s = Instant::now();
                    tokio::time::sleep(w.t / 2).await;
                    worst = worst.max(s.elapsed());
                    w.settle()?;
                    w.read_commands()?;
                }
                if worst < Duration::from_millis(300) {
                    for id in w.live.keys() {
                        let busy = w.held.iter().any(|h| h.conn == *id && h.keep_alive) || w.pending.iter().any(|(c, _)| c == id);
                        ensure!(
                            busy,
                            "C09/ping-like-traffic-prolongs-idle-connection",
                            "connection {id} is still held {:?} after its last keep-alive activity although only ping-like substreams were opened (timeout {:?})",
                            w.activity.get(id).map(|a| a.elapsed()),
                            w.t
                        );
                    }
                }
            }
            Op::Close { pick } => {
                if w.live.is_empty() {
                    continue;
                }
                let ids: Vec<usize> = w.live.keys().cloned().collect();
                let id = ids[pick_idx(*pick, ids.len())];
                w.live.remove(&id);
                w.held.retain(|h| h.conn != id);
                w.pending.retain(|(c, _)| *c != id);
                w.m.close_connection(id).map_err(|e| CaseFail::new("C09/harness-close-failed", e))?;
                w.settle()?;
            }
        }
        w.read_commands()?;
    }
    // (c) eventually: nothing keeps the connections busy any more -> every connection is released within the timeout (+ slack)
    let held_pinglike = w.held.iter().filter(|h| !h.keep_alive).count();
    w.held.retain(|h| !h.keep_alive); // ping-like substreams stay: they must not prolong anything
    for (conn, sid) in std::mem::take(&mut w.pending) {
        if w.live.contains_key(&conn) {
            let _ = w.m.answer_open_failure(conn, sid);
        }
    }
    w.settle()?;
    let t_free = Instant::now();
    for (id, _) in w.live.clone() {
        let cur = w.activity.get(&id).cloned().unwrap_or(t_free);
        let floor = t_free.checked_sub(w.t).unwrap_or(t_free);
        w.activity.insert(id, cur.max(floor));
    }
    let deadline = w.t + Duration::from_millis(1500);
    let mut worst_slice = Duration::ZERO;
    while !w.live.is_empty() && t_free.elapsed() < deadline {
        let s = Instant::now();
        tokio::time::sleep(Duration::from_millis(5)).await;
        worst_slice = worst_slice.max(s.elapsed());
        w.settle()?;
        w.read_commands()?;
    }
    if !w.live.is_empty() {
        if worst_slice > Duration::from_millis(400) {
            // the machine stalled: inconclusive for this case, never a verdict
            return Ok((false, false, false, 0));
        }
        fail!(
            "C09/idle-connection-never-released",
            "connections {:?} are still held {:?} after the last activity (timeout {:?}, {} ping-like substream(s) still open)",
            w.live.keys().collect::<Vec<_>>(),
            t_free.elapsed(),
            w.t,
            held_pinglike
        );
    }
    t1.abort();
    t2.abort();
    Ok((w.held_across_2t, w.activity_near_expiry, w.secondary_seen, w.released.len()))
}

fn run_case(c: &Case) -> CaseResult {
    let rt = tokio::runtime::Builder::new_current_thread().enable_time().build().expect("runtime");
    let (held2t, near, secondary, released) = rt.block_on(run_async(c))?;
    Ok(CaseOk::trivial()
        .nt(held2t || near || secondary)
        .class_if(held2t, "substream-held-across-2-timeouts")
        .class_if(near, "activity-near-expiry")
        .class_if(secondary, "secondary-connection")
        .class_if(released > 0, "idle-release-observed"))
}

pub fn run(ctx: &mut Ctx) {
    ctx.rule = "real-time history (keep-alive timeout 30 or 50 ms) over 2 peers with a keep-alive and a ping-like (non-keep-alive) TransportService behind the real manager: \
        connections (also a second, overlapping one per peer), substreams opened and held by either protocol, open requests left pending, failures, inbound substreams, drops, \
        waits of 30..250 % of the timeout. The harness plays the connection; the moment all protocols have dropped their handle is the idle close. (a) never while a keep-alive \
        substream is held or an open is pending; (b) never earlier than the timeout after the last keep-alive activity (timestamp taken before the activity); (c) after the \
        script, with only ping-like substreams left open, every connection is released within timeout + 1.5 s. Non-trivial = a keep-alive substream held across >= 2 timeouts, \
        or activity within 8 ms of an expiry, or a secondary connection; distinct by case hash."
        .into();
    ctx.assumptions = vec![
        "wall clock: lower bounds are exact (timestamps precede the activity); the upper bound has 1.5 s of slack and a case whose 5 ms sleeps took > 400 ms is discarded as inconclusive".into(),
        "the connection task is played by the harness (scripted transport); end-to-end timing over TCP is sampled by the real-node checks".into(),
    ];
    let t = ctx.tier;
    ctx.campaign("histories", CampaignCfg::new(t.pick(1_600, 40_000)).shards(16).shrink_iters(150), strategy, run_case);
    ctx.campaign("release-race", CampaignCfg::new(t.pick(160, 3_000)).shards(16).shrink_iters(4), super::c09_nodes::race_strategy, super::c09_nodes::run_case);
    ctx.campaign("rogue-idle", CampaignCfg::new(t.pick(160, 3_000)).shards(16).shrink_iters(6), super::c09_rogue::strategy, super::c09_rogue::run_case);
    ctx.campaign("nodes", CampaignCfg::new(t.pick(192, 4_000)).shards(16).shrink_iters(4), super::c09_nodes::strategy, super::c09_nodes::run_case);
}
