//! C01 — the Noise handshake authenticates the remote peer identity.

use crate::common::{keypair_from_seed, secret_bytes_from_seed, uvarint};
use crate::engine::{CampaignCfg, CaseFail, CaseOk, CaseResult, Ctx};
use crate::f2::{block_on_paused, chunk_script_strategy, pipe, ChunkScript, FrameAttack, PipeCfg};
use crate::rogue_noise::{rogue_handshake, static_keypair, DOMAIN};
use crate::{ensure, fail};
use ed25519_dalek::{Signer, SigningKey, Verifier, VerifyingKey};
use futures::io::AsyncReadExt;
use litep2p::config::Role;
use litep2p::crypto::RemotePublicKey;
use litep2p::verif::noise::{handshake, HandshakeTransport};
use litep2p::PeerId;
use proptest::prelude::*;
use serde::{Deserialize, Serialize};
use std::sync::OnceLock;
use std::time::Duration;

// ---------------------------------------------------------------------------------------------
// class 1 + 2: honest peers, optional man in the middle

#[derive(Debug, Clone, Serialize, Deserialize)]
pub enum Edit {
    Flip { at: u32, bit: u8 },
    Truncate { keep: u32 },
    Drop,
    Duplicate,
    /// replace by the same-numbered message of a recorded independent honest session
    Substitute { session: u8 },
}

#[derive(Debug, Clone, Serialize, Deserialize)]
pub struct MitmCase {
    pub dialer_seed: u64,
    pub listener_seed: u64,
    /// 0 = msg1 (dialer->listener), 1 = msg2 (listener->dialer), 2 = msg3 (dialer->listener)
    pub message: u8,
    pub edit: Option<Edit>,
    pub chunks: [ChunkScript; 4],
}

fn mitm_strategy(with_edit: bool) -> impl Strategy<Value = MitmCase> {
    let edit = prop_oneof![
        6 => (any::<u32>(), 0u8..8).prop_map(|(at, bit)| Edit::Flip { at, bit }),
        1 => (0u32..2, 0u8..8).prop_map(|(at, bit)| Edit::Flip { at, bit }),
        2 => any::<u32>().prop_map(|keep| Edit::Truncate { keep }),
        1 => Just(Edit::Drop),
        1 => Just(Edit::Duplicate),
        2 => (0u8..3).prop_map(|session| Edit::Substitute { session }),
    ];
    (
        0u64..1000,
        0u64..1000,
        0u8..3,
        if with_edit { edit.prop_map(Some).boxed() } else { Just(None).boxed() },
        [chunk_script_strategy(), chunk_script_strategy(), chunk_script_strategy(), chunk_script_strategy()],
    )
        .prop_map(|(dialer_seed, listener_seed, message, edit, chunks)| MitmCase {
            dialer_seed,
            listener_seed: listener_seed + 1000,
            message,
            edit,
            chunks,
        })
}

/// Three recorded honest sessions: frames [msg1, msg2, msg3] (length prefixes included).
fn recorded_sessions() -> &'static Vec<[Vec<u8>; 3]> {
    static S: OnceLock<Vec<[Vec<u8>; 3]>> = OnceLock::new();
    S.get_or_init(|| {
        (0..3u64)
            .map(|i| {
                block_on_paused(async move {
                    let kp_a = keypair_from_seed(9000 + i);
                    let kp_b = keypair_from_seed(9100 + i);
                    let mut cfg = PipeCfg::default();
                    cfg.tap_frames = true;
                    let (a, b, ab, ba) = pipe(cfg);
                    let (ra, rb) = tokio::join!(
                        handshake(a, &kp_a, Role::Dialer, 5, 2, Duration::from_secs(10), HandshakeTransport::Tcp),
                        handshake(b, &kp_b, Role::Listener, 5, 2, Duration::from_secs(10), HandshakeTransport::Tcp),
                    );
                    if ra.is_err() || rb.is_err() {
                        return [vec![], vec![], vec![]];
                    }
                    let f_ab = ab.tap(|t| t.frames.clone());
                    let f_ba = ba.tap(|t| t.frames.clone());
                    [f_ab[0].clone(), f_ba[0].clone(), f_ab[1].clone()]
                })
            })
            .collect()
    })
}

fn run_mitm(c: &MitmCase) -> CaseResult {
    let kp_a = keypair_from_seed(c.dialer_seed);
    let kp_b = keypair_from_seed(c.listener_seed);
    let id_a = kp_a.public().to_peer_id();
    let id_b = kp_b.public().to_peer_id();
    let (dir_ab, frame) = match c.message {
        0 => (true, 0u16),
        1 => (false, 0u16),
        _ => (true, 1u16),
    };
    let attack = c.edit.as_ref().map(|e| match e {
        Edit::Flip { at, bit } => FrameAttack::Flip { frame, at: *at, bit: *bit },
        Edit::Truncate { keep } => FrameAttack::Truncate { frame, keep: *keep },
        Edit::Drop => FrameAttack::Drop { frame },
        Edit::Duplicate => FrameAttack::Duplicate { frame },
        Edit::Substitute { session } => FrameAttack::Substitute {
            frame,
            // (an empty recording — honest handshakes are broken — degenerates into a drop)
            bytes: recorded_sessions()[*session as usize % 3][c.message as usize % 3].clone(),
        },
    });
    let mut cfg = PipeCfg {
        a_to_b: c.chunks[0].clone(),
        b_to_a: c.chunks[1].clone(),
        a_write: c.chunks[2].clone(),
        b_write: c.chunks[3].clone(),
        ..Default::default()
    };
    if dir_ab {
        cfg.attack_a_to_b = attack.clone();
    } else {
        cfg.attack_b_to_a = attack.clone();
    }
    let chunked = c.chunks.iter().any(|s| !s.is_passthrough());
    let (ra, rb, dialer_read, listener_read, applied) = block_on_paused(async move {
        let (a, b, ab, ba) = pipe(cfg);
        let (ra, rb) = tokio::join!(
            handshake(a, &kp_a, Role::Dialer, 5, 2, Duration::from_secs(10), HandshakeTransport::Tcp),
            handshake(b, &kp_b, Role::Listener, 5, 2, Duration::from_secs(10), HandshakeTransport::Tcp),
        );
        let applied = if dir_ab { ab.tap(|t| t.attack_applied) } else { ba.tap(|t| t.attack_applied) };
        // what does the first read say on each side that came out Ok (both ends stay alive while reading)?
        async fn first_read<S: futures::io::AsyncRead + Unpin>(s: &mut S) -> String {
            let mut buf = [0u8; 16];
            match tokio::time::timeout(Duration::from_secs(3600), s.read(&mut buf)).await {
                Err(_) => "stall".to_string(),
                Ok(Ok(n)) => format!("ok:{n}"),
                Ok(Err(e)) => format!("err:{:?}", e.kind()),
            }
        }
        match (ra, rb) {
            (Ok((mut sa, pa)), Ok((mut sb, pb))) => {
                let (da, db) = tokio::join!(first_read(&mut sa), first_read(&mut sb));
                (Ok(pa), Ok(pb), Some(da), Some(db), applied)
            }
            (Ok((mut sa, pa)), Err(e)) => {
                let da = first_read(&mut sa).await;
                (Ok(pa), Err(e), Some(da), None, applied)
            }
            (Err(e), Ok((mut sb, pb))) => {
                let db = first_read(&mut sb).await;
                (Err(e), Ok(pb), None, Some(db), applied)
            }
            (Err(e1), Err(e2)) => (Err(e1), Err(e2), None, None, applied),
        }
    });

    // never the wrong identity
    if let Ok(p) = &ra {
        ensure!(*p == id_b, "C01/dialer-reports-wrong-peer-id", "dialer got {p}, listener is {id_b}");
    }
    if let Ok(p) = &rb {
        ensure!(*p == id_a, "C01/listener-reports-wrong-peer-id", "listener got {p}, dialer is {id_a}");
    }
    let base = CaseOk::trivial().class_if(chunked, "chunked");
    match &c.edit {
        None => {
            ensure!(ra.is_ok(), "C01/honest-handshake-failed", "dialer: {:?}", ra.as_ref().err());
            ensure!(rb.is_ok(), "C01/honest-handshake-failed", "listener: {:?}", rb.as_ref().err());
            Ok(base.nt(chunked).class("honest"))
        }
        Some(edit) => {
            // an edit that did not change the byte stream (substitution by identical bytes cannot happen: sessions differ)
            ensure!(applied, "C01/harness-attack-not-applied", "message {} never crossed the carrier", c.message);
            let is_dup = matches!(edit, Edit::Duplicate);
            let dialer_bad = ra.is_err() || dialer_read.as_deref().map(|r| r.starts_with("err:")).unwrap_or(false);
            let listener_bad = rb.is_err() || listener_read.as_deref().map(|r| r.starts_with("err:")).unwrap_or(false);
            // never a usable connection
            ensure!(
                dialer_bad || listener_bad,
                "C01/altered-handshake-yields-usable-connection",
                "message {} edit {:?}: dialer {:?}/{:?}, listener {:?}/{:?}",
                c.message,
                edit,
                ra.is_ok(),
                dialer_read,
                rb.is_ok(),
                listener_read
            );
            if !is_dup {
                // the receiver of the edited message fails; the other side fails too, except that nothing can tell the dialer
                // about an edit of message 3 during the handshake (then its first read must fail)
                let receiver_is_listener = c.message != 1;
                if receiver_is_listener {
                    ensure!(rb.is_err(), "C01/listener-accepts-altered-handshake", "message {} edit {:?}: listener returned Ok", c.message, edit);
                    if c.message == 0 {
                        ensure!(ra.is_err(), "C01/dialer-accepts-altered-handshake", "message 0 edit {:?}: dialer returned Ok", edit);
                    } else {
                        ensure!(dialer_bad, "C01/altered-handshake-yields-usable-connection", "message 2 edit {:?}: dialer Ok and its first read says {:?}", edit, dialer_read);
                    }
                } else {
                    ensure!(ra.is_err(), "C01/dialer-accepts-altered-handshake", "message 1 edit {:?}: dialer returned Ok", edit);
                    ensure!(rb.is_err(), "C01/listener-accepts-altered-handshake", "message 1 edit {:?}: listener returned Ok although the dialer failed", edit);
                }
            } else if c.message == 0 {
                ensure!(rb.is_err(), "C01/listener-accepts-altered-handshake", "duplicate of message 1 taken as message 3: listener returned Ok");
            }
            Ok(base
                .nt(true)
                .class(match c.message {
                    0 => "edit-msg1",
                    1 => "edit-msg2",
                    _ => "edit-msg3",
                })
                .class(match edit {
                    Edit::Flip { .. } => "flip",
                    Edit::Truncate { .. } => "truncate",
                    Edit::Drop => "drop",
                    Edit::Duplicate => "duplicate",
                    Edit::Substitute { .. } => "substitute",
                }))
        }
    }
}

// ---------------------------------------------------------------------------------------------
// class 3: rogue peer with a valid Noise session and a forged identity payload

#[derive(Debug, Clone, Serialize, Deserialize)]
pub enum KeySrc {
    /// the rogue's own identity key
    Own,
    /// another peer's identity key (impersonation target)
    Other,
    /// unknown / unsupported key type with the given type number
    WrongType(u8),
    /// own key in a non-canonical but valid protobuf encoding (data field before type field)
    OwnReordered,
    /// own key followed by an unknown protobuf field
    OwnExtraField,
    Garbage(Vec<u8>),
    Missing,
}

#[derive(Debug, Clone, Serialize, Deserialize)]
pub enum SigSrc {
    /// valid: own identity key signs domain || own static key of this session
    Valid,
    /// signed by the rogue's key although the advertised key is another peer's
    ByOwnKeyForOtherIdentity,
    /// the other peer's genuine signature, but made for a different static key (another session)
    ReplayedFromOtherSession,
    /// own key, but over a different static key
    OwnOverOtherStatic,
    WrongDomain,
    NoDomain,
    Truncated(u8),
    BitFlipped(u16),
    Empty,
    Missing,
    Garbage(Vec<u8>),
}

#[derive(Debug, Clone, Serialize, Deserialize)]
pub struct RogueCase {
    pub victim_seed: u64,
    pub rogue_seed: u64,
    pub rogue_is_dialer: bool,
    pub key: KeySrc,
    pub sig: SigSrc,
    /// extra bytes: 0 none, 1 extensions field with muxers, 2 unknown field 15, 3 large extensions
    pub extra: u8,
    pub whole_payload_garbage: Option<Vec<u8>>,
    pub chunks: [ChunkScript; 2],
}

fn rogue_strategy() -> impl Strategy<Value = RogueCase> {
    let key = prop_oneof![
        6 => Just(KeySrc::Own),
        4 => Just(KeySrc::Other),
        1 => (0u8..6).prop_map(KeySrc::WrongType),
        1 => Just(KeySrc::OwnReordered),
        1 => Just(KeySrc::OwnExtraField),
        1 => prop::collection::vec(any::<u8>(), 0..50).prop_map(KeySrc::Garbage),
        1 => Just(KeySrc::Missing),
    ];
    let sig = prop_oneof![
        5 => Just(SigSrc::Valid),
        2 => Just(SigSrc::ByOwnKeyForOtherIdentity),
        3 => Just(SigSrc::ReplayedFromOtherSession),
        2 => Just(SigSrc::OwnOverOtherStatic),
        1 => Just(SigSrc::WrongDomain),
        1 => Just(SigSrc::NoDomain),
        1 => (1u8..64).prop_map(SigSrc::Truncated),
        2 => (0u16..512).prop_map(SigSrc::BitFlipped),
        1 => Just(SigSrc::Empty),
        1 => Just(SigSrc::Missing),
        1 => prop::collection::vec(any::<u8>(), 0..80).prop_map(SigSrc::Garbage),
    ];
    (
        0u64..500,
        0u64..500,
        any::<bool>(),
        key,
        sig,
        prop_oneof![6 => Just(0u8), 1 => Just(1u8), 1 => Just(2u8), 1 => Just(3u8)],
        prop::option::weighted(0.04, prop::collection::vec(any::<u8>(), 0..120)),
        [chunk_script_strategy(), chunk_script_strategy()],
    )
        .prop_map(|(victim_seed, rogue_seed, rogue_is_dialer, key, sig, extra, whole_payload_garbage, chunks)| RogueCase {
            victim_seed,
            rogue_seed: rogue_seed + 5000,
            rogue_is_dialer,
            key,
            sig,
            extra,
            whole_payload_garbage,
            chunks,
        })
}

fn pb_bytes(field: u8, data: &[u8]) -> Vec<u8> {
    let mut out = vec![(field << 3) | 2];
    out.extend(uvarint(data.len() as u64));
    out.extend_from_slice(data);
    out
}

fn key_blob(ty: u64, data: &[u8]) -> Vec<u8> {
    let mut out = vec![0x08];
    out.extend(uvarint(ty));
    out.extend(pb_bytes(2, data));
    out
}

/// Independent verification of the proof the statement demands.
fn proof_holds(identity_key: Option<&[u8]>, identity_sig: Option<&[u8]>, session_static: &[u8; 32], reported: &PeerId) -> Result<(), String> {
    let Some(key_bytes) = identity_key else {
        return Err("no identity key was sent".into());
    };
    let Some(sig) = identity_sig else {
        return Err("no signature was sent".into());
    };
    let RemotePublicKey::Ed25519(pk) = RemotePublicKey::from_protobuf_encoding(key_bytes).map_err(|e| format!("identity key does not decode: {e:?}"))?;
    let vk = VerifyingKey::from_bytes(&pk.to_bytes()).map_err(|e| format!("not a valid ed25519 point: {e}"))?;
    let sig: [u8; 64] = sig.try_into().map_err(|_| format!("signature has {} bytes", sig.len()))?;
    let mut msg = DOMAIN.as_bytes().to_vec();
    msg.extend_from_slice(session_static);
    vk.verify(&msg, &ed25519_dalek::Signature::from_bytes(&sig))
        .map_err(|_| "signature does not verify over domain || static key of this session".to_string())?;
    let expect = if key_bytes.len() <= 42 {
        let mut b = vec![0x00, key_bytes.len() as u8];
        b.extend_from_slice(key_bytes);
        b
    } else {
        use sha2::Digest;
        let mut b = vec![0x12, 0x20];
        b.extend_from_slice(&sha2::Sha256::digest(key_bytes));
        b
    };
    if reported.to_bytes() != expect {
        return Err("reported peer id is not the hash of the advertised key".into());
    }
    Ok(())
}

fn run_rogue(c: &RogueCase) -> CaseResult {
    let victim = keypair_from_seed(c.victim_seed);
    let rogue_id = SigningKey::from_bytes(&secret_bytes_from_seed(c.rogue_seed));
    let other_id = SigningKey::from_bytes(&secret_bytes_from_seed(c.rogue_seed + 77_777));
    let (static_secret, static_pub) = static_keypair(c.rogue_seed);
    let (_, other_static_pub) = static_keypair(c.rogue_seed + 1);

    let signing_input = |domain: &str, st: &[u8; 32]| {
        let mut m = domain.as_bytes().to_vec();
        m.extend_from_slice(st);
        m
    };
    let own_pub = rogue_id.verifying_key().to_bytes();
    let other_pub = other_id.verifying_key().to_bytes();
    let identity_key: Option<Vec<u8>> = match &c.key {
        KeySrc::Own => Some(key_blob(1, &own_pub)),
        KeySrc::Other => Some(key_blob(1, &other_pub)),
        KeySrc::WrongType(t) => Some(key_blob(if *t == 1 { 2 } else { *t as u64 }, &own_pub)),
        KeySrc::OwnReordered => {
            let mut b = pb_bytes(2, &own_pub);
            b.extend([0x08, 0x01]);
            Some(b)
        }
        KeySrc::OwnExtraField => {
            let mut b = key_blob(1, &own_pub);
            b.extend(pb_bytes(7, b"x"));
            Some(b)
        }
        KeySrc::Garbage(g) => Some(g.clone()),
        KeySrc::Missing => None,
    };
    let identity_sig: Option<Vec<u8>> = match &c.sig {
        SigSrc::Valid | SigSrc::ByOwnKeyForOtherIdentity => Some(rogue_id.sign(&signing_input(DOMAIN, &static_pub)).to_bytes().to_vec()),
        SigSrc::ReplayedFromOtherSession => Some(other_id.sign(&signing_input(DOMAIN, &other_static_pub)).to_bytes().to_vec()),
        SigSrc::OwnOverOtherStatic => Some(rogue_id.sign(&signing_input(DOMAIN, &other_static_pub)).to_bytes().to_vec()),
        SigSrc::WrongDomain => Some(rogue_id.sign(&signing_input("noise-libp2p-static-key", &static_pub)).to_bytes().to_vec()),
        SigSrc::NoDomain => Some(rogue_id.sign(&static_pub).to_bytes().to_vec()),
        SigSrc::Truncated(n) => {
            let s = rogue_id.sign(&signing_input(DOMAIN, &static_pub)).to_bytes().to_vec();
            Some(s[..(*n as usize).min(63)].to_vec())
        }
        SigSrc::BitFlipped(bit) => {
            let mut s = rogue_id.sign(&signing_input(DOMAIN, &static_pub)).to_bytes().to_vec();
            s[(*bit as usize / 8) % 64] ^= 1 << (bit % 8);
            Some(s)
        }
        SigSrc::Empty => Some(vec![]),
        SigSrc::Missing => None,
        SigSrc::Garbage(g) => Some(g.clone()),
    };
    let mut payload = Vec::new();
    if let Some(k) = &identity_key {
        payload.extend(pb_bytes(1, k));
    }
    if let Some(s) = &identity_sig {
        payload.extend(pb_bytes(2, s));
    }
    match c.extra {
        1 => payload.extend(pb_bytes(4, &pb_bytes(2, b"/yamux/1.0.0"))),
        2 => payload.extend(pb_bytes(15, b"unknown")),
        3 => payload.extend(pb_bytes(4, &pb_bytes(2, &vec![b'a'; 20_000]))),
        _ => {}
    }
    let (sent_key, sent_sig): (Option<Vec<u8>>, Option<Vec<u8>>) = if let Some(g) = &c.whole_payload_garbage {
        payload = g.clone();
        (None, None)
    } else {
        (identity_key.clone(), identity_sig.clone())
    };

    let cfg = PipeCfg {
        a_to_b: c.chunks[0].clone(),
        b_to_a: c.chunks[1].clone(),
        ..Default::default()
    };
    let rogue_is_dialer = c.rogue_is_dialer;
    let rogue_seed = c.rogue_seed;
    let payload2 = payload.clone();
    let (victim_res, rogue_res) = block_on_paused(async move {
        let (mut a, b, _ab, _ba) = pipe(cfg);
        // a = rogue end, b = victim end
        let victim_role = if rogue_is_dialer { Role::Listener } else { Role::Dialer };
        let (rr, vr) = tokio::join!(
            async {
                let r = rogue_handshake(&mut a, rogue_is_dialer, static_secret, rogue_seed, payload2).await;
                // keep the rogue's end open until the victim decided
                (r, a)
            },
            handshake(b, &victim, victim_role, 5, 2, Duration::from_secs(10), HandshakeTransport::Tcp),
        );
        (vr.map(|(_, p)| p), rr.0)
    });

    let whole_garbage = c.whole_payload_garbage.is_some();
    let expect_valid = !whole_garbage
        && matches!(c.key, KeySrc::Own | KeySrc::OwnReordered | KeySrc::OwnExtraField)
        && matches!(c.sig, SigSrc::Valid | SigSrc::ByOwnKeyForOtherIdentity);
    let mut ok = CaseOk::nontrivial()
        .class(if c.rogue_is_dialer { "rogue-dialer" } else { "rogue-listener" })
        .class_if(expect_valid, "valid-proof")
        .class_if(!expect_valid, "forged-or-missing-proof")
        .class_if(matches!(c.key, KeySrc::Other), "impersonation")
        .class_if(matches!(c.sig, SigSrc::ReplayedFromOtherSession), "replayed-signature");
    match victim_res {
        Ok(p) => {
            // the statement's "only if": an independent check of the proof must succeed
            if whole_garbage {
                // the garbage may by chance be a decodable payload: judge it by decoding it ourselves is not possible without
                // the schema; garbage of <= 120 bytes cannot contain a valid 64-byte signature by this rogue for this session
                fail!("C01/accepted-garbage-payload", "victim reported {p} for a payload of {} random bytes", payload.len());
            }
            if let Err(why) = proof_holds(sent_key.as_deref(), sent_sig.as_deref(), &static_pub, &p) {
                fail!(
                    "C01/connection-reported-without-valid-identity-proof",
                    "victim reported {p} although {why} (key {:?}, sig {:?}, rogue dialer {})",
                    c.key,
                    c.sig,
                    c.rogue_is_dialer
                );
            }
            ensure!(rogue_res.completed, "C01/harness-rogue-did-not-complete", "{:?}", rogue_res.error);
            ok = ok.class("accepted");
            ok = ok.class_if(matches!(c.key, KeySrc::OwnReordered | KeySrc::OwnExtraField), "accepted-non-canonical-key-encoding");
            Ok(ok)
        }
        Err(e) => {
            // floor: the canonical valid control must be accepted
            if expect_valid && matches!(c.key, KeySrc::Own) {
                fail!("C01/valid-proof-rejected", "victim failed with {e:?} (rogue: {:?})", rogue_res.error);
            }
            Ok(ok.class("rejected"))
        }
    }
}

// ---------------------------------------------------------------------------------------------
// the proven identity differs from the peer id that was dialed (real nodes over loopback TCP)

#[derive(Debug, Clone, Serialize, Deserialize)]
pub struct DialedCase {
    /// whose id is put behind /p2p/ of the listener's address: 0 a peer that exists nowhere, 1 a third running node, 2 the listener itself (control)
    pub expect: u8,
    /// 0 dial_address(address with the id), 1 add_known_address(id, address) + dial(id)
    pub via: u8,
    /// dial again after the first attempt (a cached / half-finished state must not turn the mismatch into a connection)
    pub redial: bool,
    pub seed: u64,
}

fn dialed_strategy() -> impl Strategy<Value = DialedCase> {
    (prop_oneof![3 => Just(0u8), 3 => Just(1u8), 1 => Just(2u8)], 0u8..2, any::<bool>(), any::<u64>()).prop_map(|(expect, via, redial, seed)| DialedCase { expect, via, redial, seed })
}

fn run_dialed(c: &DialedCase) -> CaseResult {
    use crate::f4::{full_address, wait_until, Cmd, Log, Node, NodeSetup, ObsKind};
    use multiaddr::Protocol;
    let log: Log = std::sync::Arc::new(parking_lot::Mutex::new(Vec::new()));
    let base = NodeSetup {
        connection_open_timeout: Some(Duration::from_millis(1500)),
        substream_open_timeout: Some(Duration::from_millis(1500)),
        keep_alive: Some(Duration::from_secs(5)),
        ping: true,
        ..Default::default()
    };
    let mut nodes = Vec::new();
    for i in 0..3usize {
        nodes.push(Node::spawn(i, NodeSetup { seed: c.seed % 1000 + 70_000 + i as u64, ..base.clone() }, log.clone()).map_err(|e| CaseFail::new("C01/harness-node-start-failed", e))?);
    }
    let (b, third) = (nodes[1].peer, nodes[2].peer);
    let claimed: PeerId = match c.expect % 3 {
        0 => crate::common::peer_from_seed(c.seed ^ 0xC01),
        1 => third,
        _ => b,
    };
    // the listener's socket address with the claimed id behind /p2p/
    let bare: multiaddr::Multiaddr = full_address(&nodes[1]).iter().filter(|p| !matches!(p, Protocol::P2p(_))).collect();
    let addr = bare.with(Protocol::P2p(claimed.into()));
    let attempts = if c.redial { 2 } else { 1 };
    for k in 0..attempts {
        if c.via % 2 == 0 {
            nodes[0].send(Cmd::DialAddress(addr.clone()));
        } else {
            nodes[0].send(Cmd::AddKnown(claimed, vec![addr.clone()]));
            nodes[0].send(Cmd::Dial(claimed));
        }
        let mark = log.lock().len();
        let settled = wait_until(&log, Duration::from_secs(4), |l| {
            l[mark.min(l.len())..].iter().any(|o| o.node == 0 && matches!(&o.kind, ObsKind::ConnEstablished { .. } | ObsKind::DialFailure { .. } | ObsKind::ListDialFailures { .. }))
        });
        if c.expect % 3 == 2 {
            ensure!(
                settled && log.lock().iter().any(|o| o.node == 0 && matches!(&o.kind, ObsKind::ConnEstablished { peer, .. } if *peer == b)),
                "C01/harness-calibration-failed",
                "the control dial (correct id) did not connect"
            );
            break;
        }
        ensure!(settled || k > 0, "C01/dial-with-wrong-peer-id-ended-in-silence", "neither a connection nor a dial failure within 4 s");
        std::thread::sleep(Duration::from_millis(80));
    }
    std::thread::sleep(Duration::from_millis(120));
    let history = log.lock().clone();
    drop(nodes);
    if c.expect % 3 != 2 {
        for o in history.iter().filter(|o| o.node == 0) {
            if let ObsKind::ConnEstablished { peer, .. } = &o.kind {
                fail!(
                    "C01/connection-reported-although-the-proven-identity-differs-from-the-dialed-peer",
                    "dialed {claimed} at the address of {b}; the node reported a connection with {peer}"
                );
            }
        }
        ensure!(
            history.iter().any(|o| o.node == 0 && matches!(&o.kind, ObsKind::DialFailure { .. } | ObsKind::ListDialFailures { .. })),
            "C01/dial-with-wrong-peer-id-not-reported-as-failed",
            "no dial failure event for {addr}"
        );
    }
    Ok(CaseOk::trivial()
        .nt(c.expect % 3 != 2)
        .class(match c.expect % 3 {
            0 => "claimed-id-of-nobody",
            1 => "claimed-id-of-a-third-running-node",
            _ => "control-correct-id",
        })
        .class_if(c.redial, "redialed")
        .class(if c.via % 2 == 0 { "dial_address" } else { "add_known_address+dial" }))
}

pub fn run(ctx: &mut Ctx) {
    ctx.rule = "(mitm) two honest peers with generated identity keys over a scripted carrier (chunk/Pending scripts on all four poll paths); optionally one edit of one of the \
        three handshake messages: flip any bit (length prefix included), truncate at any offset, drop, duplicate, or substitute the same-numbered message of an independent \
        recorded honest session. (rogue) the harness plays dialer or listener with snow + x25519-dalek, completes a valid XX session and sends a generated identity payload: \
        key in {own, another peer's, unsupported type, own non-canonically encoded, garbage, missing} x signature in {valid, by own key for another identity, another peer's \
        genuine signature replayed from another session, own over another static key, wrong/no domain prefix, truncated, bit-flipped, empty, missing, garbage} x extensions / \
        unknown fields / whole-payload garbage. (dialed-peer-mismatch) three real nodes; one dials the second's address with the id of nobody / of the third node / the right one (control) behind /p2p/, by dial_address or add_known_address + dial, \
        optionally twice: a dial failure is reported and no connection ever. Non-trivial = an edit, or a split honest handshake, or any rogue case, or a wrong claimed id; distinct by case hash."
        .into();
    ctx.assumptions = vec![
        "oracle verifies the proof itself with ed25519-dalek over 'noise-libp2p-static-key:' || the rogue's static key of this session; key bytes are extracted with litep2p's key decoder (covered by C18/C19)".into(),
        "Noise XX makes it unavoidable that the dialer's handshake() returns Ok when only what the listener receives after message 2 is altered (message 3, or a duplicate of message 1); there the oracle demands that the listener fails and the dialer's first read errors".into(),
        "a non-canonical but valid protobuf encoding of the rogue's own key is accepted by litep2p under the peer id of those bytes; the statement is satisfied literally and the class is counted".into(),
        "dialed-peer mismatch is checked with real nodes over loopback TCP (campaign dialed-peer-mismatch): the dialing node must report a dial failure and never a connection, whoever's id was claimed".into(),
    ];
    let t = ctx.tier;
    ctx.campaign("honest", CampaignCfg::new(t.pick(800, 60_000)).shards(16), || mitm_strategy(false), run_mitm);
    ctx.campaign("mitm", CampaignCfg::new(t.pick(2_500, 180_000)).shards(16), || mitm_strategy(true), run_mitm);
    ctx.campaign("rogue", CampaignCfg::new(t.pick(3_000, 240_000)).shards(16), rogue_strategy, run_rogue);
    ctx.campaign("rogue-at-a-real-listener", CampaignCfg::new(t.pick(400, 8_000)).shards(16).shrink_iters(6), super::c01_nodes::strategy, super::c01_nodes::run_case);
    ctx.campaign("dialed-peer-mismatch", CampaignCfg::new(t.pick(160, 3_000)).shards(16).shrink_iters(6), dialed_strategy, run_dialed);
    // exhaustive single-bit flips over all three messages of a few sessions (thorough: 20 sessions)
    let mut flips: Vec<MitmCase> = Vec::new();
    let sessions = t.pick(1u64, 20);
    if !ctx.violations.is_empty() {
        return;
    }
    let lens = {
        let r = &recorded_sessions()[0];
        [r[0].len(), r[1].len(), r[2].len()]
    };
    for s in 0..sessions {
        for (m, len) in lens.iter().enumerate() {
            for at in 0..*len {
                let bits: Vec<u8> = if t == crate::engine::Tier::Quick { vec![(at % 8) as u8] } else { (0..8).collect() };
                for bit in bits {
                    flips.push(MitmCase {
                        dialer_seed: 100 + s,
                        listener_seed: 1100 + s,
                        message: m as u8,
                        edit: Some(Edit::Flip { at: at as u32, bit }),
                        chunks: Default::default(),
                    });
                }
            }
        }
    }
    ctx.enumerate("every-byte-flip", true, flips, run_mitm);
    let _ = CaseFail::new("", "");
}
