//! C09, end-to-end half: the idle mechanism with the real `TcpConnection` task (opening permits, lifetime permits of
//! keep-alive substreams, exit when the last handle is gone), real ping traffic every 100 ms and identify.
//!
//! Two real nodes over loopback TCP with the same keep-alive timeout T, each running ping + identify + two probe user
//! protocols (keep-alive protocols, as user protocols are) + a request-response protocol. A script opens and holds
//! substreams, drops them at both ends, sends requests and waits for fractions of T. Wall clock.

use crate::engine::{CaseFail, CaseOk, CaseResult};
use crate::f4::{full_address, rr_request, wait_until, Cmd, Log, Node, NodeSetup, Obs, ObsKind, ProbeCmd, RrSetup};
use crate::{ensure, fail};
use litep2p::PeerId;
use proptest::prelude::*;
use serde::{Deserialize, Serialize};
use std::sync::Arc;
use std::time::{Duration, Instant};

#[derive(Debug, Clone, Serialize, Deserialize)]
pub enum Op {
    /// (re)connect when not connected
    Connect,
    /// probe `probe` of node `node` opens a substream to the other node; both ends hold it
    OpenHold { node: u8, probe: u8 },
    /// both ends drop what probe `probe` holds
    Drop { probe: u8 },
    /// node `node` closes the write half of what its probe `probe` holds; the substreams stay alive on both ends
    HalfClose { node: u8, probe: u8 },
    /// node 0 sends a request that node 1 answers (request-response is a keep-alive protocol)
    Request { node: u8 },
    /// wait `pct` percent of the keep-alive timeout
    Wait { pct: u16 },
    /// wait until `delta_us` microseconds before (negative) / after the moment the keep-alive timeout expires, counted from the last activity
    WaitUntilExpiry { delta_us: i32 },
    /// release everything, wait until `delta_us` around the expiry, then open a substream (= Drop, Drop, WaitUntilExpiry, OpenHold)
    OpenAtExpiry { delta_us: i32, node: u8, probe: u8 },
    /// open, hold for `pct` percent of the timeout, release (= OpenHold, Wait, Drop)
    HoldFor { pct: u16, node: u8, probe: u8 },
    /// open, close the opener's write half, keep the half-closed substream for `pct` percent of the timeout, release
    HalfClosedFor { pct: u16, node: u8, probe: u8 },
}

#[derive(Debug, Clone, Serialize, Deserialize)]
pub struct Case {
    pub timeout_ms: u16,
    pub ops: Vec<Op>,
    pub seed: u64,
}

pub fn strategy() -> impl Strategy<Value = Case> {
    let op = prop_oneof![
        2 => Just(Op::Connect),
        5 => (0u8..2, 0u8..2).prop_map(|(node, probe)| Op::OpenHold { node, probe }),
        4 => (0u8..2).prop_map(|probe| Op::Drop { probe }),
        2 => (0u8..2, 0u8..2).prop_map(|(node, probe)| Op::HalfClose { node, probe }),
        2 => (0u8..2).prop_map(|node| Op::Request { node }),
        6 => prop_oneof![Just(20u16), Just(60), Just(90), Just(120), Just(220), Just(320)].prop_map(|pct| Op::Wait { pct }),
        2 => prop_oneof![Just(-40_000i32), Just(-15_000), Just(-5_000), Just(-1_000), Just(2_000), Just(10_000), Just(30_000)].prop_map(|delta_us| Op::WaitUntilExpiry { delta_us }),
        5 => (prop_oneof![Just(-40_000i32), Just(-20_000), Just(-8_000), Just(-3_000), Just(-1_000), Just(-300), Just(300), Just(1_000), Just(5_000), Just(25_000)], 0u8..2, 0u8..2).prop_map(|(delta_us, node, probe)| Op::OpenAtExpiry { delta_us, node, probe }),
        3 => (prop_oneof![Just(110u16), Just(210), Just(320)], 0u8..2, 0u8..2).prop_map(|(pct, node, probe)| Op::HoldFor { pct, node, probe }),
        3 => (prop_oneof![Just(130u16), Just(250)], 0u8..2, 0u8..2).prop_map(|(pct, node, probe)| Op::HalfClosedFor { pct, node, probe }),
    ];
    (prop_oneof![Just(300u16), Just(450), Just(700)], prop::collection::vec(op, 2..9), any::<u64>()).prop_map(|(timeout_ms, ops, seed)| Case { timeout_ms, ops, seed })
}

/// The release race: again and again one end opens a substream a few milliseconds around the moment the keep-alive
/// timeout expires on both ends (the other end is releasing the connection at that very moment), then reconnects.
pub fn race_strategy() -> impl Strategy<Value = Case> {
    let round = (-3_000i32..1_500, 0u8..2, 0u8..2, prop_oneof![3 => Just(true), 1 => Just(false)]);
    (prop_oneof![Just(150u16), Just(220), Just(300)], prop::collection::vec(round, 5..9), any::<u64>()).prop_map(|(timeout_ms, rounds, seed)| {
        let mut ops = Vec::new();
        for (delta_us, node, probe, early) in rounds {
            ops.push(Op::Connect);
            if early {
                ops.push(Op::HoldFor { pct: 20, node: 1 - node, probe: 1 - probe });
            }
            ops.push(Op::OpenAtExpiry { delta_us, node, probe });
        }
        Case { timeout_ms, ops, seed }
    })
}

/// Upper-bound slack: scheduling noise of a loaded machine, never part of the lower bound.
const SLACK: Duration = Duration::from_millis(1500);

fn app_connected(log: &[Obs], node: usize, peer: &PeerId) -> bool {
    let e = log.iter().filter(|o| o.node == node && matches!(&o.kind, ObsKind::ConnEstablished { peer: p, .. } if p == peer)).count();
    let c = log.iter().filter(|o| o.node == node && matches!(&o.kind, ObsKind::ConnClosed { peer: p } if p == peer)).count();
    e > c
}

fn n_closed(log: &[Obs]) -> usize {
    log.iter().filter(|o| matches!(&o.kind, ObsKind::ConnClosed { .. })).count()
}

/// Sleep and report by how much the sleep overran (scheduling noise indicator).
fn sleep_measured(d: Duration, worst_overrun: &mut Duration) {
    let t = Instant::now();
    std::thread::sleep(d);
    let over = t.elapsed().saturating_sub(d);
    if over > *worst_overrun {
        *worst_overrun = over;
    }
}

pub fn run_case(c: &Case) -> CaseResult {
    let t_keep = Duration::from_millis(c.timeout_ms as u64);
    let log: Log = Arc::new(parking_lot::Mutex::new(Vec::new()));
    let case_id = crate::f4::new_case_id();
    let mut nodes: Vec<Node> = Vec::new();
    for i in 0..2usize {
        let setup = NodeSetup {
            seed: c.seed % 500 + 52_000 + i as u64,
            keep_alive: Some(t_keep),
            probes: 2,
            ping: true,
            ping_interval: Some(Duration::from_millis(100)),
            identify: true,
            rr: Some(RrSetup { timeout: Duration::from_millis(1000), max_size: 1024, max_concurrent_inbound: None }),
            connection_open_timeout: Some(Duration::from_millis(2000)),
            substream_open_timeout: Some(Duration::from_millis(2000)),
            case_id,
            ..Default::default()
        };
        nodes.push(Node::spawn(i, setup, log.clone()).map_err(|e| CaseFail::new("C09/harness-node-start-failed", e))?);
    }
    let peers: Vec<PeerId> = nodes.iter().map(|n| n.peer).collect();
    let addr1 = full_address(&nodes[1]);

    // state of the current connection epoch
    let mut epoch_start: Option<Instant> = None; // taken before the dial
    let mut last_activity_before: Option<Instant> = None; // timestamp taken before the last completed keep-alive activity
    let mut last_activity_done: Option<Instant> = None; // taken after it completed
    let mut held: [bool; 2] = [false; 2];
    let mut last_drop_before: Option<Instant> = None; // before the drop of something that was really held
    let mut last_drop_after: Option<Instant> = None;
    let mut seen_closed = 0usize;
    let mut worst_overrun = Duration::ZERO;
    let mut req_n = 0u64;
    // classes
    let mut held_across_2t = false;
    let mut held_since: Option<Instant> = None;
    let mut near_expiry_activity = false;
    let mut idle_closures = 0usize;
    let mut reconnects = 0usize;
    let mut half_closed = false;

    // judge closures that appeared in the log since the last look
    macro_rules! judge_closures {
        () => {{
            let l = log.lock().clone();
            let closed_now = n_closed(&l);
            if closed_now > seen_closed {
                // the first new closed event of this epoch
                let first = l.iter().filter(|o| matches!(&o.kind, ObsKind::ConnClosed { .. })).nth(seen_closed).unwrap();
                let t_closed = first.t;
                if held.iter().any(|h| *h) {
                    fail!(
                        "C09/closed-while-keep-alive-substream-held",
                        "node {} reported the connection closed {} ms after the connection was dialed although both ends still hold a substream of a keep-alive protocol (probes holding: {:?}, keep-alive timeout {} ms)",
                        first.node,
                        epoch_start.map(|e| t_closed.duration_since(e).as_millis()).unwrap_or(0),
                        held,
                        c.timeout_ms
                    );
                }
                let mut not_before = epoch_start.map(|e| e + t_keep);
                if let Some(a) = last_activity_before {
                    not_before = Some(not_before.map(|n| n.max(a + t_keep)).unwrap_or(a + t_keep));
                }
                if let Some(d) = last_drop_before {
                    not_before = Some(not_before.map(|n| n.max(d)).unwrap_or(d));
                }
                if let Some(nb) = not_before {
                    ensure!(
                        t_closed >= nb,
                        "C09/closed-before-keep-alive-timeout",
                        "node {} reported the connection closed {} ms before the keep-alive timeout ({} ms) had elapsed since the last keep-alive activity (activity timestamp taken before the call)",
                        first.node,
                        nb.duration_since(t_closed).as_millis(),
                        c.timeout_ms
                    );
                }
                idle_closures += 1;
                // wait until both ends have reported it
                let (p0, p1) = (peers[0], peers[1]);
                let both = wait_until(&log, Duration::from_millis(3000), |l| !app_connected(l, 0, &p1) && !app_connected(l, 1, &p0));
                if !both {
                    let l = log.lock();
                    let t0 = l.first().map(|o| o.t).unwrap();
                    let tail: Vec<String> = l.iter().rev().take(24).rev().map(|o| format!("{}ms n{} {}", o.t.duration_since(t0).as_millis(), o.node, format!("{:?}", o.kind).chars().take(70).collect::<String>())).collect();
                    fail!("C09/closed-on-one-side-only", "one node reported the connection closed and the other still reports it open 3 s later; history tail: {:#?}", tail);
                }
                seen_closed = n_closed(&log.lock());
                epoch_start = None;
                last_activity_before = None;
                last_activity_done = None;
                last_drop_before = None;
                last_drop_after = None;
                held = [false; 2];
                held_since = None;
            }
        }};
    }

    let connect = |log: &Log, nodes: &Vec<Node>| -> Result<Instant, CaseFail> {
        let t = Instant::now();
        nodes[0].send(Cmd::DialAddress(addr1.clone()));
        let (p0, p1) = (peers[0], peers[1]);
        let ok = wait_until(log, Duration::from_millis(3000), |l| app_connected(l, 0, &p1) && app_connected(l, 1, &p0));
        if !ok {
            return Err(CaseFail::new("C09/harness-calibration-failed", "two healthy nodes did not connect within 3 s"));
        }
        Ok(t)
    };
    epoch_start = Some(connect(&log, &nodes)?);

    let mut ops: Vec<Op> = Vec::new();
    for op in &c.ops {
        match op {
            Op::OpenAtExpiry { delta_us, node, probe } => ops.extend([Op::Drop { probe: 0 }, Op::Drop { probe: 1 }, Op::WaitUntilExpiry { delta_us: *delta_us }, Op::OpenHold { node: *node, probe: *probe }]),
            Op::HoldFor { pct, node, probe } => ops.extend([Op::OpenHold { node: *node, probe: *probe }, Op::Wait { pct: *pct }, Op::Drop { probe: *probe }]),
            Op::HalfClosedFor { pct, node, probe } => ops.extend([Op::OpenHold { node: *node, probe: *probe }, Op::HalfClose { node: *node, probe: *probe }, Op::Wait { pct: *pct }, Op::Drop { probe: *probe }]),
            other => ops.push(other.clone()),
        }
    }
    for op in &ops {
        judge_closures!();
        match op {
            Op::Connect => {
                if epoch_start.is_none() {
                    epoch_start = Some(connect(&log, &nodes)?);
                    reconnects += 1;
                }
            }
            Op::OpenHold { node, probe } => {
                if epoch_start.is_none() {
                    continue;
                }
                let n = *node as usize % 2;
                let k = *probe as usize % 2;
                let before_count = |l: &[Obs]| l.iter().filter(|o| matches!(&o.kind, ObsKind::ProbeSubstream { probe, .. } if *probe == k)).count();
                let have = before_count(&log.lock());
                let calls = log.lock().iter().filter(|o| o.node == n && matches!(&o.kind, ObsKind::ProbeOpenCalled { probe, .. } if *probe == k)).count();
                let t_before = Instant::now();
                // how close to an expiry is this activity?
                let reference = [last_activity_done, epoch_start].iter().flatten().max().cloned();
                if let Some(r) = reference {
                    let since = t_before.duration_since(r);
                    let diff = if since > t_keep { since - t_keep } else { t_keep - since };
                    if diff < Duration::from_millis(40) && !held.iter().any(|h| *h) {
                        near_expiry_activity = true;
                    }
                }
                let _ = nodes[n].probes[k].send(ProbeCmd::Open(peers[1 - n]));
                // the call was made?
                let called = wait_until(&log, Duration::from_millis(1000), |l| l.iter().filter(|o| o.node == n && matches!(&o.kind, ObsKind::ProbeOpenCalled { probe, .. } if *probe == k)).count() > calls);
                if !called {
                    return Err(CaseFail::new("C09/harness-probe-not-responding", "a probe did not execute an open command within 1 s"));
                }
                let accepted = log.lock().iter().filter(|o| o.node == n).filter_map(|o| if let ObsKind::ProbeOpenCalled { probe, id, .. } = &o.kind { if *probe == k { Some(id.is_some()) } else { None } } else { None }).last().unwrap_or(false);
                if !accepted {
                    // the connection is going away at this very moment: the closure is judged at the next step
                    continue;
                }
                // completed = both ends hold it (two new substream events for this probe index), or the connection closed first
                let done = wait_until(&log, Duration::from_millis(2500), |l| before_count(l) >= have + 2 || n_closed(l) > seen_closed);
                if !done {
                    return Err(CaseFail::new("C09/harness-open-did-not-complete", "a substream open between two healthy nodes did not complete within 2.5 s"));
                }
                if before_count(&log.lock()) >= have + 2 {
                    last_activity_before = Some(t_before);
                    // the moment the later end was told of the substream (that is when its tracker restarts)
                    last_activity_done = log.lock().iter().filter(|o| matches!(&o.kind, ObsKind::ProbeSubstream { probe, .. } if *probe == k)).map(|o| o.t).max();
                    if !held[k] && !held.iter().any(|h| *h) {
                        held_since = Some(Instant::now());
                    }
                    held[k] = true;
                }
            }
            Op::Drop { probe } => {
                let k = *probe as usize % 2;
                let was_held = held[k];
                let t_before = Instant::now();
                for n in 0..2 {
                    let _ = nodes[n].probes[k].send(ProbeCmd::DropHeld);
                }
                // the probes execute commands in order: a ping through the same channel would be overkill; 5 ms are plenty
                sleep_measured(Duration::from_millis(5), &mut worst_overrun);
                if was_held {
                    held[k] = false;
                    if !held.iter().any(|h| *h) {
                        if let Some(s) = held_since.take() {
                            if s.elapsed() >= t_keep * 2 {
                                held_across_2t = true;
                            }
                        }
                    }
                    last_drop_before = Some(t_before);
                    last_drop_after = Some(Instant::now());
                }
            }
            Op::Request { node } => {
                if epoch_start.is_none() {
                    continue;
                }
                let n = *node as usize % 2;
                req_n += 1;
                let responses = log.lock().iter().filter(|o| matches!(&o.kind, ObsKind::RrResponse { .. } | ObsKind::RrFailed { .. } | ObsKind::RrSendError { .. })).count();
                let t_before = Instant::now();
                nodes[n].send(Cmd::RrSend { peer: peers[1 - n], payload: rr_request(req_n, 0, 0, 16, 24), dial: false });
                let done = wait_until(&log, Duration::from_millis(2500), |l| l.iter().filter(|o| matches!(&o.kind, ObsKind::RrResponse { .. } | ObsKind::RrFailed { .. } | ObsKind::RrSendError { .. })).count() > responses);
                if !done {
                    return Err(CaseFail::new("C09/harness-request-did-not-complete", "a request between two healthy nodes got no outcome within 2.5 s"));
                }
                let answered = {
                    let l = log.lock();
                    matches!(l.iter().rev().find(|o| matches!(&o.kind, ObsKind::RrResponse { .. } | ObsKind::RrFailed { .. } | ObsKind::RrSendError { .. })).map(|o| &o.kind), Some(ObsKind::RrResponse { .. }))
                };
                if answered {
                    last_activity_before = Some(t_before);
                    last_activity_done = Some(Instant::now());
                }
            }
            Op::OpenAtExpiry { .. } | Op::HoldFor { .. } | Op::HalfClosedFor { .. } => unreachable!(),
            Op::HalfClose { node, probe } => {
                let n = *node as usize % 2;
                let k = *probe as usize % 2;
                if held[k] {
                    let _ = nodes[n].probes[k].send(ProbeCmd::ShutdownHeld);
                    half_closed = true;
                    sleep_measured(Duration::from_millis(5), &mut worst_overrun);
                }
            }
            Op::Wait { .. } | Op::WaitUntilExpiry { .. } => {
                // in slices, so that closures are judged with the state they happened in
                let until = match op {
                    Op::Wait { pct } => Instant::now() + t_keep * (*pct as u32) / 100,
                    Op::WaitUntilExpiry { delta_us } => {
                        // the trackers count from the last open (or from the establishment), a drop is not an activity
                        let reference = [last_activity_done, epoch_start].iter().flatten().max().cloned().unwrap_or_else(Instant::now);
                        let at = reference + t_keep;
                        if *delta_us >= 0 { at + Duration::from_micros(*delta_us as u64) } else { at.checked_sub(Duration::from_micros((-*delta_us) as u64)).unwrap_or(at) }
                    }
                    _ => unreachable!(),
                };
                let _ = &until;
                while Instant::now() < until {
                    let left = until - Instant::now();
                    if left < Duration::from_millis(2) {
                        // the last stretch is spun, a sleep overshoots by 50..100 us
                        while Instant::now() < until {
                            std::hint::spin_loop();
                        }
                    } else {
                        sleep_measured((left - Duration::from_millis(1)).min(Duration::from_millis(20)), &mut worst_overrun);
                    }
                    judge_closures!();
                }
            }
        }
    }
    judge_closures!();

    // release everything; with ping traffic every 100 ms and nothing else the connection must go away
    let still_connected = epoch_start.is_some();
    if still_connected {
        let t_before = Instant::now();
        let anything_held = held.iter().any(|h| *h);
        for n in 0..2 {
            for k in 0..2 {
                let _ = nodes[n].probes[k].send(ProbeCmd::DropHeld);
            }
        }
        sleep_measured(Duration::from_millis(5), &mut worst_overrun);
        if anything_held {
            if let Some(s) = held_since.take() {
                if s.elapsed() >= t_keep * 2 {
                    held_across_2t = true;
                }
            }
            last_drop_before = Some(t_before);
            last_drop_after = Some(Instant::now());
        }
        held = [false; 2];
        let reference = [last_activity_done, last_drop_after, epoch_start].iter().flatten().max().cloned().unwrap();
        let due = reference + t_keep + SLACK;
        let (p0, p1) = (peers[0], peers[1]);
        let closed = wait_until(&log, due.saturating_duration_since(Instant::now()), |l| !app_connected(l, 0, &p1) && !app_connected(l, 1, &p0));
        if !closed {
            if worst_overrun > Duration::from_millis(300) {
                return Err(CaseFail::new("C09/harness-machine-too-slow", format!("sleeps overran by {} ms", worst_overrun.as_millis())));
            }
            let l = log.lock();
            fail!(
                "C09/idle-connection-not-closed",
                "{} ms after the last keep-alive activity ended (keep-alive timeout {} ms, ping every 100 ms, nothing held) the connection is still open: node 0 connected {}, node 1 connected {}",
                reference.elapsed().as_millis(),
                c.timeout_ms,
                app_connected(&l, 0, &p1),
                app_connected(&l, 1, &p0)
            );
        }
        judge_closures!();
    }
    for p in crate::f4::case_panics(case_id) {
        fail!(format!("panic@{}", p.location), "a node thread panicked: {}", p.message);
    }
    Ok(CaseOk::trivial()
        .nt(held_across_2t || near_expiry_activity)
        .class_if(held_across_2t, "held-across-2-timeouts")
        .class_if(near_expiry_activity, "activity-within-40ms-of-expiry")
        .class_if(idle_closures >= 2, "ge-2-idle-closures")
        .class_if(reconnects > 0, "reconnected-after-idle-closure")
        .class_if(req_n > 0, "request-response-activity")
        .class_if(half_closed, "half-closed-substream-held"))
}
