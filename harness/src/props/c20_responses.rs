//! C20 on the sending side through the running protocol: the Bitswap user of a real node hands `send_response` a generated
//! list of blocks and presences — including the same data under two identifiers (CIDv0 and CIDv1, two codecs), the same
//! identifier twice, empty blocks and presences in between — and the Bitswap user of the receiving real node must be handed
//! exactly those entries: every block once per listing, in order, under the identifier it was listed with.

use super::c20::digest_for;
use crate::engine::{fill_bytes, CaseFail, CaseOk, CaseResult};
use crate::f4::{full_address, wait_until, Cmd, Log, Node, NodeSetup, Obs, ObsKind};
use crate::{ensure, fail};
use cid::Cid;
use litep2p::PeerId;
use proptest::prelude::*;
use serde::{Deserialize, Serialize};
use std::sync::Arc;
use std::time::Duration;

#[derive(Debug, Clone, Serialize, Deserialize)]
pub enum Entry {
    /// a block of `len` bytes derived from `data` (small domain, so equal data recurs), listed under: 0 CIDv1 raw sha2-256,
    /// 1 CIDv0, 2 CIDv1 dag-pb sha2-256, 3 CIDv1 raw blake2b-256, 4 CIDv1 dag-cbor sha2-256
    Block { data: u8, len: u32, form: u8 },
    Presence { data: u8, have: bool },
}

#[derive(Debug, Clone, Serialize, Deserialize)]
pub struct Case {
    pub seed: u64,
    pub responses: Vec<Vec<Entry>>,
}

pub fn strategy() -> impl Strategy<Value = Case> {
    let entry = prop_oneof![
        8 => (0u8..4, prop_oneof![3 => Just(0u32), 3 => Just(1), 3 => Just(33), 3 => Just(700), 3 => Just(20_000), 2 => Just(900_000), 1 => Just(1_200_000)], 0u8..5).prop_map(|(data, len, form)| Entry::Block { data, len, form }),
        2 => (0u8..4, any::<bool>()).prop_map(|(data, have)| Entry::Presence { data, have }),
    ];
    (any::<u64>(), prop::collection::vec(prop::collection::vec(entry, 1..8), 1..3)).prop_map(|(seed, responses)| Case { seed, responses })
}

fn cid_of(data: &[u8], form: u8) -> Cid {
    let sha = |d: &[u8]| cid::multihash::Multihash::<64>::wrap(0x12, &digest_for(0x12, d).expect("sha2-256")).unwrap();
    match form % 5 {
        0 => Cid::new_v1(0x55, sha(data)),
        1 => Cid::new_v0(sha(data)).unwrap(),
        2 => Cid::new_v1(0x70, sha(data)),
        3 => Cid::new_v1(0x55, cid::multihash::Multihash::<64>::wrap(0xb220, &digest_for(0xb220, data).expect("blake2b-256")).unwrap()),
        _ => Cid::new_v1(0x71, sha(data)),
    }
}

fn connected(log: &[Obs], node: usize, peer: &PeerId) -> bool {
    let e = log.iter().filter(|o| o.node == node && matches!(&o.kind, ObsKind::ConnEstablished { peer: p, .. } if p == peer)).count();
    let c = log.iter().filter(|o| o.node == node && matches!(&o.kind, ObsKind::ConnClosed { peer: p } if p == peer)).count();
    e > c
}

pub fn run_case(c: &Case) -> CaseResult {
    let log: Log = Arc::new(parking_lot::Mutex::new(Vec::new()));
    let case_id = crate::f4::new_case_id();
    let node = |i: usize, seed: u64| Node::spawn(i, NodeSetup { seed, keep_alive: Some(Duration::from_secs(20)), bitswap: true, case_id, ..Default::default() }, log.clone()).map_err(|e| CaseFail::new("C20/harness-node-start-failed", e));
    let receiver = node(0, c.seed % 300 + 151_000)?;
    let sender = node(1, c.seed % 300 + 152_000)?;
    let (p0, p1) = (receiver.peer, sender.peer);
    sender.send(Cmd::DialAddress(full_address(&receiver)));
    if !wait_until(&log, Duration::from_millis(3000), |l| connected(l, 1, &p0) && connected(l, 0, &p1)) {
        return Err(CaseFail::new("C20/harness-calibration-failed", "the two nodes did not connect within 3 s"));
    }
    let mut same_hash_twice = false;
    let mut same_cid_twice = false;
    let mut several_batches = false;
    for (k, response) in c.responses.iter().enumerate() {
        let mut want_blocks: Vec<(Vec<u8>, Vec<u8>)> = Vec::new();
        let mut want_presences: Vec<(Vec<u8>, bool)> = Vec::new();
        let mut entries = Vec::new();
        let mut total = 0usize;
        for e in response {
            match e {
                Entry::Block { data, len, form } => {
                    // several batches (more than 2 MiB per response) are wanted, unbounded responses are not
                    let len = if total + *len as usize > 7 << 20 { 33 } else { *len as usize };
                    total += len;
                    let bytes = fill_bytes(*data as u64 + 77, len);
                    let cid = cid_of(&bytes, *form);
                    same_cid_twice |= want_blocks.iter().any(|(c, _)| *c == cid.to_bytes());
                    same_hash_twice |= want_blocks.iter().any(|(c, _)| Cid::try_from(&c[..]).map(|o| o.hash() == cid.hash() && o != cid).unwrap_or(false));
                    want_blocks.push((cid.to_bytes(), bytes.clone()));
                    entries.push((cid.to_bytes(), Some(bytes), false));
                }
                Entry::Presence { data, have } => {
                    let cid = cid_of(&fill_bytes(*data as u64 + 900, 8), 0);
                    want_presences.push((cid.to_bytes(), *have));
                    entries.push((cid.to_bytes(), None, *have));
                }
            }
        }
        several_batches |= total > 2 << 20;
        let mark = log.lock().len();
        sender.send(Cmd::BitswapRespond { peer: p0, entries });
        let got = |l: &[Obs]| {
            let mut blocks = Vec::new();
            let mut presences = Vec::new();
            for o in l[mark.min(l.len())..].iter().filter(|o| o.node == 0) {
                if let ObsKind::BitswapResponse { peer, blocks: b, presences: p } = &o.kind {
                    if *peer == p1 {
                        blocks.extend(b.iter().cloned());
                        presences.extend(p.iter().cloned());
                    }
                }
            }
            (blocks, presences)
        };
        wait_until(&log, Duration::from_millis(if total > 1 << 20 { 8000 } else { 2500 }), |l| {
            let (b, p) = got(l);
            b.len() >= want_blocks.len() && p.len() >= want_presences.len()
        });
        std::thread::sleep(Duration::from_millis(40));
        let (blocks, presences) = got(&log.lock());
        let show = |v: &[(Vec<u8>, Vec<u8>)]| v.iter().map(|(c, d)| format!("{}:{}B", Cid::try_from(&c[..]).map(|c| c.to_string()).unwrap_or_default(), d.len())).collect::<Vec<_>>();
        if blocks != want_blocks {
            if !crate::f4::control_pair_works(case_id, c.seed) {
                return Err(CaseFail::new("C20/harness-control-pair-failed", "two fresh honest nodes could not connect either"));
            }
            fail!(
                if blocks.len() < want_blocks.len() { "C20/fitting-block-not-sent" } else { "C20/blocks-received-differ-from-blocks-listed" },
                "response {k}: the sender's user listed {:?}; the receiver's user was handed {:?}",
                show(&want_blocks),
                show(&blocks)
            );
        }
        let mut a = presences.clone();
        let mut b = want_presences.clone();
        a.sort();
        b.sort();
        ensure!(a == b, "C20/presences-received-differ-from-presences-listed", "response {k}: listed {} presences, received {}", want_presences.len(), presences.len());
    }
    for p in crate::f4::case_panics(case_id) {
        fail!(format!("C20/panic@{}", p.location), "{} (thread {})", p.message, p.thread);
    }
    Ok(CaseOk::nontrivial()
        .class_if(several_batches, "response-of-more-than-one-batch")
        .class_if(same_hash_twice, "same-data-under-two-identifiers-in-one-response")
        .class_if(same_cid_twice, "same-identifier-twice-in-one-response")
        .class_if(c.responses.iter().flatten().any(|e| matches!(e, Entry::Presence { .. })), "presences-between-blocks"))
}
