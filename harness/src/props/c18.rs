//! C18 — peer ids are canonical, round-trip and match the libp2p reference.
//!
//! Oracle: differential against `libp2p_identity::PeerId` (the type `multiaddr::PeerId` aliases),
//! the "identity iff encoding <= 42 bytes else SHA-256" rule recomputed with `sha2`, and round-trips.

use crate::common::{secret_bytes_from_seed, uvarint, uvarint_overlong};
use crate::engine::{fill_bytes, CampaignCfg, CaseOk, CaseResult, Ctx};
use crate::{ensure, fail};
use litep2p::PeerId;
use multiaddr::{Multiaddr, Protocol};
use proptest::prelude::*;
use serde::{Deserialize, Serialize};
use sha2::{Digest, Sha256};
use std::str::FromStr;

type RefPeerId = libp2p_identity::PeerId;

#[derive(Debug, Clone, Serialize, Deserialize)]
pub enum MhCase {
    /// code varint ‖ declared-length varint ‖ `actual` digest bytes ‖ trailing
    Structured {
        code: u64,
        declared: u64,
        actual: u16,
        fill: u64,
        trailing: Vec<u8>,
        overlong_code: bool,
        overlong_len: bool,
    },
    Raw(Vec<u8>),
}

fn mh_bytes(c: &MhCase) -> Vec<u8> {
    match c {
        MhCase::Raw(b) => b.clone(),
        MhCase::Structured {
            code,
            declared,
            actual,
            fill,
            trailing,
            overlong_code,
            overlong_len,
        } => {
            let mut out = if *overlong_code {
                uvarint_overlong(*code)
            } else {
                uvarint(*code)
            };
            out.extend(if *overlong_len {
                uvarint_overlong(*declared)
            } else {
                uvarint(*declared)
            });
            out.extend(fill_bytes(*fill, *actual as usize));
            out.extend(trailing);
            out
        }
    }
}

fn code_strategy() -> impl Strategy<Value = u64> {
    prop_oneof![
        4 => Just(0x00u64),
        4 => Just(0x12u64),
        1 => Just(0x13u64),
        1 => Just(0x16u64),
        1 => Just(0xb220u64),
        1 => Just(0x11u64),
        1 => any::<u64>(),
        1 => 0u64..300,
    ]
}

fn mh_strategy() -> impl Strategy<Value = MhCase> {
    let declared = prop_oneof![
        6 => 0u64..=70,
        2 => Just(32u64),
        1 => Just(42u64),
        1 => Just(43u64),
        1 => Just(64u64),
        1 => Just(65u64),
        1 => Just(255u64),
        1 => any::<u64>(),
    ];
    let structured = (
        code_strategy(),
        declared,
        0u8..4,
        any::<u64>(),
        prop::collection::vec(any::<u8>(), 0..3),
        prop::bool::weighted(0.08),
        prop::bool::weighted(0.08),
        prop::bool::weighted(0.25),
    )
        .prop_map(|(code, declared, rel, fill, trailing, oc, ol, with_trailing)| {
            // actual length: equal / one shorter / one longer / unrelated
            let d = declared.min(300) as i64;
            let actual = match rel {
                0 | 1 => d,
                2 => (d - 1).max(0),
                _ => d + 1,
            } as u16;
            MhCase::Structured {
                code,
                declared,
                actual,
                fill,
                trailing: if with_trailing { trailing } else { vec![] },
                overlong_code: oc,
                overlong_len: ol,
            }
        });
    prop_oneof![
        9 => structured,
        1 => prop::collection::vec(any::<u8>(), 0..80).prop_map(MhCase::Raw),
    ]
}

/// All conversions of an accepted peer id and back.
fn round_trips(p: PeerId, r: &RefPeerId) -> Result<(), crate::engine::CaseFail> {
    let bytes = p.to_bytes();
    ensure!(bytes == r.to_bytes(), "C18/to_bytes-differs", "litep2p {:?} ref {:?}", bytes, r.to_bytes());
    ensure!(PeerId::from_bytes(&bytes).ok() == Some(p), "C18/roundtrip-bytes", "{:?}", bytes);
    let text = p.to_base58();
    ensure!(text == r.to_base58(), "C18/to_base58-differs", "{} vs {}", text, r.to_base58());
    ensure!(PeerId::from_str(&text).ok() == Some(p), "C18/roundtrip-base58", "{}", text);
    ensure!(format!("{p}") == text, "C18/display-differs", "{p} vs {text}");
    // infallible conversion into the multiaddr peer id type must not panic (guarded by the engine)
    let mp: multiaddr::PeerId = p.into();
    ensure!(mp.to_bytes() == bytes, "C18/multiaddr-peerid-differs", "{:?}", bytes);
    ensure!(p.to_multiaddr_peer_id().is_ok(), "C18/to_multiaddr_peer_id-err", "{:?}", bytes);
    let addr = Multiaddr::empty().with(Protocol::Ip4([10, 0, 0, 1].into())).with(Protocol::Tcp(1)).with(Protocol::P2p(mp));
    ensure!(PeerId::try_from_multiaddr(&addr) == Some(p), "C18/roundtrip-multiaddr", "{addr}");
    // through the text and binary forms of the multiaddr as well
    let addr2 = Multiaddr::from_str(&addr.to_string()).map_err(|e| crate::engine::CaseFail::new("C18/multiaddr-text-reparse", format!("{addr}: {e}")))?;
    ensure!(PeerId::try_from_multiaddr(&addr2) == Some(p), "C18/roundtrip-multiaddr-text", "{addr}");
    let addr3 = Multiaddr::try_from(addr.to_vec()).map_err(|e| crate::engine::CaseFail::new("C18/multiaddr-bytes-reparse", format!("{addr}: {e}")))?;
    ensure!(PeerId::try_from_multiaddr(&addr3) == Some(p), "C18/roundtrip-multiaddr-bytes", "{addr}");
    // From<PeerId> for Vec<u8>, TryFrom<Vec<u8>>, multihash conversions
    let v: Vec<u8> = p.into();
    ensure!(PeerId::try_from(v.clone()).ok() == Some(p), "C18/roundtrip-vec", "{:?}", v);
    let mh: multihash::Multihash<64> = p.into();
    ensure!(PeerId::from_multihash(mh).ok() == Some(p), "C18/roundtrip-multihash", "{:?}", v);
    // serde: human readable (JSON) and a binary format
    let js = serde_json::to_string(&p).map_err(|e| crate::engine::CaseFail::new("C18/serde-json-ser", e.to_string()))?;
    ensure!(js == format!("\"{text}\""), "C18/serde-json-form", "{js}");
    let back: Result<PeerId, _> = serde_json::from_str(&js);
    ensure!(back.ok() == Some(p), "C18/roundtrip-serde-json", "{js}");
    let tok = binser::to_token(&p).map_err(|e| crate::engine::CaseFail::new("C18/serde-bin-ser", e))?;
    ensure!(tok == binser::Token::Bytes(bytes.clone()), "C18/serde-bin-form", "{:?}", tok);
    let back: Result<PeerId, _> = binser::from_token(tok);
    ensure!(back.ok() == Some(p), "C18/roundtrip-serde-bin", "{:?}", bytes);
    Ok(())
}

fn check_from_bytes(input: &[u8]) -> Result<bool, crate::engine::CaseFail> {
    let ours = PeerId::from_bytes(input);
    let theirs = RefPeerId::from_bytes(input);
    match (&ours, &theirs) {
        (Ok(p), Ok(r)) => {
            round_trips(*p, r)?;
            // binary serde form must reject what from_bytes rejects and accept this
            Ok(true)
        }
        (Err(_), Err(_)) => {
            let tok = binser::Token::Bytes(input.to_vec());
            let de: Result<PeerId, _> = binser::from_token(tok);
            ensure!(de.is_err(), "C18/serde-bin-accepts-rejected", "{:?}", input);
            Ok(false)
        }
        (Ok(_), Err(e)) => fail!("C18/from_bytes-accepts-more-than-reference", "{:?} (ref: {e})", input),
        (Err(_), Ok(_)) => fail!("C18/from_bytes-rejects-what-reference-accepts", "{:?}", input),
    }
}

#[derive(Debug, Clone, Serialize, Deserialize)]
pub enum TextCase {
    /// base58 of a valid id, then edits: (position, replacement char)
    Mutated {
        sha: bool,
        digest_len: u8,
        fill: u64,
        edits: Vec<(u16, char)>,
        ones_prefix: u8,
        truncate: Option<u16>,
    },
    Raw(String),
}

fn text_of(c: &TextCase) -> String {
    match c {
        TextCase::Raw(s) => s.clone(),
        TextCase::Mutated {
            sha,
            digest_len,
            fill,
            edits,
            ones_prefix,
            truncate,
        } => {
            let mut b = uvarint(if *sha { 0x12 } else { 0x00 });
            b.extend(uvarint(*digest_len as u64));
            b.extend(fill_bytes(*fill, *digest_len as usize));
            let mut s: Vec<char> = bs58::encode(b).into_string().chars().collect();
            for (pos, ch) in edits {
                if !s.is_empty() {
                    let i = crate::engine::pick_idx(*pos, s.len());
                    s[i] = *ch;
                }
            }
            if let Some(t) = truncate {
                let keep = crate::engine::pick_idx(*t, s.len() + 1);
                s.truncate(keep);
            }
            let mut out: String = "1".repeat(*ones_prefix as usize);
            out.extend(s);
            out
        }
    }
}

fn text_strategy() -> impl Strategy<Value = TextCase> {
    let b58char = prop::sample::select("123456789ABCDEFGHJKLMNPQRSTUVWXYZabcdefghijkmnopqrstuvwxyz".chars().collect::<Vec<_>>());
    let badchar = prop::sample::select(vec!['0', 'O', 'I', 'l', ' ', '+', '/', 'é', '\n', '_']);
    let edit_char = prop_oneof![3 => b58char, 1 => badchar];
    let mutated = (
        any::<bool>(),
        prop_oneof![3 => Just(32u8), 1 => Just(36u8), 1 => Just(42u8), 1 => Just(43u8), 1 => 0u8..64],
        any::<u64>(),
        prop::collection::vec((any::<u16>(), edit_char), 0..3),
        prop_oneof![6 => Just(0u8), 1 => 1u8..4],
        prop::option::weighted(0.15, any::<u16>()),
    )
        .prop_map(|(sha, digest_len, fill, edits, ones_prefix, truncate)| TextCase::Mutated {
            sha,
            digest_len,
            fill,
            edits,
            ones_prefix,
            truncate,
        });
    prop_oneof![
        8 => mutated,
        1 => "[1-9A-HJ-NP-Za-km-z]{0,60}".prop_map(TextCase::Raw),
        1 => ".{0,40}".prop_map(TextCase::Raw),
    ]
}

#[derive(Debug, Clone, Serialize, Deserialize)]
pub enum KeyCase {
    /// Real ed25519 key from a seed.
    Ed25519 { seed: u64 },
    /// Protobuf blob built from fields.
    Blob { fields: Vec<BlobField> },
    /// Arbitrary bytes of a given length.
    Raw { len: u8, fill: u64 },
    /// Literal bytes (from the byte-level fuzzer; not produced by the strategy).
    Bytes(Vec<u8>),
}

#[derive(Debug, Clone, Serialize, Deserialize)]
pub enum BlobField {
    Type(u64),
    Data { len: u8, fill: u64 },
    RealKey { seed: u64 },
    Unknown { tag: u8, len: u8, fill: u64 },
}

fn blob_bytes(fields: &[BlobField]) -> Vec<u8> {
    let mut out = Vec::new();
    for f in fields {
        match f {
            BlobField::Type(t) => {
                out.push(0x08);
                out.extend(uvarint(*t));
            }
            BlobField::Data { len, fill } => {
                out.push(0x12);
                out.extend(uvarint(*len as u64));
                out.extend(fill_bytes(*fill, *len as usize));
            }
            BlobField::RealKey { seed } => {
                let kp = crate::common::keypair_from_seed(*seed);
                out.push(0x12);
                out.push(32);
                out.extend(kp.public().to_bytes());
            }
            BlobField::Unknown { tag, len, fill } => {
                // length-delimited unknown field with number 3..15
                out.push(((3 + (*tag % 13)) << 3) | 2);
                out.extend(uvarint(*len as u64));
                out.extend(fill_bytes(*fill, *len as usize));
            }
        }
    }
    out
}

fn key_strategy() -> impl Strategy<Value = KeyCase> {
    let field = prop_oneof![
        3 => prop_oneof![Just(1u64), Just(0u64), Just(2u64), Just(3u64), 0u64..10, any::<u64>()].prop_map(BlobField::Type),
        2 => (prop_oneof![Just(32u8), 0u8..90], any::<u64>()).prop_map(|(len, fill)| BlobField::Data { len, fill }),
        2 => any::<u64>().prop_map(|seed| BlobField::RealKey { seed }),
        1 => (any::<u8>(), 0u8..20, any::<u64>()).prop_map(|(tag, len, fill)| BlobField::Unknown { tag, len, fill }),
    ];
    prop_oneof![
        3 => any::<u64>().prop_map(|seed| KeyCase::Ed25519 { seed }),
        5 => prop::collection::vec(field, 0..4).prop_map(|fields| KeyCase::Blob { fields }),
        2 => (0u8..=100, any::<u64>()).prop_map(|(len, fill)| KeyCase::Raw { len, fill }),
    ]
}

fn rule_peer_id_bytes(enc: &[u8]) -> Vec<u8> {
    if enc.len() <= 42 {
        let mut out = vec![0x00, enc.len() as u8];
        out.extend_from_slice(enc);
        out
    } else {
        let mut out = vec![0x12, 0x20];
        out.extend_from_slice(&Sha256::digest(enc));
        out
    }
}

#[derive(Debug, Clone, Serialize, Deserialize)]
pub struct AddrCase {
    /// components before / between / after
    pub head: u8,
    pub p2p_positions: Vec<u8>,
    pub n_components: u8,
    pub peers: Vec<(bool, u8, u64)>,
}

fn addr_strategy() -> impl Strategy<Value = AddrCase> {
    (
        0u8..6,
        prop::collection::vec(0u8..5, 0..3),
        0u8..5,
        prop::collection::vec((any::<bool>(), prop_oneof![Just(32u8), Just(36u8), Just(42u8), 0u8..43], any::<u64>()), 3),
    )
        .prop_map(|(head, p2p_positions, n_components, peers)| AddrCase {
            head,
            p2p_positions,
            n_components,
            peers,
        })
}

fn run_addr(c: &AddrCase) -> CaseResult {
    // build a component list, inserting /p2p components at the given positions
    let heads: [Protocol; 6] = [
        Protocol::Ip4([192, 0, 2, 1].into()),
        Protocol::Ip6("2001:db8::1".parse().unwrap()),
        Protocol::Dns("example.org".into()),
        Protocol::Dns4("example.org".into()),
        Protocol::Dns6("example.org".into()),
        Protocol::Memory(7),
    ];
    let tail: [Protocol; 4] = [Protocol::Tcp(30333), Protocol::Udp(1), Protocol::Ws("/".into()), Protocol::QuicV1];
    let mut comps: Vec<Protocol> = vec![heads[c.head as usize % 6].clone()];
    for i in 0..c.n_components {
        comps.push(tail[i as usize % 4].clone());
    }
    let mut ref_ids = Vec::new();
    for (k, (sha, len, fill)) in c.peers.iter().enumerate() {
        let mut b = uvarint(if *sha { 0x12 } else { 0x00 });
        let len = if *sha { 32 } else { *len };
        b.extend(uvarint(len as u64));
        b.extend(fill_bytes(*fill ^ k as u64, len as usize));
        ref_ids.push(RefPeerId::from_bytes(&b).expect("valid by construction"));
    }
    let mut expected_last: Option<RefPeerId> = None;
    for (k, pos) in c.p2p_positions.iter().enumerate() {
        let at = (*pos as usize).min(comps.len());
        comps.insert(at, Protocol::P2p(ref_ids[k % ref_ids.len()]));
    }
    if let Some(Protocol::P2p(p)) = comps.last() {
        expected_last = Some(*p);
    }
    let mut addr = Multiaddr::empty();
    for p in &comps {
        addr.push(p.clone());
    }
    let got = PeerId::try_from_multiaddr(&addr);
    match (got, expected_last) {
        (None, None) => {}
        (Some(p), Some(r)) => {
            ensure!(p.to_bytes() == r.to_bytes(), "C18/try_from_multiaddr-wrong-peer", "{addr}");
            round_trips(p, &r)?;
        }
        (Some(_), None) => fail!("C18/try_from_multiaddr-some-without-trailing-p2p", "{addr}"),
        (None, Some(_)) => fail!("C18/try_from_multiaddr-none-with-trailing-p2p", "{addr}"),
    }
    let has_mid = comps.iter().rev().skip(1).any(|p| matches!(p, Protocol::P2p(_)));
    Ok(CaseOk::trivial()
        .nt(expected_last.is_some() || has_mid)
        .class_if(expected_last.is_some(), "p2p-last")
        .class_if(has_mid, "p2p-middle")
        .class_if(expected_last.is_none() && !has_mid, "p2p-absent"))
}

pub fn run(ctx: &mut Ctx) {
    ctx.rule = "cases: (bytes) multihash-shaped byte strings [code varint, declared length, actual length equal/shorter/longer, \
        overlong varints, trailing bytes] + raw noise; (text) base58 of valid ids with char edits, '1' prefixes, truncation, plus raw strings; \
        (keys) ed25519 keys from seeds, protobuf key blobs 0..100 B built from fields (type, data, real key, unknown fields, any order), raw blobs; \
        (multiaddr) addresses with /p2p last/middle/absent. Non-trivial = accepted by litep2p or the reference, or a structured near-valid encoding \
        (code 0x00/0x12, i.e. at most the length relation / trailing bytes / varint form deviate); distinct by case hash."
        .into();
    ctx.assumptions = vec![
        "reference = libp2p-identity 0.2.14 (the type multiaddr::PeerId aliases) and sha2 0.10".into(),
        "non-human-readable serde checked with a minimal in-harness byte-token format".into(),
    ];
    let t = ctx.tier;

    ctx.campaign("bytes", CampaignCfg::new(t.pick(120_000, 4_000_000)).shards(t.pick(4, 16)), mh_strategy, run_mh);
    ctx.campaign("text", CampaignCfg::new(t.pick(60_000, 2_000_000)).shards(t.pick(4, 16)), text_strategy, run_text);
    ctx.campaign("keys", CampaignCfg::new(t.pick(30_000, 1_000_000)).shards(t.pick(4, 16)), key_strategy, run_key);
    ctx.campaign("multiaddr", CampaignCfg::new(t.pick(20_000, 500_000)).shards(t.pick(2, 16)), addr_strategy, run_addr);
}

fn run_mh(c: &MhCase) -> CaseResult {
    {
        let input = mh_bytes(c);
        let accepted = check_from_bytes(&input)?;
        let near = matches!(c, MhCase::Structured { code, .. } if *code == 0 || *code == 0x12);
        Ok(CaseOk::trivial()
            .nt(accepted || near)
            .class_if(accepted, "accepted")
            .class_if(!accepted && near, "near-valid-rejected")
            .class_if(!accepted && !near, "far-rejected"))
    }
}

fn run_text(c: &TextCase) -> CaseResult {
    {
        let s = text_of(c);
        let ours = PeerId::from_str(&s);
        let theirs = RefPeerId::from_str(&s);
        let accepted = match (&ours, &theirs) {
            (Ok(p), Ok(r)) => {
                round_trips(*p, r)?;
                true
            }
            (Err(_), Err(_)) => {
                let de: Result<PeerId, _> = serde_json::from_value(serde_json::Value::String(s.clone()));
                ensure!(de.is_err(), "C18/serde-json-accepts-rejected", "{:?}", s);
                false
            }
            (Ok(_), Err(e)) => fail!("C18/from_str-accepts-more-than-reference", "{:?} (ref: {e})", s),
            (Err(e), Ok(_)) => fail!("C18/from_str-rejects-what-reference-accepts", "{:?} ({e})", s),
        };
        let near = matches!(c, TextCase::Mutated { edits, .. } if edits.len() <= 2);
        Ok(CaseOk::trivial()
            .nt(accepted || near)
            .class_if(accepted, "accepted")
            .class_if(!accepted, "rejected"))
    }
}

fn run_key(c: &KeyCase) -> CaseResult {
    {
        let mut ok = CaseOk::nontrivial();
        let blob = match c {
            KeyCase::Ed25519 { seed } => {
                let kp = crate::common::keypair_from_seed(*seed);
                let public = litep2p::crypto::PublicKey::Ed25519(kp.public());
                let enc = public.to_protobuf_encoding();
                let rkp = libp2p_identity::Keypair::ed25519_from_bytes(secret_bytes_from_seed(*seed)).expect("ref keypair");
                let rpub = rkp.public();
                ensure!(enc == rpub.encode_protobuf(), "C18/key-encoding-differs-from-reference", "seed {seed}");
                let ours = PeerId::from_public_key(&public);
                ensure!(ours.to_bytes() == rpub.to_peer_id().to_bytes(), "C18/from_public_key-differs-from-reference", "seed {seed}");
                ensure!(kp.public().to_peer_id() == ours, "C18/ed25519-to_peer_id-differs", "seed {seed}");
                ensure!(public.to_peer_id() == ours, "C18/publickey-to_peer_id-differs", "seed {seed}");
                ensure!(ours.is_public_key(&public) == Some(true), "C18/is_public_key-false-for-own-key", "seed {seed}");
                ensure!(ours.to_bytes()[0] == 0x00 && enc.len() == 36, "C18/ed25519-not-inline", "seed {seed}");
                round_trips(ours, &rpub.to_peer_id())?;
                ok = ok.class("ed25519");
                enc
            }
            KeyCase::Blob { fields } => {
                ok = ok.class("blob");
                blob_bytes(fields)
            }
            KeyCase::Raw { len, fill } => {
                ok = ok.class("raw");
                fill_bytes(*fill, *len as usize)
            }
            KeyCase::Bytes(b) => {
                ok = ok.class("raw");
                b.clone()
            }
        };
        let ours = PeerId::from_public_key_protobuf(&blob);
        let expect = rule_peer_id_bytes(&blob);
        ensure!(ours.to_bytes() == expect, "C18/from_public_key_protobuf-violates-42-byte-rule", "blob len {} -> {:?}", blob.len(), ours.to_bytes());
        let r = RefPeerId::from_bytes(&expect).map_err(|e| crate::engine::CaseFail::new("C18/rule-id-rejected-by-reference", e.to_string()))?;
        round_trips(ours, &r)?;
        // when both libraries decode the blob as a key they agree on the key and on its canonical peer id
        if let (Ok(k), Ok(rk)) = (
            litep2p::crypto::RemotePublicKey::from_protobuf_encoding(&blob),
            libp2p_identity::PublicKey::try_decode_protobuf(&blob),
        ) {
            let litep2p::crypto::RemotePublicKey::Ed25519(pk) = k;
            let canonical = litep2p::crypto::PublicKey::Ed25519(pk);
            ensure!(canonical.to_protobuf_encoding() == rk.encode_protobuf(), "C18/decoded-key-differs-from-reference", "{:?}", blob);
            ensure!(canonical.to_peer_id().to_bytes() == rk.to_peer_id().to_bytes(), "C18/decoded-key-peer-id-differs", "{:?}", blob);
            ok = ok.class("decodes-as-key");
        }
        Ok(ok
            .class_if(blob.len() <= 42, "inline")
            .class_if(blob.len() > 42, "hashed")
            .class_if(blob.len() == 42 || blob.len() == 43, "at-boundary"))
    }
}

/// Starting corpus for libFuzzer: valid peer ids as bytes and text, and valid key blobs.
pub fn fuzz_seed_corpus() -> Vec<Vec<u8>> {
    let mut out = Vec::new();
    for seed in 0..6u64 {
        let kp = crate::common::keypair_from_seed(seed + 100);
        let public = litep2p::crypto::PublicKey::Ed25519(kp.public());
        let id = PeerId::from_public_key(&public);
        let mut a = vec![0u8];
        a.extend(id.to_bytes());
        out.push(a);
        let mut b = vec![1u8];
        b.extend(id.to_base58().into_bytes());
        out.push(b);
        let mut c = vec![2u8];
        c.extend(public.to_protobuf_encoding());
        out.push(c);
        // a sha2-256 id (hashed key) as bytes and text
        let hashed = PeerId::from_public_key_protobuf(&fill_bytes(seed, 60));
        let mut d = vec![0u8];
        d.extend(hashed.to_bytes());
        out.push(d);
        let mut e = vec![1u8];
        e.extend(hashed.to_base58().into_bytes());
        out.push(e);
    }
    out
}

/// Byte-level entry for libFuzzer: byte 0 selects bytes / text / key blob, the rest is the literal input.
pub fn fuzz_bytes(data: &[u8]) -> Option<crate::engine::FuzzOutcome> {
    use crate::engine::{guarded, FuzzOutcome};
    let (sel, rest) = data.split_first()?;
    Some(match sel % 3 {
        0 => {
            let c = MhCase::Raw(rest.to_vec());
            FuzzOutcome { sub: "bytes".into(), case: serde_json::to_value(&c).ok()?, result: guarded(|| run_mh(&c)) }
        }
        1 => {
            let c = TextCase::Raw(String::from_utf8_lossy(rest).into_owned());
            FuzzOutcome { sub: "text".into(), case: serde_json::to_value(&c).ok()?, result: guarded(|| run_text(&c)) }
        }
        _ => {
            let c = KeyCase::Bytes(rest.to_vec());
            FuzzOutcome { sub: "keys".into(), case: serde_json::to_value(&c).ok()?, result: guarded(|| run_key(&c)) }
        }
    })
}

/// Minimal non-human-readable serde format: a value is a single bytes or string token.
pub mod binser {
    use serde::de::{self, Visitor};
    use serde::ser::{self, Impossible};
    use serde::{Deserialize, Serialize};
    use std::fmt;

    #[derive(Debug, Clone, PartialEq, Eq)]
    pub enum Token {
        Bytes(Vec<u8>),
        Str(String),
    }

    #[derive(Debug)]
    pub struct Error(String);
    impl fmt::Display for Error {
        fn fmt(&self, f: &mut fmt::Formatter<'_>) -> fmt::Result {
            f.write_str(&self.0)
        }
    }
    impl std::error::Error for Error {}
    impl ser::Error for Error {
        fn custom<T: fmt::Display>(msg: T) -> Self {
            Error(msg.to_string())
        }
    }
    impl de::Error for Error {
        fn custom<T: fmt::Display>(msg: T) -> Self {
            Error(msg.to_string())
        }
    }

    pub fn to_token<T: Serialize>(v: &T) -> Result<Token, String> {
        v.serialize(Ser).map_err(|e| e.0)
    }
    pub fn from_token<T: for<'de> Deserialize<'de>>(t: Token) -> Result<T, String> {
        T::deserialize(De(t)).map_err(|e| e.0)
    }

    struct Ser;
    macro_rules! unsupported {
        ($($name:ident($ty:ty)),*) => {
            $(fn $name(self, _v: $ty) -> Result<Token, Error> { Err(Error("unsupported".into())) })*
        };
    }
    impl ser::Serializer for Ser {
        type Ok = Token;
        type Error = Error;
        type SerializeSeq = Impossible<Token, Error>;
        type SerializeTuple = Impossible<Token, Error>;
        type SerializeTupleStruct = Impossible<Token, Error>;
        type SerializeTupleVariant = Impossible<Token, Error>;
        type SerializeMap = Impossible<Token, Error>;
        type SerializeStruct = Impossible<Token, Error>;
        type SerializeStructVariant = Impossible<Token, Error>;
        fn is_human_readable(&self) -> bool {
            false
        }
        fn serialize_bytes(self, v: &[u8]) -> Result<Token, Error> {
            Ok(Token::Bytes(v.to_vec()))
        }
        fn serialize_str(self, v: &str) -> Result<Token, Error> {
            Ok(Token::Str(v.to_string()))
        }
        unsupported!(serialize_bool(bool), serialize_i8(i8), serialize_i16(i16), serialize_i32(i32), serialize_i64(i64),
            serialize_u8(u8), serialize_u16(u16), serialize_u32(u32), serialize_u64(u64), serialize_f32(f32), serialize_f64(f64),
            serialize_char(char), serialize_unit_struct(&'static str));
        fn serialize_none(self) -> Result<Token, Error> {
            Err(Error("unsupported".into()))
        }
        fn serialize_some<T: ?Sized + Serialize>(self, _v: &T) -> Result<Token, Error> {
            Err(Error("unsupported".into()))
        }
        fn serialize_unit(self) -> Result<Token, Error> {
            Err(Error("unsupported".into()))
        }
        fn serialize_unit_variant(self, _: &'static str, _: u32, _: &'static str) -> Result<Token, Error> {
            Err(Error("unsupported".into()))
        }
        fn serialize_newtype_struct<T: ?Sized + Serialize>(self, _: &'static str, v: &T) -> Result<Token, Error> {
            v.serialize(self)
        }
        fn serialize_newtype_variant<T: ?Sized + Serialize>(self, _: &'static str, _: u32, _: &'static str, _: &T) -> Result<Token, Error> {
            Err(Error("unsupported".into()))
        }
        fn serialize_seq(self, _: Option<usize>) -> Result<Self::SerializeSeq, Error> {
            Err(Error("unsupported".into()))
        }
        fn serialize_tuple(self, _: usize) -> Result<Self::SerializeTuple, Error> {
            Err(Error("unsupported".into()))
        }
        fn serialize_tuple_struct(self, _: &'static str, _: usize) -> Result<Self::SerializeTupleStruct, Error> {
            Err(Error("unsupported".into()))
        }
        fn serialize_tuple_variant(self, _: &'static str, _: u32, _: &'static str, _: usize) -> Result<Self::SerializeTupleVariant, Error> {
            Err(Error("unsupported".into()))
        }
        fn serialize_map(self, _: Option<usize>) -> Result<Self::SerializeMap, Error> {
            Err(Error("unsupported".into()))
        }
        fn serialize_struct(self, _: &'static str, _: usize) -> Result<Self::SerializeStruct, Error> {
            Err(Error("unsupported".into()))
        }
        fn serialize_struct_variant(self, _: &'static str, _: u32, _: &'static str, _: usize) -> Result<Self::SerializeStructVariant, Error> {
            Err(Error("unsupported".into()))
        }
    }

    struct De(Token);
    impl<'de> de::Deserializer<'de> for De {
        type Error = Error;
        fn is_human_readable(&self) -> bool {
            false
        }
        fn deserialize_any<V: Visitor<'de>>(self, visitor: V) -> Result<V::Value, Error> {
            match self.0 {
                Token::Bytes(b) => visitor.visit_bytes(&b),
                Token::Str(s) => visitor.visit_str(&s),
            }
        }
        serde::forward_to_deserialize_any! {
            bool i8 i16 i32 i64 i128 u8 u16 u32 u64 u128 f32 f64 char str string
            bytes byte_buf option unit unit_struct newtype_struct seq tuple
            tuple_struct map struct enum identifier ignored_any
        }
    }
}
