//! C19 — bytes from the network can never panic or over-allocate a decoder; own encodings round-trip.
//!
//! Structured values for every message kind -> the library's own encoder -> mutation operators
//! (bit flip, byte set, insert, delete, truncate, splice, varint replacement) -> the real decoder.
//! Oracle: Ok/Err/None, never a panic (engine `guarded`), peak heap growth bounded (counting
//! allocator), and decode(encode(v)) == v under a stated equivalence.

use crate::alloc_count::measure;
use crate::common::{peer_from_seed, uvarint};
use crate::engine::{fill_bytes, pick_idx, CampaignCfg, CaseFail, CaseOk, CaseResult, Ctx, SplitMix};
use crate::f2::{block_on_paused, pipe, PipeCfg};
use crate::{ensure, fail};
use bytes::{Bytes, BytesMut};
use futures::io::AsyncWriteExt;
use litep2p::protocol::libp2p::bitswap::verif as bs;
use litep2p::protocol::libp2p::identify::verif::SchemaIdentify;
use litep2p::protocol::libp2p::kademlia::verif::{ConnectionType, KademliaMessage, KademliaPeer};
use litep2p::protocol::libp2p::kademlia::{ContentProvider, Record, RecordKey};
use litep2p::verif::multistream as ms;
use litep2p::{PeerId, ProtocolName};
use multiaddr::Multiaddr;
use proptest::prelude::*;
use prost::Message as _;
use serde::{Deserialize, Serialize};
use std::str::FromStr;
use std::time::{Duration, Instant};

#[derive(Debug, Clone, Serialize, Deserialize)]
pub enum Mut {
    Flip { at: u16, bit: u8 },
    Set { at: u16, val: u8 },
    Insert { at: u16, bytes: Vec<u8> },
    Delete { at: u16, len: u8 },
    Truncate { at: u16 },
    /// replace the varint starting at `at` by a special value
    Varint { at: u16, sel: u8 },
    /// keep the prefix up to `at`, then append the other encoding from `from`
    Splice { at: u16, from: u16 },
    /// structure-aware: read the bytes as a protobuf tree, pick one length-delimited field (at any depth) and damage only
    /// its payload, re-encoding the enclosing lengths — the outer message still decodes, an inner multiaddress / CID /
    /// peer id / key / nested message does not. how: 0 empty, 1 replace by `bytes`, 2 drop last byte, 3 flip first byte,
    /// 4 flip last byte, 5 append `bytes`, 6 prepend `bytes`
    Field { pick: u16, how: u8, bytes: Vec<u8> },
    /// structure-aware: replace the payload of one length-delimited field that looks like a multihash / peer id (two bytes
    /// `code, len` followed by exactly `len` bytes) by a crafted one: identity digests of 0, 36, 42, 43, 64 and 65 bytes,
    /// SHA-256 digests of 31, 32 and 33 bytes, a 64-byte SHA-512 one, an unknown code, a lying length
    CraftId { pick: u16, form: u8 },
}

#[derive(Debug, Clone)]
enum PbNode {
    Other(Vec<u8>),
    Len { key: Vec<u8>, payload: Vec<u8>, children: Option<Vec<PbNode>> },
}

fn pb_varint(b: &[u8], at: &mut usize) -> Option<u64> {
    let mut v = 0u64;
    for i in 0..10 {
        let byte = *b.get(*at)?;
        *at += 1;
        v |= ((byte & 0x7f) as u64) << (7 * i);
        if byte & 0x80 == 0 {
            return Some(v);
        }
    }
    None
}

fn pb_parse(b: &[u8], depth: u8) -> Option<Vec<PbNode>> {
    let mut at = 0usize;
    let mut out = Vec::new();
    while at < b.len() {
        let start = at;
        let key = pb_varint(b, &mut at)?;
        if key >> 3 == 0 {
            return None;
        }
        match key & 7 {
            0 => {
                pb_varint(b, &mut at)?;
                out.push(PbNode::Other(b[start..at].to_vec()));
            }
            1 => {
                at = at.checked_add(8).filter(|e| *e <= b.len())?;
                out.push(PbNode::Other(b[start..at].to_vec()));
            }
            5 => {
                at = at.checked_add(4).filter(|e| *e <= b.len())?;
                out.push(PbNode::Other(b[start..at].to_vec()));
            }
            2 => {
                let key_bytes = b[start..at].to_vec();
                let len = pb_varint(b, &mut at)? as usize;
                let end = at.checked_add(len).filter(|e| *e <= b.len())?;
                let payload = b[at..end].to_vec();
                at = end;
                let children = if depth < 4 && !payload.is_empty() { pb_parse(&payload, depth + 1) } else { None };
                out.push(PbNode::Len { key: key_bytes, payload, children });
            }
            _ => return None,
        }
    }
    Some(out)
}

fn pb_count(nodes: &[PbNode]) -> usize {
    nodes.iter().map(|n| match n { PbNode::Other(_) => 0, PbNode::Len { children, .. } => 1 + children.as_ref().map(|c| pb_count(c)).unwrap_or(0) }).sum()
}

fn pb_damage(nodes: &mut [PbNode], target: &mut usize, how: u8, bytes: &[u8]) -> bool {
    for n in nodes.iter_mut() {
        if let PbNode::Len { payload, children, .. } = n {
            if *target == 0 {
                match how % 7 {
                    0 => payload.clear(),
                    1 => *payload = bytes.to_vec(),
                    2 => { payload.pop(); }
                    3 => { if let Some(b) = payload.first_mut() { *b ^= 0x41; } }
                    4 => { if let Some(b) = payload.last_mut() { *b ^= 0x41; } }
                    5 => payload.extend_from_slice(bytes),
                    _ => { payload.splice(0..0, bytes.iter().cloned()); }
                }
                *children = None;
                return true;
            }
            *target -= 1;
            if let Some(c) = children {
                if pb_damage(c, target, how, bytes) {
                    return true;
                }
            }
        }
    }
    false
}

fn pb_encode(nodes: &[PbNode]) -> Vec<u8> {
    let mut out = Vec::new();
    for n in nodes {
        match n {
            PbNode::Other(raw) => out.extend_from_slice(raw),
            PbNode::Len { key, payload, children } => {
                let body = match children { Some(c) => pb_encode(c), None => payload.clone() };
                out.extend_from_slice(key);
                out.extend(uvarint(body.len() as u64));
                out.extend(body);
            }
        }
    }
    out
}

fn looks_like_multihash(p: &[u8]) -> bool {
    p.len() >= 2 && p[1] as usize == p.len() - 2 && (p[0] == 0x00 || p[0] == 0x12)
}

fn crafted_id(form: u8) -> Vec<u8> {
    let body = |code: u8, declared: u8, n: usize| {
        let mut v = vec![code, declared];
        v.extend(fill_bytes(0x1d + form as u64, n));
        v
    };
    match form % 12 {
        0 => body(0x00, 43, 43),
        1 => body(0x00, 64, 64),
        2 => body(0x00, 42, 42),
        3 => body(0x00, 65, 65),
        4 => body(0x00, 0, 0),
        5 => body(0x12, 32, 32),
        6 => body(0x12, 31, 31),
        7 => body(0x12, 32, 33),
        8 => body(0x13, 64, 64),
        9 => peer_from_seed(form as u64).to_bytes(),
        10 => body(0x55, 20, 20),
        _ => body(0x00, 50, 50),
    }
}

fn pb_craft(nodes: &mut [PbNode], target: &mut usize, form: u8) -> bool {
    for n in nodes.iter_mut() {
        if let PbNode::Len { payload, children, .. } = n {
            if looks_like_multihash(payload) {
                if *target == 0 {
                    *payload = crafted_id(form);
                    *children = None;
                    return true;
                }
                *target -= 1;
            }
            if let Some(c) = children {
                if pb_craft(c, target, form) {
                    return true;
                }
            }
        }
    }
    false
}

fn pb_count_ids(nodes: &[PbNode]) -> usize {
    nodes
        .iter()
        .map(|n| match n {
            PbNode::Other(_) => 0,
            PbNode::Len { payload, children, .. } => usize::from(looks_like_multihash(payload)) + children.as_ref().map(|c| pb_count_ids(c)).unwrap_or(0),
        })
        .sum()
}

/// Replaces one multihash-shaped field of a protobuf encoding by a crafted one (None when there is none).
pub fn craft_id(b: &[u8], pick: u16, form: u8) -> Option<Vec<u8>> {
    let mut tree = pb_parse(b, 0)?;
    let n = pb_count_ids(&tree);
    if n == 0 {
        return None;
    }
    let mut target = pick_idx(pick, n);
    pb_craft(&mut tree, &mut target, form);
    Some(pb_encode(&tree))
}

/// Damages the payload of one length-delimited field of a protobuf encoding (None when the bytes are not a protobuf tree
/// or have no such field).
pub fn damage_field(b: &[u8], pick: u16, how: u8, bytes: &[u8]) -> Option<Vec<u8>> {
    let mut tree = pb_parse(b, 0)?;
    let n = pb_count(&tree);
    if n == 0 {
        return None;
    }
    let mut target = pick_idx(pick, n);
    pb_damage(&mut tree, &mut target, how, bytes);
    Some(pb_encode(&tree))
}

pub fn mut_strategy() -> impl Strategy<Value = Mut> {
    prop_oneof![
        3 => (any::<u16>(), 0u8..8).prop_map(|(at, bit)| Mut::Flip { at, bit }),
        2 => (any::<u16>(), prop_oneof![Just(0u8), Just(0xff), Just(0x80), Just(0x7f), any::<u8>()]).prop_map(|(at, val)| Mut::Set { at, val }),
        1 => (any::<u16>(), prop::collection::vec(any::<u8>(), 1..6)).prop_map(|(at, bytes)| Mut::Insert { at, bytes }),
        1 => (any::<u16>(), 1u8..8).prop_map(|(at, len)| Mut::Delete { at, len }),
        2 => any::<u16>().prop_map(|at| Mut::Truncate { at }),
        3 => (any::<u16>(), 0u8..9).prop_map(|(at, sel)| Mut::Varint { at, sel }),
        1 => (any::<u16>(), any::<u16>()).prop_map(|(at, from)| Mut::Splice { at, from }),
        4 => (any::<u16>(), 0u8..7, prop::collection::vec(any::<u8>(), 0..5)).prop_map(|(pick, how, bytes)| Mut::Field { pick, how, bytes }),
        3 => (any::<u16>(), 0u8..12).prop_map(|(pick, form)| Mut::CraftId { pick, form }),
    ]
}

fn special_varint(sel: u8) -> Vec<u8> {
    match sel {
        0 => uvarint(0),
        1 => uvarint(1),
        2 => uvarint(1 << 7),
        3 => uvarint(1 << 14),
        4 => uvarint(1 << 32),
        5 => uvarint(1 << 63),
        6 => uvarint(u64::MAX),
        7 => crate::common::uvarint_overlong(5),
        _ => vec![0xff; 11],
    }
}

pub fn apply(mut b: Vec<u8>, muts: &[Mut], other: &[u8]) -> Vec<u8> {
    for m in muts {
        match m {
            Mut::Flip { at, bit } => {
                if !b.is_empty() {
                    let i = pick_idx(*at, b.len());
                    b[i] ^= 1 << (bit % 8);
                }
            }
            Mut::Set { at, val } => {
                if !b.is_empty() {
                    let i = pick_idx(*at, b.len());
                    b[i] = *val;
                }
            }
            Mut::Insert { at, bytes } => {
                let i = pick_idx(*at, b.len() + 1);
                b.splice(i..i, bytes.iter().cloned());
            }
            Mut::Delete { at, len } => {
                if !b.is_empty() {
                    let i = pick_idx(*at, b.len());
                    let e = (i + *len as usize).min(b.len());
                    b.drain(i..e);
                }
            }
            Mut::Truncate { at } => {
                let i = pick_idx(*at, b.len() + 1);
                b.truncate(i);
            }
            Mut::Varint { at, sel } => {
                if !b.is_empty() {
                    let i = pick_idx(*at, b.len());
                    let mut e = i;
                    while e < b.len() && b[e] & 0x80 != 0 {
                        e += 1;
                    }
                    e = (e + 1).min(b.len());
                    b.splice(i..e, special_varint(*sel));
                }
            }
            Mut::Field { pick, how, bytes } => {
                if let Some(nb) = damage_field(&b, *pick, *how, bytes) {
                    b = nb;
                }
            }
            Mut::CraftId { pick, form } => {
                if let Some(nb) = craft_id(&b, *pick, *form) {
                    b = nb;
                }
            }
            Mut::Splice { at, from } => {
                let i = pick_idx(*at, b.len() + 1);
                let j = pick_idx(*from, other.len() + 1);
                b.truncate(i);
                b.extend_from_slice(&other[j..]);
            }
        }
    }
    b
}

#[derive(Debug, Clone, Copy, Serialize, Deserialize, PartialEq)]
pub enum Target {
    MsMessage,
    MsListenerMsg,
    MsDialerMsg,
    KadMessage,
    Identify,
    BitswapMessage,
    BitswapPrefix,
    PublicKey,
    PeerIdBytes,
    PeerIdText,
    Multiaddr,
}

const TARGETS: [Target; 11] = [
    Target::MsMessage,
    Target::MsListenerMsg,
    Target::MsDialerMsg,
    Target::KadMessage,
    Target::Identify,
    Target::BitswapMessage,
    Target::BitswapPrefix,
    Target::PublicKey,
    Target::PeerIdBytes,
    Target::PeerIdText,
    Target::Multiaddr,
];

#[derive(Debug, Clone, Serialize, Deserialize)]
pub struct Case {
    pub target: Target,
    /// seed of the structured valid value the encoding is made from
    pub base: u64,
    pub other: u64,
    pub muts: Vec<Mut>,
    /// pure noise instead of a mutated encoding
    pub noise: Option<Vec<u8>>,
}

fn strategy() -> impl Strategy<Value = Case> {
    (
        prop::sample::select(TARGETS.to_vec()),
        any::<u64>(),
        any::<u64>(),
        prop_oneof![1 => Just(vec![]), 6 => prop::collection::vec(mut_strategy(), 1..3), 2 => prop::collection::vec(mut_strategy(), 3..6)],
        prop::option::weighted(0.05, prop::collection::vec(any::<u8>(), 0..64)),
    )
        .prop_map(|(target, base, other, muts, noise)| Case { target, base, other, muts, noise })
}

fn name_from(r: &mut SplitMix) -> String {
    let n = 1 + r.below(24) as usize;
    let mut s = String::from("/");
    for _ in 0..n {
        s.push((b'a' + r.below(26) as u8) as char);
    }
    s
}

fn addr_from(r: &mut SplitMix, peer: Option<PeerId>) -> Multiaddr {
    let mut a: Multiaddr = match r.below(4) {
        0 => format!("/ip4/{}.{}.{}.{}/tcp/{}", 1 + r.below(200), r.below(255), r.below(255), 1 + r.below(250), 1 + r.below(60000)),
        1 => format!("/ip6/2001:db8::{:x}/tcp/{}", r.below(65535), 1 + r.below(60000)),
        2 => format!("/dns4/host{}.example.org/tcp/{}/ws", r.below(100), 1 + r.below(60000)),
        _ => format!("/ip4/10.0.0.{}/udp/{}/quic-v1", 1 + r.below(250), 1 + r.below(60000)),
    }
    .parse()
    .unwrap();
    if let Some(p) = peer {
        if r.below(2) == 0 {
            a.push(multiaddr::Protocol::P2p(p.into()));
        }
    }
    a
}

fn kad_peer_from(r: &mut SplitMix) -> KademliaPeer {
    let p = peer_from_seed(r.below(40));
    let n = r.below(4) as usize;
    let addrs = (0..n).map(|_| addr_from(r, Some(p))).collect();
    let conn = match r.below(4) {
        0 => ConnectionType::NotConnected,
        1 => ConnectionType::Connected,
        2 => ConnectionType::CanConnect,
        _ => ConnectionType::CannotConnect,
    };
    KademliaPeer::new(p, addrs, conn)
}

/// List length: usually small, sometimes above the replication factor (20).
fn count(r: &mut SplitMix, max: u64) -> u64 {
    if r.below(12) == 0 {
        21 + r.below(20)
    } else {
        r.below(max)
    }
}

fn record_from(r: &mut SplitMix) -> Record {
    Record {
        key: RecordKey::from(fill_bytes(r.next(), 1 + r.below(40) as usize)),
        value: fill_bytes(r.next(), r.below(200) as usize),
        publisher: if r.below(2) == 0 { Some(peer_from_seed(r.below(40))) } else { None },
        expires: if r.below(2) == 0 { Some(Instant::now() + Duration::from_secs(3600 + r.below(100_000))) } else { None },
    }
}

/// A valid encoding for the target, built with the library's own encoders.
pub fn valid_encoding(target: Target, seed: u64) -> Vec<u8> {
    let mut r = SplitMix(seed);
    match target {
        Target::MsMessage => {
            let m = match r.below(5) {
                0 => ms::Message::Header(ms::HeaderLine::V1),
                1 => ms::Message::Protocol(ms::Protocol::try_from(name_from(&mut r).as_bytes()).unwrap()),
                2 => ms::Message::ListProtocols,
                3 => ms::Message::Protocols((0..r.below(5)).map(|_| ms::Protocol::try_from(name_from(&mut r).as_bytes()).unwrap()).collect()),
                _ => ms::Message::NotAvailable,
            };
            let mut b = BytesMut::new();
            m.encode(&mut b).unwrap();
            b.to_vec()
        }
        Target::MsListenerMsg | Target::MsDialerMsg => {
            // one or two length-prefixed multistream messages (header, protocol / na)
            let mut out = Vec::new();
            let parts = 1 + r.below(2);
            for k in 0..parts {
                let m: Vec<u8> = match (k, r.below(4)) {
                    (0, 0 | 1) => b"/multistream/1.0.0\n".to_vec(),
                    (_, 2) => b"na\n".to_vec(),
                    _ => format!("{}\n", name_from(&mut r)).into_bytes(),
                };
                out.extend(uvarint(m.len() as u64));
                out.extend(m);
            }
            out
        }
        Target::KadMessage => match r.below(9) {
            0 => KademliaMessage::find_node(fill_bytes(r.next(), 1 + r.below(40) as usize)).to_vec(),
            1 => KademliaMessage::put_value(record_from(&mut r)).to_vec(),
            2 => KademliaMessage::get_record(RecordKey::from(fill_bytes(r.next(), 1 + r.below(40) as usize))).to_vec(),
            3 => KademliaMessage::find_node_response(fill_bytes(r.next(), 8), (0..count(&mut r, 5)).map(|_| kad_peer_from(&mut r)).collect()),
            4 => KademliaMessage::put_value_response(RecordKey::from(fill_bytes(r.next(), 8)), fill_bytes(r.next(), r.below(50) as usize)).to_vec(),
            5 => {
                let rec = if r.below(2) == 0 { Some(record_from(&mut r)) } else { None };
                KademliaMessage::get_value_response(RecordKey::from(fill_bytes(r.next(), 8)), (0..count(&mut r, 4)).map(|_| kad_peer_from(&mut r)).collect(), rec)
            }
            6 => {
                let p = peer_from_seed(r.below(40));
                let addrs = (0..r.below(3)).map(|_| addr_from(&mut r, Some(p))).collect();
                KademliaMessage::add_provider(RecordKey::from(fill_bytes(r.next(), 8)), ContentProvider { peer: p, addresses: addrs }).to_vec()
            }
            7 => KademliaMessage::get_providers_request(RecordKey::from(fill_bytes(r.next(), 8))).to_vec(),
            _ => {
                let provs = (0..count(&mut r, 3))
                    .map(|_| {
                        let p = peer_from_seed(r.below(40));
                        ContentProvider { peer: p, addresses: (0..r.below(3)).map(|_| addr_from(&mut r, Some(p))).collect() }
                    })
                    .collect();
                let closer: Vec<KademliaPeer> = (0..count(&mut r, 4)).map(|_| kad_peer_from(&mut r)).collect();
                KademliaMessage::get_providers_response(provs, &closer)
            }
        },
        Target::Identify => {
            let p = peer_from_seed(r.below(40));
            let id = SchemaIdentify {
                protocol_version: Some(name_from(&mut r)),
                agent_version: if r.below(2) == 0 { Some("litep2p/1.0".into()) } else { None },
                public_key: Some(crate::common::keypair_from_seed(r.below(40)).public().to_bytes().to_vec()),
                listen_addrs: (0..r.below(5)).map(|_| addr_from(&mut r, Some(p)).to_vec()).collect(),
                observed_addr: if r.below(2) == 0 { Some(addr_from(&mut r, None).to_vec()) } else { None },
                protocols: (0..r.below(6)).map(|_| name_from(&mut r)).collect(),
            };
            id.encode_to_vec()
        }
        Target::BitswapMessage => {
            let n = 1 + r.below(4);
            match r.below(3) {
                0 => {
                    let blocks = (0..n)
                        .map(|_| {
                            let data = fill_bytes(r.next(), r.below(300) as usize);
                            (crate::props::c20_cid(&data), data)
                        })
                        .collect();
                    bs::blocks_message(blocks).unwrap().0.to_vec()
                }
                1 => {
                    let pres = (0..n)
                        .map(|_| {
                            let data = fill_bytes(r.next(), 8);
                            (crate::props::c20_cid(&data), if r.below(2) == 0 { litep2p::protocol::libp2p::bitswap::BlockPresenceType::Have } else { litep2p::protocol::libp2p::bitswap::BlockPresenceType::DontHave })
                        })
                        .collect();
                    bs::presences_message(pres).unwrap().0.to_vec()
                }
                _ => {
                    let mut msg = bs::SchemaMessage::default();
                    let mut wl = msg.wantlist.take().unwrap_or_default();
                    for _ in 0..n {
                        wl.entries.push(Default::default());
                        let e = wl.entries.last_mut().unwrap();
                        e.block = crate::props::c20_cid(&fill_bytes(r.next(), 8)).to_bytes();
                        e.priority = 1;
                        e.want_type = r.below(3) as i32;
                    }
                    msg.wantlist = Some(wl);
                    msg.encode_to_vec()
                }
            }
        }
        Target::BitswapPrefix => {
            let mut b = uvarint(r.below(3));
            b.extend(uvarint([0x55u64, 0x70, 0x71][r.below(3) as usize]));
            b.extend(uvarint([0x12u64, 0x13, 0xb220, 0x16][r.below(4) as usize]));
            b.extend(uvarint(32));
            b
        }
        Target::PublicKey => litep2p::crypto::PublicKey::Ed25519(crate::common::keypair_from_seed(r.below(1000)).public()).to_protobuf_encoding(),
        Target::PeerIdBytes => peer_from_seed(r.below(1000)).to_bytes(),
        Target::PeerIdText => peer_from_seed(r.below(1000)).to_base58().into_bytes(),
        Target::Multiaddr => {
            let p = peer_from_seed(r.below(40));
            addr_from(&mut r, Some(p)).to_vec()
        }
    }
}

/// A Kademlia response carrying at least one peer (FIND_NODE, GET_VALUE or GET_PROVIDERS reply).
pub fn kad_response_encoding(seed: u64) -> Vec<u8> {
    let mut r = SplitMix(seed);
    let peers: Vec<KademliaPeer> = (0..1 + r.below(4)).map(|_| kad_peer_from(&mut r)).collect();
    match r.below(3) {
        0 => KademliaMessage::find_node_response(fill_bytes(r.next(), 8), peers),
        1 => KademliaMessage::get_value_response(RecordKey::from(fill_bytes(r.next(), 8)), peers, None),
        _ => KademliaMessage::get_providers_response(Vec::new(), &peers),
    }
}

/// Feeds the bytes to the real decoder; returns how deep it got: 0 rejected, 1 outer ok, 2 inner fields ok.
fn feed(target: Target, input: &[u8]) -> Result<u8, CaseFail> {
    Ok(match target {
        Target::MsMessage => match ms::Message::decode(Bytes::copy_from_slice(input)) {
            Ok(m) => {
                // whatever decodes must re-encode and decode to the same value
                let mut b = BytesMut::new();
                if m.encode(&mut b).is_ok() {
                    let again = ms::Message::decode(b.freeze());
                    ensure!(again.as_ref().ok() == Some(&m), "C19/multistream-message-reencode-differs", "{:?} -> {:?}", m, again);
                }
                2
            }
            Err(_) => 0,
        },
        Target::MsListenerMsg => {
            let supported: Vec<ProtocolName> = vec![ProtocolName::from("/a"), ProtocolName::from("/proto/1")];
            let a = ms::webrtc_listener_negotiate(supported.clone(), Bytes::copy_from_slice(input), false).is_ok();
            let b = ms::webrtc_listener_negotiate(supported, Bytes::copy_from_slice(input), true).is_ok();
            u8::from(a) + u8::from(b)
        }
        Target::MsDialerMsg => {
            let (mut st, _) = ms::WebRtcDialerState::propose(ProtocolName::from("/a"), vec![ProtocolName::from("/b")]).map_err(|e| CaseFail::new("C19/propose-failed", format!("{e:?}")))?;
            match st.register_response(input.to_vec()) {
                Ok(_) => 2,
                Err(_) => 0,
            }
        }
        Target::KadMessage => match KademliaMessage::from_bytes(BytesMut::from(input), 20) {
            Some(m) => {
                let peers = match &m {
                    KademliaMessage::FindNode { peers, .. } => peers.len(),
                    KademliaMessage::GetRecord { peers, .. } => peers.len(),
                    KademliaMessage::GetProviders { peers, providers, .. } => peers.len().max(providers.len()),
                    KademliaMessage::AddProvider { providers, .. } => providers.len(),
                    KademliaMessage::PutValue { .. } => 0,
                };
                ensure!(peers <= 20, "C19/kademlia-peer-list-exceeds-replication-factor", "{peers}");
                // what the Kademlia handler does with every peer it was told about: the id becomes a /p2p component of the
                // addresses handed to the transport manager and the routing table
                let decoded: Vec<&KademliaPeer> = match &m {
                    KademliaMessage::FindNode { peers, .. } | KademliaMessage::GetRecord { peers, .. } => peers.iter().collect(),
                    KademliaMessage::GetProviders { peers, .. } => peers.iter().collect(),
                    _ => Vec::new(),
                };
                for kp in decoded {
                    let (id, _, _, addrs) = kp.verif_parts();
                    let component = multiaddr::Protocol::P2p(id.into());
                    for a in addrs {
                        let _ = a.with(component.clone());
                    }
                }
                2
            }
            None => 0,
        },
        Target::Identify => match SchemaIdentify::decode(input) {
            Ok(info) => {
                let mut ok = 1;
                for a in &info.listen_addrs {
                    if Multiaddr::try_from(a.clone()).is_ok() {
                        ok = 2;
                    }
                }
                if let Some(o) = info.observed_addr {
                    let _ = Multiaddr::try_from(o);
                }
                ok
            }
            Err(_) => 0,
        },
        Target::BitswapMessage => match bs::SchemaMessage::decode(input) {
            Ok(msg) => {
                let peer = peer_from_seed(1);
                let mut depth = 1;
                for b in msg.payload {
                    if bs::block_to_response(&peer, b.prefix, b.data).is_some() {
                        depth = 2;
                    }
                }
                for p in msg.block_presences {
                    let _ = cid::Cid::read_bytes(&p.cid[..]);
                }
                if let Some(wl) = msg.wantlist {
                    for e in wl.entries {
                        if cid::Cid::read_bytes(e.block.as_slice()).is_ok() {
                            depth = 2;
                        }
                    }
                }
                depth
            }
            Err(_) => 0,
        },
        Target::BitswapPrefix => match bs::prefix_from_bytes(input) {
            Some(_) => 2,
            None => 0,
        },
        Target::PublicKey => match litep2p::crypto::RemotePublicKey::from_protobuf_encoding(input) {
            Ok(_) => 2,
            Err(_) => 0,
        },
        Target::PeerIdBytes => match PeerId::from_bytes(input) {
            Ok(_) => 2,
            Err(_) => 0,
        },
        Target::PeerIdText => match std::str::from_utf8(input) {
            Ok(s) => match PeerId::from_str(s) {
                Ok(_) => 2,
                Err(_) => 0,
            },
            Err(_) => 0,
        },
        Target::Multiaddr => match Multiaddr::try_from(input.to_vec()) {
            Ok(a) => {
                let _ = PeerId::try_from_multiaddr(&a);
                2
            }
            Err(_) => 0,
        },
    })
}

fn run_case(c: &Case) -> CaseResult {
    let input = match &c.noise {
        Some(n) => n.clone(),
        None => {
            let base = valid_encoding(c.target, c.base);
            let other = valid_encoding(c.target, c.other);
            apply(base, &c.muts, &other)
        }
    };
    let started = Instant::now();
    let (depth, growth) = measure(|| feed(c.target, &input));
    let depth = depth?;
    let elapsed = started.elapsed();
    ensure!(
        growth <= 64 * input.len() + (1 << 20),
        "C19/decoder-over-allocates",
        "{:?}: {} bytes of heap for an input of {} bytes",
        c.target,
        growth,
        input.len()
    );
    ensure!(elapsed < Duration::from_secs(5), "C19/decoder-too-slow", "{:?}: {:?} for {} bytes", c.target, elapsed, input.len());
    let mutated = !c.muts.is_empty() || c.noise.is_some();
    Ok(CaseOk::trivial()
        .nt(mutated && depth >= 1)
        .class(match c.target {
            Target::MsMessage => "multistream-message",
            Target::MsListenerMsg => "webrtc-listener-negotiate",
            Target::MsDialerMsg => "webrtc-dialer-register-response",
            Target::KadMessage => "kademlia",
            Target::Identify => "identify",
            Target::BitswapMessage => "bitswap-message",
            Target::BitswapPrefix => "bitswap-prefix",
            Target::PublicKey => "public-key",
            Target::PeerIdBytes => "peer-id-bytes",
            Target::PeerIdText => "peer-id-text",
            Target::Multiaddr => "multiaddr",
        })
        .class_if(mutated && depth == 2, "mutated-parses-deep")
        .class_if(mutated && depth == 0, "mutated-rejected")
        .class_if(!mutated, "unmutated"))
}

// ---------------------------------------------------------------------------------------------
// exhaustive truncation of valid encodings + round trips of the encoders

#[derive(Debug, Clone, Serialize, Deserialize)]
pub struct RtCase {
    pub target: Target,
    pub seed: u64,
}

/// Value-level round trip of the multistream-select messages through the library's own encoder and decoder, with
/// protocol names of every length from 1 to 200 bytes (the length prefix of a name inside an `ls` response is itself a
/// byte that may look like the start of another message: 46 + 1 = 0x2f = '/').
#[derive(Debug, Clone, Serialize, Deserialize)]
pub struct MsRtCase {
    /// 0 header, 1 protocol, 2 ls, 3 na, 4.. an `ls` response
    pub kind: u8,
    /// lengths of the names (the first is used for a single protocol)
    pub lens: Vec<u8>,
    pub seed: u64,
}

fn ms_rt_strategy() -> impl Strategy<Value = MsRtCase> {
    (0u8..10, prop::collection::vec(prop_oneof![3 => 1u8..=200, 1 => prop_oneof![Just(45u8), Just(46), Just(47), Just(126), Just(127), Just(128)]], 1..5), any::<u64>())
        .prop_map(|(kind, lens, seed)| MsRtCase { kind, lens, seed })
}

fn run_ms_rt(c: &MsRtCase) -> CaseResult {
    let mut r = SplitMix(c.seed);
    let mut name = |len: u8| {
        let mut s = String::from("/");
        for _ in 1..len.max(1) {
            s.push(match r.below(40) {
                0 => '/',
                1 => '.',
                2 => '-',
                3..=12 => (b'0' + r.below(10) as u8) as char,
                _ => (b'a' + r.below(26) as u8) as char,
            });
        }
        s
    };
    let names: Vec<String> = c.lens.iter().map(|l| name(*l)).collect();
    let proto = |s: &String| ms::Protocol::try_from(s.as_bytes()).map_err(|e| CaseFail::new("C19/harness-name-rejected", format!("{s}: {e:?}")));
    let m = match c.kind {
        0 => ms::Message::Header(ms::HeaderLine::V1),
        1 => ms::Message::Protocol(proto(&names[0])?),
        2 => ms::Message::ListProtocols,
        3 => ms::Message::NotAvailable,
        _ => ms::Message::Protocols(names.iter().map(&proto).collect::<Result<Vec<_>, _>>()?),
    };
    let mut b = BytesMut::new();
    m.encode(&mut b).map_err(|e| CaseFail::new("C19/own-encoder-failed", format!("{m:?}: {e:?}")))?;
    let decoded = ms::Message::decode(b.clone().freeze());
    ensure!(
        decoded.as_ref().ok() == Some(&m),
        "C19/multistream-message-roundtrip-differs",
        "encoded {:?} (name lengths {:?}); {} bytes starting {:?}; decoded {:?}",
        m,
        c.lens,
        b.len(),
        &b[..b.len().min(8)],
        decoded
    );
    Ok(CaseOk::nontrivial()
        .class(match c.kind { 0 => "header", 1 => "protocol", 2 => "ls", 3 => "na", _ => "ls-response" })
        .class_if(c.kind >= 4 && c.lens[0] == 46, "ls-response-whose-first-length-prefix-is-a-slash"))
}

fn rt_strategy() -> impl Strategy<Value = RtCase> {
    (prop::sample::select(TARGETS.to_vec()), any::<u64>()).prop_map(|(target, seed)| RtCase { target, seed })
}

fn addr_set(p: &KademliaPeer) -> Vec<Vec<u8>> {
    let mut v: Vec<Vec<u8>> = p.verif_parts().3.iter().map(|a| a.to_vec()).collect();
    v.sort();
    v
}

fn same_peers(a: &[KademliaPeer], b: &[KademliaPeer]) -> bool {
    a.len() == b.len() && a.iter().zip(b.iter()).all(|(x, y)| x.verif_parts().0 == y.verif_parts().0 && addr_set(x) == addr_set(y))
}

fn run_rt(c: &RtCase) -> CaseResult {
    let enc = valid_encoding(c.target, c.seed);
    // the unmutated encoding must be accepted
    let depth = feed(c.target, &enc)?;
    let must_accept = !matches!(c.target, Target::MsListenerMsg | Target::MsDialerMsg | Target::BitswapPrefix);
    if must_accept {
        ensure!(depth >= 1, "C19/own-encoding-rejected", "{:?} seed {}: {:?}", c.target, c.seed, &enc[..enc.len().min(40)]);
    }
    // truncation at every offset
    for cut in 0..enc.len() {
        let (r, growth) = measure(|| feed(c.target, &enc[..cut]));
        r?;
        ensure!(growth <= 64 * cut + (1 << 20), "C19/decoder-over-allocates", "{:?} truncated at {cut}: {growth} bytes", c.target);
    }
    // value-level round trip for Kademlia (the encoders take values, so rebuild them from the same seed)
    if c.target == Target::KadMessage {
        let mut r = SplitMix(c.seed);
        let kind = r.below(9);
        let decoded = KademliaMessage::from_bytes(BytesMut::from(&enc[..]), 20);
        let Some(decoded) = decoded else {
            fail!("C19/own-encoding-rejected", "kademlia kind {kind}");
        };
        match (kind, decoded) {
            (0, KademliaMessage::FindNode { target, peers }) => {
                ensure!(target == fill_bytes(r.next(), 1 + r.below(40) as usize) && peers.is_empty(), "C19/kademlia-roundtrip-differs", "find_node");
            }
            (1, KademliaMessage::PutValue { record }) => {
                let e = record_from(&mut r);
                ensure!(record.key == e.key && record.value == e.value && record.publisher == e.publisher, "C19/kademlia-roundtrip-differs", "put_value");
                match (record.expires, e.expires) {
                    (None, None) => {}
                    (Some(a), Some(b)) => {
                        let d = if a > b { a - b } else { b - a };
                        ensure!(d < Duration::from_secs(3), "C19/kademlia-roundtrip-expiry-differs", "{d:?}");
                    }
                    _ => fail!("C19/kademlia-roundtrip-differs", "expiry presence"),
                }
            }
            (2, KademliaMessage::GetRecord { key, record, peers }) => {
                ensure!(key == Some(RecordKey::from(fill_bytes(r.next(), 1 + r.below(40) as usize))) && record.is_none() && peers.is_empty(), "C19/kademlia-roundtrip-differs", "get_record");
            }
            (3, KademliaMessage::FindNode { target, peers }) => {
                let k = fill_bytes(r.next(), 8);
                let mut e: Vec<KademliaPeer> = (0..count(&mut r, 5)).map(|_| kad_peer_from(&mut r)).collect();
                e.truncate(20);
                ensure!(target == k && same_peers(&peers, &e), "C19/kademlia-roundtrip-differs", "find_node_response: {} vs {} peers", peers.len(), e.len());
            }
            (4, KademliaMessage::PutValue { record }) => {
                let k = RecordKey::from(fill_bytes(r.next(), 8));
                let v = fill_bytes(r.next(), r.below(50) as usize);
                ensure!(record.key == k && record.value == v, "C19/kademlia-roundtrip-differs", "put_value_response");
            }
            (5, KademliaMessage::GetRecord { key, record, peers }) => {
                let rec = if r.below(2) == 0 { Some(record_from(&mut r)) } else { None };
                let k = RecordKey::from(fill_bytes(r.next(), 8));
                let mut e: Vec<KademliaPeer> = (0..count(&mut r, 4)).map(|_| kad_peer_from(&mut r)).collect();
                e.truncate(20);
                ensure!(key == Some(k) && same_peers(&peers, &e), "C19/kademlia-roundtrip-differs", "get_value_response");
                ensure!(record.as_ref().map(|x| (&x.key, &x.value, &x.publisher)) == rec.as_ref().map(|x| (&x.key, &x.value, &x.publisher)), "C19/kademlia-roundtrip-differs", "get_value_response record");
            }
            (6, KademliaMessage::AddProvider { key, providers }) => {
                let p = peer_from_seed(r.below(40));
                let addrs: Vec<Multiaddr> = (0..r.below(3)).map(|_| addr_from(&mut r, Some(p))).collect();
                let k = RecordKey::from(fill_bytes(r.next(), 8));
                ensure!(key == k && providers.len() == 1 && providers[0].verif_parts().0 == p, "C19/kademlia-roundtrip-differs", "add_provider");
                let mut want: Vec<Vec<u8>> = addrs.iter().map(|a| a.to_vec()).collect();
                want.sort();
                want.dedup();
                ensure!(addr_set(&providers[0]) == want, "C19/kademlia-roundtrip-differs", "add_provider addresses");
            }
            (7, KademliaMessage::GetProviders { key, peers, providers }) => {
                ensure!(key == Some(RecordKey::from(fill_bytes(r.next(), 8))) && peers.is_empty() && providers.is_empty(), "C19/kademlia-roundtrip-differs", "get_providers_request");
            }
            (8, KademliaMessage::GetProviders { key, peers, providers }) => {
                let mut provs: Vec<PeerId> = (0..count(&mut r, 3))
                    .map(|_| {
                        let p = peer_from_seed(r.below(40));
                        let _: Vec<Multiaddr> = (0..r.below(3)).map(|_| addr_from(&mut r, Some(p))).collect();
                        p
                    })
                    .collect();
                let mut closer: Vec<KademliaPeer> = (0..count(&mut r, 4)).map(|_| kad_peer_from(&mut r)).collect();
                closer.truncate(20);
                provs.truncate(20);
                ensure!(key.is_none() && same_peers(&peers, &closer), "C19/kademlia-roundtrip-differs", "get_providers_response peers");
                ensure!(providers.iter().map(|p| p.verif_parts().0).collect::<Vec<_>>() == provs, "C19/kademlia-roundtrip-differs", "get_providers_response providers");
            }
            (k, other) => fail!("C19/kademlia-roundtrip-wrong-kind", "kind {k} decoded as {other}"),
        }
    }
    if c.target == Target::PublicKey {
        let kp = crate::common::keypair_from_seed(SplitMix(c.seed).below(1000));
        let litep2p::crypto::RemotePublicKey::Ed25519(pk) = litep2p::crypto::RemotePublicKey::from_protobuf_encoding(&enc).map_err(|e| CaseFail::new("C19/own-encoding-rejected", format!("{e:?}")))?;
        ensure!(pk.to_bytes() == kp.public().to_bytes(), "C19/public-key-roundtrip-differs", "");
    }
    Ok(CaseOk::nontrivial().class("roundtrip-and-every-truncation"))
}

// ---------------------------------------------------------------------------------------------
// stream-level: negotiation futures and the handshake fed hostile bytes by the peer

#[derive(Debug, Clone, Serialize, Deserialize)]
pub struct StreamCase {
    /// 0 listener_select_proto, 1 dialer_select_proto, 2 noise handshake (victim listener), 3 noise handshake (victim dialer)
    pub victim: u8,
    pub base: u64,
    pub muts: Vec<Mut>,
    pub noise: Option<Vec<u8>>,
}

fn stream_strategy() -> impl Strategy<Value = StreamCase> {
    (0u8..4, any::<u64>(), prop::collection::vec(mut_strategy(), 0..4), prop::option::weighted(0.15, prop::collection::vec(any::<u8>(), 0..200)))
        .prop_map(|(victim, base, muts, noise)| StreamCase { victim, base, muts, noise })
}

fn run_stream(c: &StreamCase) -> CaseResult {
    let mut r = SplitMix(c.base);
    // what a well-behaved peer would send first
    let valid: Vec<u8> = match c.victim {
        0 => {
            let mut v = Vec::new();
            for m in [b"/multistream/1.0.0\n".to_vec(), format!("{}\n", ["/a", "/zz", "/proto/1"][r.below(3) as usize]).into_bytes()] {
                v.extend(uvarint(m.len() as u64));
                v.extend(m);
            }
            v
        }
        1 => {
            let mut v = Vec::new();
            for m in [b"/multistream/1.0.0\n".to_vec(), [b"na\n".to_vec(), b"/a\n".to_vec(), b"/b\n".to_vec()][r.below(3) as usize].clone()] {
                v.extend(uvarint(m.len() as u64));
                v.extend(m);
            }
            v
        }
        _ => {
            // a plausible first/second noise message: length prefix + bytes
            let len = [32usize, 48, 200, 300][r.below(4) as usize];
            let mut v = (len as u16).to_be_bytes().to_vec();
            v.extend(fill_bytes(r.next(), len));
            v
        }
    };
    let input = match &c.noise {
        Some(n) => n.clone(),
        None => apply(valid.clone(), &c.muts, &valid),
    };
    let victim = c.victim;
    let input2 = input.clone();
    let (res, growth) = measure(|| {
        block_on_paused(async move {
            let (a, mut b, _ab, _ba) = pipe(PipeCfg::default());
            let rogue = async move {
                let _ = b.write_all(&input2).await;
                let _ = b.flush().await;
                // read and discard whatever the victim says, then go away
                let mut buf = [0u8; 4096];
                for _ in 0..8 {
                    match tokio::time::timeout(Duration::from_secs(1), futures::io::AsyncReadExt::read(&mut b, &mut buf)).await {
                        Ok(Ok(n)) if n > 0 => {}
                        _ => break,
                    }
                }
                let _ = b.close().await;
            };
            let victim_fut = async move {
                match victim {
                    0 => ms::listener_select_proto(a, vec!["/a", "/proto/1"]).await.map(|_| ()).map_err(|e| format!("{e:?}")),
                    1 => ms::dialer_select_proto(a, vec!["/a", "/b"], ms::Version::V1).await.map(|_| ()).map_err(|e| format!("{e:?}")),
                    2 => litep2p::verif::noise::handshake(a, &crate::common::keypair_from_seed(1), litep2p::config::Role::Listener, 5, 2, Duration::from_secs(10), litep2p::verif::noise::HandshakeTransport::Tcp)
                        .await
                        .map(|_| ())
                        .map_err(|e| format!("{e:?}")),
                    _ => litep2p::verif::noise::handshake(a, &crate::common::keypair_from_seed(1), litep2p::config::Role::Dialer, 5, 2, Duration::from_secs(10), litep2p::verif::noise::HandshakeTransport::Tcp)
                        .await
                        .map(|_| ())
                        .map_err(|e| format!("{e:?}")),
                }
            };
            tokio::time::timeout(Duration::from_secs(3600), async { tokio::join!(victim_fut, rogue) }).await
        })
    });
    let Ok((victim_res, ())) = res else {
        fail!("C19/decoder-never-terminates", "victim {} still running after 1 h of virtual time", c.victim);
    };
    if c.victim >= 2 {
        ensure!(victim_res.is_err(), "C19/handshake-succeeded-on-garbage", "victim {}", c.victim);
    }
    // the noise socket's fixed buffers (~460 KiB) are allocated only after a successful handshake
    ensure!(growth <= 64 * input.len() + (2 << 20), "C19/decoder-over-allocates", "victim {}: {} bytes of heap for {} input bytes", c.victim, growth, input.len());
    Ok(CaseOk::nontrivial()
        .class(match c.victim {
            0 => "listener-select",
            1 => "dialer-select",
            2 => "handshake-listener",
            _ => "handshake-dialer",
        })
        .class_if(victim_res.is_ok(), "victim-ok")
        .class_if(victim_res.is_err(), "victim-err"))
}

/// Byte-level entry for libFuzzer: byte 0 selects the decoder, the rest is its literal input.
pub fn fuzz_bytes(data: &[u8]) -> Option<crate::engine::FuzzOutcome> {
    let (sel, rest) = data.split_first()?;
    let c = Case { target: TARGETS[*sel as usize % TARGETS.len()], base: 0, other: 0, muts: vec![], noise: Some(rest.to_vec()) };
    Some(crate::engine::FuzzOutcome { sub: "decoders".into(), case: serde_json::to_value(&c).ok()?, result: crate::engine::guarded(|| run_case(&c)) })
}

/// Starting corpus for libFuzzer: valid encodings of every decoder's input (built by the same generator as the campaigns).
pub fn fuzz_seed_corpus() -> Vec<Vec<u8>> {
    let mut out = Vec::new();
    for (i, t) in TARGETS.iter().enumerate() {
        for seed in 0..24u64 {
            let mut v = vec![i as u8];
            v.extend(valid_encoding(*t, seed.wrapping_mul(0x9E37_79B9_7F4A_7C15) ^ 0x51));
            if v.len() <= 2048 {
                out.push(v);
            }
        }
    }
    out
}

pub fn run(ctx: &mut Ctx) {
    ctx.rule = "(decoders) target in {multistream Message, webrtc_listener_negotiate, WebRtcDialerState::register_response, KademliaMessage::from_bytes, identify wire type + its \
        multiaddrs, bitswap message + CIDs + block_to_response, bitswap prefix, public key, peer id bytes/text, multiaddr}; input = a structured valid value encoded with the \
        library's own encoder, then 0..5 mutations (bit flip, byte set, insert, delete, truncate, varint replaced by {0,1,2^7,2^14,2^32,2^63,2^64-1,overlong,11x0xff}, splice with a \
        second encoding), or pure noise. (roundtrip) every encoder's output is decoded back (Kademlia: all 9 builders, value-level comparison) and truncated at every offset. \
        (streams) listener/dialer negotiation futures and the noise handshake (both roles) are fed mutated or random bytes by a raw peer. Non-trivial = a mutated input that \
        still parses past the outer envelope (decoders), every roundtrip / stream case; distinct by case hash."
        .into();
    ctx.assumptions = vec![
        "allocation bound: peak heap growth of the calling thread during the call <= 64 x input length + 1 MiB (2 MiB for the stream cases, which include carrier and runtime)".into(),
        "Kademlia equivalence: peer id + set of addresses; record expiry within 3 s; peers truncated to the replication factor (20)".into(),
        "substream frame-length limits are exercised in C04 (raw injection); UnsignedVarint(None) has no configured limit and is out of scope".into(),
        "identify: the wire type and the multiaddresses inside it are decoded as the protocol does; the protocol's inline filtering closure itself is only reachable through real nodes".into(),
    ];
    let t = ctx.tier;
    ctx.campaign("decoders", CampaignCfg::new(t.pick(300_000, 8_000_000)).shards(16), strategy, run_case);
    ctx.campaign("roundtrip-truncate", CampaignCfg::new(t.pick(6_000, 200_000)).shards(16), rt_strategy, run_rt);
    ctx.campaign("multistream-roundtrip", CampaignCfg::new(t.pick(20_000, 1_000_000)).shards(16), ms_rt_strategy, run_ms_rt);
    ctx.campaign("streams", CampaignCfg::new(t.pick(6_000, 200_000)).shards(16), stream_strategy, run_stream);
    ctx.campaign("raw-sockets", CampaignCfg::new(t.pick(1_200, 25_000)).shards(16).shrink_iters(8), super::c19_raw::strategy, super::c19_raw::run_case);
    ctx.campaign("rogue-peer", CampaignCfg::new(t.pick(1_600, 40_000)).shards(16).shrink_iters(8), super::c19_rogue::strategy, super::c19_rogue::run_case);
}
