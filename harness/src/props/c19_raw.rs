//! C19 at the very first bytes of a connection: raw TCP sockets talk to a real node's listener. What they send is built
//! from the valid opening of a connection (multistream header, `/noise` proposal, a length-prefixed Noise handshake
//! message, `/yamux/1.0.0`) damaged by the mutation operators, cut at any point, stalled, or replaced by noise and
//! extreme length prefixes. The node must not panic and must keep accepting honest connections.

use super::c19::{apply, mut_strategy, Mut};
use crate::common::uvarint;
use crate::engine::{CaseFail, CaseOk, CaseResult};
use crate::f4::{
    full_address, rr_request, wait_until, Cmd, Log, Node, NodeSetup, Obs, ObsKind, RrSetup,
};
use crate::{ensure, fail};
use litep2p::PeerId;
use proptest::prelude::*;
use serde::{Deserialize, Serialize};
use std::io::Write;
use std::net::TcpStream;
use std::sync::Arc;
use std::time::Duration;

#[derive(Debug, Clone, Serialize, Deserialize)]
pub enum Piece {
    /// "/multistream/1.0.0\n" as a length-prefixed line
    Header,
    /// a length-prefixed protocol line: 0 "/noise", 1 "/yamux/1.0.0", 2 "na", 3 "ls", 4 an unknown name, 5 a 70 000 byte name
    Line(u8),
    /// a Noise handshake message: u16 big-endian length + that many bytes (0 = 32 random bytes as in message 1)
    NoiseMsg {
        len: u16,
        declared: Option<u16>,
    },
    Noise(Vec<u8>),
    /// a varint length prefix of this kind (see the special varints) and nothing behind it
    Prefix(u8),
}

#[derive(Debug, Clone, Serialize, Deserialize)]
pub enum Op {
    /// open raw socket `k` (no-op when open)
    Open {
        k: u8,
    },
    /// write these pieces (concatenated, then damaged by `muts`, then cut to `keep` per mille) on socket `k`
    Send {
        k: u8,
        pieces: Vec<Piece>,
        muts: Vec<Mut>,
        keep: u16,
        seed: u64,
    },
    Close {
        k: u8,
    },
    Sleep {
        ms: u8,
    },
    /// an honest node connects meanwhile and must succeed
    HonestConnect,
}

#[derive(Debug, Clone, Serialize, Deserialize)]
pub struct Case {
    pub seed: u64,
    pub max_in: Option<u8>,
    pub ops: Vec<Op>,
}

pub fn strategy() -> impl Strategy<Value = Case> {
    let piece = prop_oneof![
        4 => Just(Piece::Header),
        5 => (0u8..6).prop_map(Piece::Line),
        3 => (prop_oneof![Just(0u16), Just(32), Just(48), Just(1000), Just(65535)], prop::option::weighted(0.3, prop_oneof![Just(0u16), Just(1), Just(65535)])).prop_map(|(len, declared)| Piece::NoiseMsg { len, declared }),
        2 => prop::collection::vec(any::<u8>(), 0..40).prop_map(Piece::Noise),
        2 => (0u8..9).prop_map(Piece::Prefix),
    ];
    let op = prop_oneof![
        4 => (0u8..4).prop_map(|k| Op::Open { k }),
        8 => (0u8..4, prop::collection::vec(piece, 1..5), prop_oneof![3 => Just(vec![]), 2 => prop::collection::vec(mut_strategy(), 1..3)], prop_oneof![3 => Just(1000u16), 1 => 0u16..1000], any::<u64>())
            .prop_map(|(k, pieces, muts, keep, seed)| Op::Send { k, pieces, muts, keep, seed }),
        2 => (0u8..4).prop_map(|k| Op::Close { k }),
        2 => prop_oneof![Just(1u8), Just(20), Just(120)].prop_map(|ms| Op::Sleep { ms }),
        1 => Just(Op::HonestConnect),
    ];
    (
        any::<u64>(),
        prop_oneof![3 => Just(None), 1 => Just(Some(2u8)), 1 => Just(Some(8u8))],
        prop::collection::vec(op, 3..16),
    )
        .prop_map(|(seed, max_in, ops)| Case { seed, max_in, ops })
}

fn line(s: &[u8]) -> Vec<u8> {
    let mut v = uvarint(s.len() as u64 + 1);
    v.extend_from_slice(s);
    v.push(b'\n');
    v
}

fn piece_bytes(p: &Piece, seed: u64) -> Vec<u8> {
    match p {
        Piece::Header => line(b"/multistream/1.0.0"),
        Piece::Line(k) => match k % 6 {
            0 => line(b"/noise"),
            1 => line(b"/yamux/1.0.0"),
            2 => line(b"na"),
            3 => line(b"ls"),
            4 => line(b"/vh/unknown/1"),
            _ => line(&vec![b'a'; 70_000]),
        },
        Piece::NoiseMsg { len, declared } => {
            let n = if *len == 0 { 32 } else { *len as usize };
            let mut v = declared.unwrap_or(n as u16).to_be_bytes().to_vec();
            v.extend(crate::engine::fill_bytes(seed, n));
            v
        }
        Piece::Noise(n) => n.clone(),
        Piece::Prefix(sel) => match sel {
            0 => uvarint(0),
            1 => uvarint(1),
            2 => uvarint(1 << 7),
            3 => uvarint(1 << 14),
            4 => uvarint(1 << 32),
            5 => uvarint(1 << 63),
            6 => uvarint(u64::MAX),
            7 => crate::common::uvarint_overlong(5),
            _ => vec![0xff; 11],
        },
    }
}

fn connected(log: &[Obs], node: usize, peer: &PeerId) -> bool {
    let e = log
        .iter()
        .filter(|o| {
            o.node == node
                && matches!(&o.kind, ObsKind::ConnEstablished { peer: p, .. } if p == peer)
        })
        .count();
    let c = log
        .iter()
        .filter(|o| {
            o.node == node && matches!(&o.kind, ObsKind::ConnClosed { peer: p } if p == peer)
        })
        .count();
    e > c
}

pub fn run_case(c: &Case) -> CaseResult {
    let log: Log = Arc::new(parking_lot::Mutex::new(Vec::new()));
    let case_id = crate::f4::new_case_id();
    let setup = |seed: u64, max_in: Option<usize>| NodeSetup {
        seed,
        keep_alive: Some(Duration::from_secs(20)),
        rr: Some(RrSetup {
            timeout: Duration::from_millis(800),
            max_size: 1024,
            max_concurrent_inbound: None,
        }),
        max_in,
        connection_open_timeout: Some(Duration::from_millis(1500)),
        substream_open_timeout: Some(Duration::from_millis(700)),
        case_id,
        ..Default::default()
    };
    let victim = Node::spawn(
        0,
        setup(c.seed % 300 + 81_000, c.max_in.map(|m| m as usize)),
        log.clone(),
    )
    .map_err(|e| CaseFail::new("C19/harness-node-start-failed", e))?;
    let pv = victim.peer;
    let addr_v = full_address(&victim);
    let port = addr_v
        .iter()
        .find_map(|p| {
            if let multiaddr::Protocol::Tcp(port) = p {
                Some(port)
            } else {
                None
            }
        })
        .ok_or_else(|| CaseFail::new("C19/harness-no-port", "listen address without a tcp port"))?;
    let mut socks: Vec<Option<TcpStream>> = (0..4).map(|_| None).collect();
    let mut honest: Vec<Node> = Vec::new();
    let mut sent_valid_opening = false;
    let mut cut = false;
    let mut honest_during = 0usize;
    for op in &c.ops {
        match op {
            Op::Open { k } => {
                let k = *k as usize % 4;
                if socks[k].is_none() {
                    if let Ok(s) = TcpStream::connect(("127.0.0.1", port)) {
                        let _ = s.set_nodelay(true);
                        let _ = s.set_write_timeout(Some(Duration::from_millis(200)));
                        socks[k] = Some(s);
                    }
                }
            }
            Op::Send {
                k,
                pieces,
                muts,
                keep,
                seed,
            } => {
                let k = *k as usize % 4;
                if socks[k].is_none() {
                    if let Ok(s) = TcpStream::connect(("127.0.0.1", port)) {
                        let _ = s.set_nodelay(true);
                        let _ = s.set_write_timeout(Some(Duration::from_millis(200)));
                        socks[k] = Some(s);
                    }
                }
                let Some(s) = socks[k].as_mut() else { continue };
                let mut bytes: Vec<u8> = Vec::new();
                for (i, p) in pieces.iter().enumerate() {
                    bytes.extend(piece_bytes(p, seed.wrapping_add(i as u64)));
                }
                if matches!(pieces.first(), Some(Piece::Header)) && muts.is_empty() {
                    sent_valid_opening = true;
                }
                let other = crate::engine::fill_bytes(*seed ^ 0x55, 64);
                let mut bytes = apply(bytes, muts, &other);
                if *keep < 1000 {
                    let n = bytes.len() * *keep as usize / 1000;
                    bytes.truncate(n);
                    cut = true;
                }
                if s.write_all(&bytes).is_err() {
                    socks[k] = None;
                }
            }
            Op::Close { k } => {
                socks[*k as usize % 4] = None;
            }
            Op::Sleep { ms } => std::thread::sleep(Duration::from_millis(*ms as u64)),
            Op::HonestConnect => {
                // only judged without an inbound limit: half-open raw sockets do not count against it, established ones would
                if c.max_in.is_some() || honest.len() >= 2 {
                    continue;
                }
                let idx = 1 + honest.len();
                let h = Node::spawn(
                    idx,
                    setup(c.seed % 300 + 82_000 + idx as u64, None),
                    log.clone(),
                )
                .map_err(|e| CaseFail::new("C19/harness-node-start-failed", e))?;
                let ph = h.peer;
                h.send(Cmd::DialAddress(addr_v.clone()));
                let up = wait_until(&log, Duration::from_millis(4000), |l| {
                    connected(l, idx, &pv) && connected(l, 0, &ph)
                });
                if !(up) {
                    if !crate::f4::control_pair_works(case_id, c.seed) {
                        return Err(CaseFail::new("C19/harness-machine-too-busy", "a control pair of fresh nodes could not connect and exchange a request either"));
                    }
                    fail!("C19/victim-stopped-serving/connect-during", "while raw sockets were talking to the node an honest node could not connect within 4 s");
                }
                honest.push(h);
                honest_during += 1;
            }
        }
    }
    std::thread::sleep(Duration::from_millis(100));
    drop(socks);
    for p in crate::f4::case_panics(case_id) {
        if p.thread.ends_with("-node0") {
            fail!(
                format!("panic@{}", p.location),
                "the node panicked while raw sockets talked to its listener: {}",
                p.message
            );
        }
    }
    // afterwards: an honest node connects (inbound limit permitting: the raw sockets are gone) and gets a request answered
    let idx = 3;
    let h = Node::spawn(idx, setup(c.seed % 300 + 83_000, None), log.clone())
        .map_err(|e| CaseFail::new("C19/harness-node-start-failed", e))?;
    let ph = h.peer;
    let room = c.max_in.map(|m| honest.len() < m as usize).unwrap_or(true);
    if room {
        let mut up = false;
        for _ in 0..3 {
            h.send(Cmd::DialAddress(addr_v.clone()));
            if wait_until(&log, Duration::from_millis(2500), |l| {
                connected(l, idx, &pv) && connected(l, 0, &ph)
            }) {
                up = true;
                break;
            }
        }
        if !up {
            if !crate::f4::control_pair_works(case_id, c.seed) {
                return Err(CaseFail::new(
                    "C19/harness-machine-too-busy",
                    "a control pair of fresh nodes could not connect and exchange a request either",
                ));
            }
            fail!("C19/victim-stopped-serving/connect", "after the raw sockets were closed an honest node cannot connect to the node (3 attempts, 7.5 s; inbound limit {:?}, {} honest connections open)", c.max_in, honest.len());
        }
        h.send(Cmd::RrSend {
            peer: pv,
            payload: rr_request(5, 0, 0, 8, 20),
            dial: false,
        });
        let answered = wait_until(&log, Duration::from_millis(4000), |l| {
            l.iter()
                .any(|o| o.node == idx && matches!(&o.kind, ObsKind::RrResponse { .. }))
        });
        if !(answered) {
            if !crate::f4::control_pair_works(case_id, c.seed) {
                return Err(CaseFail::new(
                    "C19/harness-machine-too-busy",
                    "a control pair of fresh nodes could not connect and exchange a request either",
                ));
            }
            fail!("C19/victim-stopped-serving/request", "after the raw sockets were closed the node does not answer an honest node's request within 4 s");
        }
    }
    for p in crate::f4::case_panics(case_id) {
        if p.thread.ends_with("-node0") {
            fail!(
                format!("panic@{}", p.location),
                "the node panicked: {}",
                p.message
            );
        }
    }
    Ok(CaseOk::trivial()
        .nt(sent_valid_opening || cut)
        .class_if(sent_valid_opening, "valid-opening-then-damage")
        .class_if(cut, "message-cut-and-stalled")
        .class_if(honest_during > 0, "honest-connection-during-the-attack")
        .class_if(c.max_in.is_some(), "inbound-limit-configured"))
}
