//! C16 — every Kademlia operation terminates with exactly one terminal event.
//!
//! A querying node Q (real `Litep2p` node with Kademlia) and 2..6 remote "slots", each of a generated
//! kind: healthy Kademlia node, node that is killed at a generated moment, peer whose only address
//! refuses connections, peer with no address the transports can use, node that accepts Kademlia
//! substreams and never answers, node that does not run Kademlia. Healthy helpers know every slot, so Q
//! also learns the faulty ones from FIND_NODE answers. Q runs 1..5 operations (node lookup, put to the
//! closest peers, put to given peers, get, provider announcement, provider lookup) with generated gaps,
//! optionally with its outbound connection limit already full, optionally cutting a connection midway.
//!
//! Oracle over Q's history: every started query id gets exactly one terminal event, of the kind that
//! belongs to the operation (or QueryFailed), within the deadline; no terminal event for an id that was
//! never started; partial get results only before the terminal event; and a successful put-to-peers /
//! put / announcement was observably received by enough targets (targets that can never be reached do
//! not count; mute and killed ones may have absorbed the data unseen).

use crate::common::peer_from_seed;
use crate::engine::{CampaignCfg, CaseFail, CaseOk, CaseResult, Ctx};
use crate::f4::{case_panics, full_address, hex, new_case_id, wait_until, Cmd, KadCmd, KadSetup, Log, Node, NodeSetup, Obs, ObsKind, ProbeCmd, RawReply};
use crate::{ensure, fail};
use litep2p::PeerId;
use multiaddr::{Multiaddr, Protocol};
use proptest::prelude::*;
use serde::{Deserialize, Serialize};
use std::collections::HashSet;
use std::sync::Arc;
use std::time::{Duration, Instant};

pub const KAD_PROTOCOL: &str = "/ipfs/kad/1.0.0";

#[derive(Debug, Clone, Copy, PartialEq, Eq, Serialize, Deserialize)]
pub enum Kind {
    Healthy,
    /// healthy until it is killed `kill_at_ms` after the first operation
    Killed,
    /// an address nobody listens on (connection refused)
    Undialable,
    /// a TCP socket that takes the connection and never says anything: the dial fails only when the connection-open
    /// timeout (1.5 s) runs out, long after the healthy targets were served
    BlackHole,
    /// only an address of a transport Q does not run
    NoUsableAddress,
    /// accepts connections and Kademlia substreams, never answers
    Mute,
    /// a node without the Kademlia protocol
    NoKad,
    /// accepts Kademlia substreams and answers each with something other than the expected reply (mode from the case seed:
    /// closes without reading, reads then closes, garbage in a valid frame, a reply of some other kind, a frame length
    /// beyond the limit, half a frame and then silence, a reply followed by more bytes)
    Rogue,
}

#[derive(Debug, Clone, Serialize, Deserialize)]
pub enum QOp {
    /// target: slot index, or a random peer if out of range
    FindNode { target: u8 },
    Put { key: u8, quorum: u8 },
    PutTo {
        key: u8,
        targets: u8,
        quorum: u8,
        /// the first target is listed this many more times (the API takes a list, nothing forbids naming a peer twice)
        #[serde(default)]
        dup: u8,
    },
    Get { key: u8, quorum: u8 },
    Provide { key: u8, quorum: u8 },
    GetProviders { key: u8 },
    /// Q force-closes its connection to a slot
    Cut { slot: u8 },
    Sleep { ms: u16 },
}

#[derive(Debug, Clone, Serialize, Deserialize)]
pub struct Case {
    pub replication: u8,
    pub slots: Vec<Kind>,
    /// bit i: Q is told about slot i before the operations
    pub known: u8,
    /// bit i: Q is connected to (healthy/killed/mute/nokad) slot i before the operations
    pub preconnect: u8,
    /// Q's outbound limit equals the number of pre-connected slots (so the limit is full from the start)
    pub limit_full: bool,
    /// bit (4*key + i): helper slot i (< 4) holds a record for key
    pub stored: u16,
    pub ops: Vec<QOp>,
    pub kill_at_ms: u16,
    /// the querying node's probe protocol opens (and both ends hold) a substream on every connection to a real slot as soon
    /// as it exists: another protocol keeps those connections alive for good
    #[serde(default)]
    pub hold: bool,
    pub seed: u64,
}

fn kind_strategy() -> impl Strategy<Value = Kind> {
    prop_oneof![
        6 => Just(Kind::Healthy),
        2 => Just(Kind::Killed),
        2 => Just(Kind::Undialable),
        1 => Just(Kind::BlackHole),
        2 => Just(Kind::NoUsableAddress),
        1 => Just(Kind::Mute),
        1 => Just(Kind::NoKad),
        3 => Just(Kind::Rogue),
    ]
}

fn quorum_strategy() -> impl Strategy<Value = u8> {
    prop_oneof![3 => Just(0u8), 2 => 1u8..4, 1 => Just(6u8), 2 => Just(255u8)]
}

fn op_strategy() -> impl Strategy<Value = QOp> {
    prop_oneof![
        3 => (0u8..8).prop_map(|target| QOp::FindNode { target }),
        3 => (0u8..3, quorum_strategy()).prop_map(|(key, quorum)| QOp::Put { key, quorum }),
        4 => (0u8..3, 1u8..64, quorum_strategy(), prop_oneof![3 => Just(0u8), 1 => Just(1u8), 1 => Just(2u8)]).prop_map(|(key, targets, quorum, dup)| QOp::PutTo { key, targets, quorum, dup }),
        3 => (0u8..3, quorum_strategy()).prop_map(|(key, quorum)| QOp::Get { key, quorum }),
        3 => (0u8..3, quorum_strategy()).prop_map(|(key, quorum)| QOp::Provide { key, quorum }),
        2 => (0u8..3).prop_map(|key| QOp::GetProviders { key }),
        1 => (0u8..6).prop_map(|slot| QOp::Cut { slot }),
        2 => prop_oneof![Just(0u16), Just(5), Just(50), Just(400)].prop_map(|ms| QOp::Sleep { ms }),
    ]
}

fn strategy() -> impl Strategy<Value = Case> {
    (
        prop_oneof![Just(2u8), Just(3), Just(20)],
        prop::collection::vec(kind_strategy(), 2..7),
        any::<u8>(),
        any::<u8>(),
        prop::bool::weighted(0.25),
        any::<u16>(),
        prop::collection::vec(op_strategy(), 1..6),
        prop_oneof![Just(0u16), Just(3), Just(30), Just(300), Just(1200)],
        (prop::bool::weighted(0.3), any::<u64>()),
    )
        .prop_map(|(replication, slots, known, preconnect, limit_full, stored, ops, kill_at_ms, (hold, seed))| Case {
            replication,
            slots,
            known: known | 1,
            preconnect,
            limit_full,
            stored,
            ops,
            kill_at_ms,
            hold,
            seed,
        })
}

/// `put_record_to_peers` whose list names a healthy target two or three times next to targets that fail late (a socket that
/// takes the connection and stays silent) or at once: the quorum has to be met by distinct peers.
fn repeated_targets_strategy() -> impl Strategy<Value = Case> {
    (
        prop::collection::vec(prop_oneof![3 => Just(Kind::BlackHole), 1 => Just(Kind::Undialable), 1 => Just(Kind::NoKad), 1 => Just(Kind::Healthy)], 1..3),
        any::<u8>(),
        1u8..3,
        prop_oneof![Just(2u8), Just(3u8), Just(255u8)],
        prop::collection::vec((0u8..3, 1u8..16, quorum_strategy(), 0u8..3).prop_map(|(key, targets, quorum, dup)| QOp::PutTo { key, targets, quorum, dup }), 0..2),
        any::<u64>(),
    )
        .prop_map(|(others, preconnect, dup, quorum, more, seed)| {
            let mut slots = vec![Kind::Healthy];
            slots.extend(others);
            let all = (1u8 << slots.len()) - 1;
            let mut ops = vec![QOp::PutTo { key: 0, targets: all, quorum, dup }];
            ops.extend(more);
            Case { replication: 20, slots, known: 0xff, preconnect: preconnect | 1, limit_full: false, stored: 0, ops, kill_at_ms: 0, hold: false, seed }
        })
}

/// Put / announce operations whose targets include peers that cannot be dialed at all (no usable address, refused
/// connection, outbound limit full).
fn unreachable_targets_strategy() -> impl Strategy<Value = Case> {
    (
        prop_oneof![Just(2u8), Just(3), Just(20)],
        prop::collection::vec(prop_oneof![2 => Just(Kind::Healthy), 2 => Just(Kind::NoUsableAddress), 1 => Just(Kind::Undialable), 1 => Just(Kind::NoKad)], 2..6),
        any::<u8>(),
        any::<u8>(),
        prop::bool::weighted(0.4),
        prop::collection::vec(
            prop_oneof![
                3 => (0u8..3, 1u8..64, quorum_strategy(), prop_oneof![3 => Just(0u8), 1 => Just(1u8), 1 => Just(2u8)]).prop_map(|(key, targets, quorum, dup)| QOp::PutTo { key, targets, quorum, dup }),
                2 => (0u8..3, quorum_strategy()).prop_map(|(key, quorum)| QOp::Put { key, quorum }),
                2 => (0u8..3, quorum_strategy()).prop_map(|(key, quorum)| QOp::Provide { key, quorum }),
                1 => (0u8..8).prop_map(|target| QOp::FindNode { target }),
            ],
            1..4,
        ),
        any::<u64>(),
    )
        .prop_map(|(replication, slots, known, preconnect, limit_full, ops, seed)| Case {
            replication,
            slots,
            known: known | 3,
            preconnect,
            limit_full,
            stored: 0,
            ops,
            kill_at_ms: 0,
            hold: seed % 3 == 0,
            seed,
        })
}

/// Several targets that die within a few milliseconds of the operation: connections that are being established, have just
/// been established, or have a substream in negotiation when the peer disappears.
fn killed_while_connecting_strategy() -> impl Strategy<Value = Case> {
    (
        prop_oneof![Just(3u8), Just(20)],
        prop::collection::vec(prop_oneof![4 => Just(Kind::Killed), 1 => Just(Kind::Healthy)], 2..7),
        any::<u8>(),
        prop::collection::vec(
            prop_oneof![
                3 => (0u8..3, 1u8..64, quorum_strategy(), prop_oneof![3 => Just(0u8), 1 => Just(1u8), 1 => Just(2u8)]).prop_map(|(key, targets, quorum, dup)| QOp::PutTo { key, targets, quorum, dup }),
                2 => (0u8..3, quorum_strategy()).prop_map(|(key, quorum)| QOp::Put { key, quorum }),
                2 => (0u8..3, quorum_strategy()).prop_map(|(key, quorum)| QOp::Provide { key, quorum }),
                2 => (0u8..8).prop_map(|target| QOp::FindNode { target }),
                1 => (0u8..3, quorum_strategy()).prop_map(|(key, quorum)| QOp::Get { key, quorum }),
                1 => prop_oneof![Just(0u16), Just(1), Just(2)].prop_map(|ms| QOp::Sleep { ms }),
            ],
            1..5,
        ),
        0u16..7,
        any::<u64>(),
    )
        .prop_map(|(replication, slots, preconnect, ops, kill_at_ms, seed)| Case {
            replication,
            slots,
            known: 0xff,
            preconnect,
            limit_full: false,
            stored: (seed >> 20) as u16,
            ops,
            kill_at_ms,
            hold: false,
            seed,
        })
}

/// Operations among helpers most of which answer Kademlia substreams with something other than the expected reply.
fn rogue_answers_strategy() -> impl Strategy<Value = Case> {
    (
        prop_oneof![Just(2u8), Just(3), Just(20)],
        prop::collection::vec(prop_oneof![4 => Just(Kind::Rogue), 2 => Just(Kind::Healthy), 1 => Just(Kind::Mute)], 1..6),
        any::<u8>(),
        any::<u8>(),
        prop::collection::vec(op_strategy(), 1..5),
        any::<u64>(),
    )
        .prop_map(|(replication, slots, known, preconnect, ops, seed)| Case {
            replication,
            slots,
            known: known | 1 | (seed >> 40) as u8,
            preconnect,
            limit_full: false,
            stored: (seed >> 20) as u16,
            ops,
            kill_at_ms: 0,
            hold: seed >> 50 & 3 == 0,
            seed,
        })
}

pub fn rogue_mode(seed: u64, slot: usize) -> u8 {
    ((seed >> (10 + 3 * slot)) % 9) as u8
}

fn rogue_reply(seed: u64, slot: usize, asker: (PeerId, Multiaddr), own: (PeerId, Multiaddr)) -> RawReply {
    use litep2p::protocol::libp2p::kademlia::verif::{ConnectionType, KademliaMessage, KademliaPeer};
    use crate::common::uvarint;
    let framed = |body: Vec<u8>| {
        let mut v = uvarint(body.len() as u64);
        v.extend_from_slice(&body);
        v
    };
    let reply = super::c19::kad_response_encoding(seed ^ slot as u64);
    match rogue_mode(seed, slot) {
        0 => RawReply { read_first: false, chunks: vec![], hold_ms: 0 },
        1 => RawReply { read_first: true, chunks: vec![], hold_ms: 0 },
        2 => RawReply { read_first: true, chunks: vec![framed(vec![0xde, 0xad, 0xbe, 0xef, 0x01, 0xff, 0xff])], hold_ms: 50 },
        3 => RawReply { read_first: true, chunks: vec![framed(reply)], hold_ms: 50 },
        4 => RawReply { read_first: true, chunks: vec![vec![0xff, 0xff, 0xff, 0x7f], vec![0u8; 64]], hold_ms: 2500 },
        5 => RawReply { read_first: true, chunks: vec![{ let mut v = uvarint(reply.len() as u64); v.extend_from_slice(&reply[..reply.len() / 2]); v }], hold_ms: 2500 },
        6 => RawReply { read_first: true, chunks: vec![framed(reply.clone()), framed(reply), vec![0x03, 0x01]], hold_ms: 50 },
        // a well-formed FIND_NODE reply naming the asker itself, the rogue itself (twice) and a peer nobody listens as
        7 => {
            let ghost = peer_from_seed(seed ^ 0x9057 ^ slot as u64);
            let ghost_addr = Multiaddr::empty().with(Protocol::Ip4([127, 0, 0, 1].into())).with(Protocol::Tcp(1)).with(Protocol::P2p(ghost.into()));
            let peers = vec![
                KademliaPeer::new(asker.0, vec![asker.1.clone()], ConnectionType::Connected),
                KademliaPeer::new(own.0, vec![own.1.clone()], ConnectionType::Connected),
                KademliaPeer::new(own.0, vec![own.1.clone()], ConnectionType::CanConnect),
                KademliaPeer::new(ghost, vec![ghost_addr], ConnectionType::CanConnect),
            ];
            RawReply { read_first: true, chunks: vec![framed(KademliaMessage::find_node_response(key_bytes(0), peers).to_vec())], hold_ms: 50 }
        }
        // a well-formed FIND_NODE reply with 45 peers (more than any replication factor), none of them reachable
        _ => {
            let peers: Vec<KademliaPeer> = (0..45u64)
                .map(|k| {
                    let g = peer_from_seed(seed ^ 0xbeef ^ (k << 8) ^ slot as u64);
                    KademliaPeer::new(g, vec![Multiaddr::empty().with(Protocol::Ip4([127, 0, 0, 1].into())).with(Protocol::Tcp(1)).with(Protocol::P2p(g.into()))], ConnectionType::CanConnect)
                })
                .collect();
            RawReply { read_first: true, chunks: vec![framed(KademliaMessage::find_node_response(key_bytes(1), peers).to_vec())], hold_ms: 50 }
        }
    }
}

fn key_bytes(k: u8) -> Vec<u8> {
    vec![0xC1, 0x60, k, k ^ 0x5a]
}

fn value_bytes(k: u8, seed: u64) -> Vec<u8> {
    let mut v = vec![k; 6];
    v.extend_from_slice(&seed.to_le_bytes()[..4]);
    v
}

fn connected(log: &[Obs], node: usize, peer: &PeerId) -> bool {
    let e = log.iter().filter(|o| o.node == node && matches!(&o.kind, ObsKind::ConnEstablished { peer: p, .. } if p == peer)).count();
    let c = log.iter().filter(|o| o.node == node && matches!(&o.kind, ObsKind::ConnClosed { peer: p } if p == peer)).count();
    e > c
}

fn terminal_kinds_for(what: &str) -> &'static [&'static str] {
    match what {
        "find_node" => &["FindNodeSuccess", "QueryFailed"],
        "put_record" | "put_record_to_peers" => &["PutRecordSuccess", "QueryFailed"],
        "get_record" => &["GetRecordSuccess", "QueryFailed"],
        "start_providing" => &["AddProviderSuccess", "QueryFailed"],
        "get_providers" => &["GetProvidersSuccess", "QueryFailed"],
        _ => &[],
    }
}

const TERMINALS: [&str; 6] = ["FindNodeSuccess", "GetRecordSuccess", "GetProvidersSuccess", "PutRecordSuccess", "AddProviderSuccess", "QueryFailed"];

pub const SIG_UNREACHABLE: &str = "C16/put-or-announcement-never-terminates/a-target-could-not-be-dialed-at-all";

struct Started {
    what: &'static str,
    /// slots that were explicit targets (put_record_to_peers)
    targets: Vec<usize>,
    key: u8,
    quorum: u8,
}

fn run_case(c: &Case, deadline: Duration, avoid_overcommit: bool) -> CaseResult {
    let case_id = new_case_id();
    let log: Log = Arc::new(parking_lot::Mutex::new(Vec::new()));
    let n = c.slots.len();
    // ---- nodes ----
    let pre: Vec<usize> = (0..n).filter(|i| c.preconnect >> i & 1 == 1 && matches!(c.slots[*i], Kind::Healthy | Kind::Killed | Kind::Mute | Kind::NoKad | Kind::Rogue)).collect();
    let mut nodes: Vec<Option<Node>> = Vec::new();
    let q = Node::spawn(
        0,
        NodeSetup {
            seed: c.seed % 1000 + 60_000,
            keep_alive: Some(Duration::from_secs(20)),
            kad: Some(KadSetup { replication_factor: c.replication as usize }),
            max_out: if c.limit_full { Some(pre.len()) } else { None },
            probes: 1,
            case_id,
            connection_open_timeout: Some(Duration::from_millis(1500)),
            substream_open_timeout: Some(Duration::from_millis(1500)),
            ..Default::default()
        },
        log.clone(),
    )
    .map_err(|e| CaseFail::new("C16/harness-node-start-failed", e))?;
    let mut slot_peer: Vec<PeerId> = Vec::new();
    let mut slot_addr: Vec<Multiaddr> = Vec::new();
    let mut holes: Vec<std::net::TcpListener> = Vec::new();
    for (i, kind) in c.slots.iter().enumerate() {
        let seed = c.seed % 1000 + 60_010 + i as u64;
        match kind {
            Kind::Healthy | Kind::Killed | Kind::Mute | Kind::NoKad | Kind::Rogue => {
                let node = Node::spawn(
                    i + 1,
                    NodeSetup {
                        seed,
                        keep_alive: Some(Duration::from_secs(20)),
                        kad: if matches!(kind, Kind::Healthy | Kind::Killed) { Some(KadSetup { replication_factor: c.replication as usize }) } else { None },
                        probes: 1,
                        probe_names: if matches!(kind, Kind::Mute | Kind::Rogue) { vec![KAD_PROTOCOL.to_string()] } else { vec![] },
                        case_id,
                        connection_open_timeout: Some(Duration::from_millis(1500)),
                        substream_open_timeout: Some(Duration::from_millis(1500)),
                        ..Default::default()
                    },
                    log.clone(),
                )
                .map_err(|e| CaseFail::new("C16/harness-node-start-failed", e))?;
                if matches!(kind, Kind::Rogue) {
                    let _ = node.probes[0].send(ProbeCmd::SetReply(Some(rogue_reply(c.seed, i, (q.peer, full_address(&q)), (node.peer, full_address(&node))))));
                }
                slot_peer.push(node.peer);
                slot_addr.push(full_address(&node));
                nodes.push(Some(node));
            }
            Kind::Undialable => {
                let peer = peer_from_seed(seed);
                slot_peer.push(peer);
                slot_addr.push(Multiaddr::empty().with(Protocol::Ip4([127, 0, 0, 1].into())).with(Protocol::Tcp(1)).with(Protocol::P2p(peer.into())));
                nodes.push(None);
            }
            Kind::BlackHole => {
                let peer = peer_from_seed(seed);
                let l = std::net::TcpListener::bind("127.0.0.1:0").map_err(|e| CaseFail::new("C16/harness-node-start-failed", format!("{e}")))?;
                let port = l.local_addr().map_err(|e| CaseFail::new("C16/harness-node-start-failed", format!("{e}")))?.port();
                holes.push(l);
                slot_peer.push(peer);
                slot_addr.push(Multiaddr::empty().with(Protocol::Ip4([127, 0, 0, 1].into())).with(Protocol::Tcp(port)).with(Protocol::P2p(peer.into())));
                nodes.push(None);
            }
            Kind::NoUsableAddress => {
                let peer = peer_from_seed(seed);
                slot_peer.push(peer);
                slot_addr.push(
                    Multiaddr::empty().with(Protocol::Ip4([127, 0, 0, 1].into())).with(Protocol::Udp(4001)).with(Protocol::QuicV1).with(Protocol::P2p(peer.into())),
                );
                nodes.push(None);
            }
        }
    }
    // helpers know every other slot; records pre-stored
    for i in 0..n {
        if let (Some(node), Kind::Healthy | Kind::Killed) = (&nodes[i], c.slots[i]) {
            for j in 0..n {
                if j != i {
                    node.send(Cmd::Kad(KadCmd::AddKnownPeer(slot_peer[j], vec![slot_addr[j].clone()])));
                }
            }
            for k in 0..3u8 {
                if i < 4 && c.stored >> (4 * k as usize + i) & 1 == 1 {
                    node.send(Cmd::Kad(KadCmd::StoreRecord { key: key_bytes(k), value: value_bytes(k, c.seed) }));
                }
            }
        }
    }
    // Q's pre-connections (before it learns anything through Kademlia)
    for &i in &pre {
        q.send(Cmd::DialAddress(slot_addr[i].clone()));
        let p = slot_peer[i];
        if !wait_until(&log, Duration::from_secs(4), |l| connected(l, 0, &p)) {
            return Err(CaseFail::new("C16/harness-calibration-failed", "Q could not pre-connect to a healthy slot"));
        }
    }
    for i in 0..n {
        if c.known >> i & 1 == 1 {
            q.send(Cmd::Kad(KadCmd::AddKnownPeer(slot_peer[i], vec![slot_addr[i].clone()])));
        }
    }
    std::thread::sleep(Duration::from_millis(30));

    // ---- operations ----
    let t0 = Instant::now();
    let mut killed = false;
    let kill_due = Duration::from_millis(c.kill_at_ms as u64);
    let mut issued: Vec<Started> = Vec::new();
    let mut cut_done = false;
    // slots whose connection the querying node cut itself: data written to them may never have been read
    let mut cut_slots: HashSet<usize> = HashSet::new();
    // With the outbound limit full, anything that frees a slot lets several own dials race for it; the loser is dropped
    // silently by the manager (known finding of C05) and its queries would wait forever: steer away while that is open.
    let keep_limit_full = c.limit_full && avoid_overcommit;
    let mut steered = false;
    let kill_now = |nodes: &mut Vec<Option<Node>>| {
        for i in 0..n {
            if c.slots[i] == Kind::Killed && !(keep_limit_full && pre.contains(&i)) {
                if let Some(node) = nodes[i].as_mut() {
                    node.kill();
                }
            }
        }
    };
    let mut dup_targets = false;
    for op in &c.ops {
        if !killed && t0.elapsed() >= kill_due {
            kill_now(&mut nodes);
            killed = true;
        }
        match op {
            QOp::FindNode { target } => {
                let peer = if (*target as usize) < n { slot_peer[*target as usize] } else { peer_from_seed(c.seed ^ (*target as u64) << 20) };
                q.send(Cmd::Kad(KadCmd::FindNode(peer)));
                issued.push(Started { what: "find_node", targets: vec![], key: 0, quorum: 0 });
            }
            QOp::Put { key, quorum } => {
                q.send(Cmd::Kad(KadCmd::PutRecord { key: key_bytes(*key), value: value_bytes(*key, c.seed ^ 0x77), quorum: *quorum }));
                issued.push(Started { what: "put_record", targets: vec![], key: *key, quorum: *quorum });
            }
            QOp::PutTo { key, targets, quorum, dup } => {
                let t: Vec<usize> = (0..n).filter(|i| targets >> i & 1 == 1).collect();
                let mut listed: Vec<usize> = t.first().map(|f| vec![*f; *dup as usize]).unwrap_or_default();
                listed.extend(t.iter().cloned());
                dup_targets |= *dup > 0 && !t.is_empty();
                q.send(Cmd::Kad(KadCmd::PutRecordToPeers {
                    key: key_bytes(*key),
                    value: value_bytes(*key, c.seed ^ 0x99 ^ issued.len() as u64),
                    peers: listed.iter().map(|i| slot_peer[*i]).collect(),
                    quorum: *quorum,
                }));
                issued.push(Started { what: "put_record_to_peers", targets: t, key: *key, quorum: *quorum });
            }
            QOp::Get { key, quorum } => {
                q.send(Cmd::Kad(KadCmd::GetRecord { key: key_bytes(*key), quorum: *quorum }));
                issued.push(Started { what: "get_record", targets: vec![], key: *key, quorum: *quorum });
            }
            QOp::Provide { key, quorum } => {
                q.send(Cmd::Kad(KadCmd::StartProviding { key: key_bytes(*key), quorum: *quorum }));
                issued.push(Started { what: "start_providing", targets: vec![], key: *key, quorum: *quorum });
            }
            QOp::GetProviders { key } => {
                q.send(Cmd::Kad(KadCmd::GetProviders { key: key_bytes(*key) }));
                issued.push(Started { what: "get_providers", targets: vec![], key: *key, quorum: 0 });
            }
            QOp::Cut { slot } => {
                let i = *slot as usize % n;
                if keep_limit_full {
                    steered = true;
                } else {
                    let _ = q.probes[0].send(ProbeCmd::ForceClose(slot_peer[i]));
                    cut_done = true;
                    cut_slots.insert(i);
                }
            }
            QOp::Sleep { ms } => std::thread::sleep(Duration::from_millis(*ms as u64)),
        }
    }
    if !killed {
        let rest = kill_due.saturating_sub(t0.elapsed());
        std::thread::sleep(rest.min(Duration::from_millis(1300)));
        kill_now(&mut nodes);
    }
    let n_issued = issued.len();
    if c.hold {
        // for a while, hold a probe substream on every connection of the querying node to a real slot as soon as it exists
        let start = Instant::now();
        let mut held: HashSet<usize> = HashSet::new();
        while start.elapsed() < Duration::from_millis(1200) {
            for i in 0..n {
                if nodes[i].is_some() && !held.contains(&i) && connected(&log.lock(), 0, &slot_peer[i]) {
                    let _ = q.probes[0].send(ProbeCmd::Open(slot_peer[i]));
                    held.insert(i);
                }
            }
            std::thread::sleep(Duration::from_millis(5));
        }
    }
    // wait: every started query has a terminal event (or the deadline passes)
    let all_done = wait_until(&log, deadline, |l| {
        let started: Vec<usize> = l.iter().filter(|o| o.node == 0).filter_map(|o| if let ObsKind::KadStarted { query, .. } = &o.kind { Some(*query) } else { None }).collect();
        started.len() == n_issued
            && started.iter().all(|qid| l.iter().any(|o| o.node == 0 && matches!(&o.kind, ObsKind::KadEvent { query: Some(x), kind, .. } if x == qid && TERMINALS.contains(&kind.as_str()))))
    });
    // linger: late duplicates, receivers' events
    std::thread::sleep(Duration::from_millis(if all_done { 250 } else { 50 }));
    let history: Vec<Obs> = log.lock().clone();
    drop(q);
    drop(nodes);
    std::thread::sleep(Duration::from_millis(5));

    // ---- oracle ----
    let panics = case_panics(case_id);
    if let Some(p) = panics.first() {
        fail!(format!("C16/panic@{}", p.location), "{} (thread {}); case {:?}", p.message, p.thread, c);
    }
    let qlog: Vec<&Obs> = history.iter().filter(|o| o.node == 0).collect();
    let started: Vec<(usize, String, Instant)> = qlog.iter().filter_map(|o| if let ObsKind::KadStarted { query, what } = &o.kind { Some((*query, what.clone(), o.t)) } else { None }).collect();
    ensure!(started.len() == n_issued, "C16/harness-commands-not-executed", "{} of {} operations were started", started.len(), n_issued);
    let ids: HashSet<usize> = started.iter().map(|s| s.0).collect();
    ensure!(ids.len() == started.len(), "C16/query-id-reused", "{:?}", started.iter().map(|s| s.0).collect::<Vec<_>>());
    let unreachable_slot = |i: usize| matches!(c.slots[i], Kind::NoUsableAddress | Kind::Undialable | Kind::NoKad | Kind::BlackHole);
    let dial_refused_at_once = |i: usize| matches!(c.slots[i], Kind::NoUsableAddress) || (c.limit_full && !pre.contains(&i));
    let mut slowest = Duration::ZERO;
    let mut failed_queries = 0usize;
    let mut succeeded_puts = 0usize;
    for (idx, (qid, what, t_start)) in started.iter().enumerate() {
        let st = &issued[idx];
        ensure!(st.what == what, "C16/harness-order-mismatch", "{} vs {}", st.what, what);
        let events: Vec<(&str, &str, Instant)> = qlog
            .iter()
            .filter_map(|o| if let ObsKind::KadEvent { query: Some(x), kind, detail } = &o.kind { if x == qid { Some((kind.as_str(), detail.as_str(), o.t)) } else { None } } else { None })
            .collect();
        let terminals: Vec<&(&str, &str, Instant)> = events.iter().filter(|e| TERMINALS.contains(&e.0)).collect();
        if terminals.is_empty() {
            let puts = matches!(st.what, "put_record" | "put_record_to_peers" | "start_providing");
            let some_target_refused = (0..n).any(|i| dial_refused_at_once(i) && (st.targets.is_empty() || st.targets.contains(&i)));
            let sig = if puts && some_target_refused { SIG_UNREACHABLE.to_string() } else { format!("C16/query-never-terminates/{what}") };
            fail!(
                sig,
                "query {qid} ({what}, key {}, quorum {}, explicit targets {:?}) produced no terminal event within {:?}; slots {:?} known {:#b} preconnected {:?} limit_full {}; Q's events for it: {:?}",
                st.key,
                st.quorum,
                st.targets,
                deadline,
                c.slots,
                c.known,
                pre,
                c.limit_full,
                events.iter().map(|e| e.0).collect::<Vec<_>>()
            );
        }
        ensure!(
            terminals.len() == 1,
            "C16/more-than-one-terminal-event",
            "query {qid} ({what}): {:?}",
            terminals.iter().map(|e| e.0).collect::<Vec<_>>()
        );
        let term = terminals[0];
        ensure!(terminal_kinds_for(what).contains(&term.0), "C16/terminal-event-of-another-operation", "query {qid} ({what}) ended with {}", term.0);
        slowest = slowest.max(term.2.duration_since(*t_start));
        for e in &events {
            if e.0 == "GetRecordPartialResult" {
                ensure!(what == "get_record", "C16/partial-result-for-another-operation", "query {qid} ({what})");
                ensure!(e.2 <= term.2, "C16/partial-result-after-terminal-event", "query {qid}");
            }
        }
        if term.0 == "QueryFailed" {
            failed_queries += 1;
        }
        // success of a put / announcement: enough targets observably got the data
        if term.0 == "PutRecordSuccess" || term.0 == "AddProviderSuccess" {
            succeeded_puts += 1;
            let key_hex = hex(&key_bytes(st.key));
            let receivers: HashSet<usize> = (0..n)
                .filter(|i| {
                    history.iter().any(|o| {
                        o.node == i + 1
                            && match &o.kind {
                                ObsKind::KadEvent { kind, detail, .. } if term.0 == "PutRecordSuccess" => kind == "IncomingRecord" && detail.starts_with(&format!("{key_hex}|")),
                                ObsKind::KadEvent { kind, detail, .. } => kind == "IncomingProvider" && detail.starts_with(&format!("{key_hex}|")),
                                _ => false,
                            }
                    })
                })
                .collect();
            let unseen_possible: HashSet<usize> = (0..n).filter(|i| matches!(c.slots[*i], Kind::Mute | Kind::Killed | Kind::Rogue) || cut_slots.contains(i)).collect();
            let (pool, need): (HashSet<usize>, usize) = if st.what == "put_record_to_peers" {
                // Targets the node has no routing-table entry for are dropped by the command and the quorum is clamped to the
                // number of candidates (documented in PutToTargetPeersContext::new): only the targets the node was told about
                // before the operations are certain candidates.
                let t: HashSet<usize> = st.targets.iter().cloned().collect();
                let certain = st.targets.iter().filter(|i| c.known >> **i & 1 == 1).count();
                let need = match st.quorum {
                    0 => 1,
                    255 => certain.max(1),
                    k => (k as usize).min(certain.max(1)),
                };
                (t, need)
            } else {
                ((0..n).collect(), 1)
            };
            let got = pool.iter().filter(|i| receivers.contains(i) || unseen_possible.contains(i)).count();
            ensure!(
                got >= need,
                "C16/success-reported-without-the-quorum-being-sent-the-data",
                "query {qid} ({what}, quorum {}) reported {} but only {got} of the needed {need} targets can have been sent the data (receivers seen {:?}, targets {:?}, slots {:?})",
                st.quorum,
                term.0,
                receivers,
                st.targets,
                c.slots
            );
        }
    }
    // no terminal event for a query that was never started
    for o in &qlog {
        if let ObsKind::KadEvent { query: Some(x), kind, .. } = &o.kind {
            ensure!(ids.contains(x), "C16/event-for-a-query-that-was-never-started", "{kind} for query {x}");
        }
    }
    drop(holes);
    let faulty = c.slots.iter().filter(|k| !matches!(k, Kind::Healthy)).count();
    let put_to_unreachable = issued.iter().any(|s| s.what == "put_record_to_peers" && s.targets.iter().any(|i| unreachable_slot(*i)));
    let mut ok = CaseOk::trivial();
    ok.excluded = steered || (keep_limit_full && c.slots.iter().enumerate().any(|(i, k)| *k == Kind::Killed && pre.contains(&i)));
    Ok(ok
        .nt(faulty > 0 && n_issued > 0)
        .class_if(c.hold, "another-protocol-keeps-connections-alive")
        .class_if(c.slots.contains(&Kind::Killed), "slot-killed-midway")
        .class_if(c.slots.contains(&Kind::Mute), "slot-never-answers")
        .class_if(c.slots.contains(&Kind::Rogue), "slot-answers-with-something-else")
        .class_if(c.slots.contains(&Kind::Undialable), "slot-refuses-connections")
        .class_if(c.slots.contains(&Kind::BlackHole), "slot-takes-the-connection-and-stays-silent")
        .class_if(c.slots.contains(&Kind::NoUsableAddress), "slot-without-usable-address")
        .class_if(c.slots.contains(&Kind::NoKad), "slot-without-kademlia")
        .class_if(c.limit_full, "outbound-limit-full")
        .class_if(cut_done, "connection-cut-by-q")
        .class_if(put_to_unreachable, "put-to-peers-with-unreachable-target")
        .class_if(dup_targets, "put-to-peers-naming-a-target-twice")
        .class_if(failed_queries > 0, "some-query-failed")
        .class_if(succeeded_puts > 0, "some-put-or-announcement-succeeded")
        .class_if(slowest > Duration::from_secs(1), "slowest-query-over-1s")
        .class_if(slowest > Duration::from_secs(4), "slowest-query-over-4s"))
}

pub fn run(ctx: &mut Ctx) {
    ctx.rule = "a querying node and 2..6 remote slots (healthy Kademlia node / node killed 0..1200 ms in / address that refuses connections / no address of a transport the node runs / node that accepts \
        Kademlia substreams and never answers / node that answers every Kademlia substream with something other than the expected reply (closes unread, reads and closes, garbage frame, reply of some kind whatever was asked, frame length beyond the limit, half a frame then silence, reply plus trailing bytes) / node without Kademlia); helpers know all slots, the querying node is told about a generated subset, is pre-connected to a generated subset and may have its \
        outbound limit already full; 1..5 operations (find_node, put_record, put_record_to_peers with a generated target set, get_record, start_providing, get_providers; quorum One / N(1..6) / All), a \
        connection cut by the querying node, sleeps; replication factor 2/3/20. Kademlia executor timeouts shortened to 1.5 s through the verif hook (one thorough campaign keeps the real 15 s). Oracle: every \
        started query id gets exactly one terminal event of the right kind within the deadline (30 s; 90 s with real timeouts), none for ids never started, partial results only before it, and a successful \
        put-to-peers / put / announcement was observably received by enough targets. Non-trivial = at least one faulty slot and one operation; distinct by case hash."
        .into();
    ctx.assumptions = vec![
        "thread and socket schedules are sampled, not owned; bounded liveness only (30 s with 1.5 s protocol timeouts)".into(),
        "for put_record / start_providing the number of peers found by the lookup phase is not observable, so success is only required to have reached one target; for put_record_to_peers the quorum is checked exactly (clamped to the number of targets, as the code documents)".into(),
        "the outbound limit is only used completely full from the start, so that no dial of the querying node is ever over-committed (that situation is the known C05 finding)".into(),
    ];
    let t = ctx.tier;
    litep2p::verif::set_kad_executor_timeout_ms(1500);
    let d = Duration::from_secs(30);
    let avoid = ctx.avoid(crate::props::c05::SIG_G) && ctx.is_generate();
    ctx.campaign("operations", CampaignCfg::new(t.pick(400, 8_000)).shards(32).shrink_iters(6), strategy, move |c: &Case| run_case(c, d, avoid));
    ctx.campaign("unreachable-targets", CampaignCfg::new(t.pick(160, 3_000)).shards(32).shrink_iters(6), unreachable_targets_strategy, move |c: &Case| run_case(c, d, avoid));
    ctx.campaign("repeated-targets", CampaignCfg::new(t.pick(128, 2_400)).shards(32).shrink_iters(6), repeated_targets_strategy, move |c: &Case| run_case(c, d, avoid));
    ctx.campaign("rogue-answers", CampaignCfg::new(t.pick(320, 6_000)).shards(32).shrink_iters(6), rogue_answers_strategy, move |c: &Case| run_case(c, d, avoid));
    ctx.campaign("killed-while-connecting", CampaignCfg::new(t.pick(480, 10_000)).shards(32).shrink_iters(4), killed_while_connecting_strategy, move |c: &Case| run_case(c, d, avoid));
    if matches!(t, crate::engine::Tier::Thorough) {
        litep2p::verif::set_kad_executor_timeout_ms(0);
        let d = Duration::from_secs(90);
        ctx.campaign("real-timeouts", CampaignCfg::new(96).shards(32).shrink_iters(2), strategy, move |c: &Case| run_case(c, d, avoid));
        litep2p::verif::set_kad_executor_timeout_ms(1500);
    }
}

#[cfg(test)]
mod tests {
    #[test]
    fn rogue_reply_kinds() {
        let mut ok = 0;
        for s in 0..200u64 {
            let body = super::super::c19::kad_response_encoding(s);
            let m = litep2p::protocol::libp2p::kademlia::verif::KademliaMessage::from_bytes(bytes::BytesMut::from(&body[..]), 20);
            if m.is_some() {
                ok += 1;
            } else if s < 5 {
                println!("{s}: {:?}", &body[..body.len().min(24)]);
            }
        }
        println!("decodable {ok}/200");
    }
}
