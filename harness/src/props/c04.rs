//! C04 — framed substream messages round-trip exactly within configured limits.
//!
//! A real yamux connection pair runs over the scripted in-memory carrier; the yamux streams are
//! wrapped into the real `Substream` with a generated codec. The writer never touches its
//! substream again once `send`/`flush`/`send_framed` returned `Ok` — only the yamux connection
//! tasks keep running — and the reader must still receive everything.

use crate::engine::{fill_bytes, CampaignCfg, CaseFail, CaseOk, CaseResult, Ctx};
use crate::f2::{block_on_paused, chunk_script_strategy, pipe, ChunkScript, PipeCfg};
use crate::{ensure, fail};
use bytes::Bytes;
use futures::io::AsyncWriteExt;
use futures::{SinkExt, StreamExt};
use litep2p::codec::ProtocolCodec;
use litep2p::substream::Substream;
use litep2p::types::SubstreamId;
use litep2p::verif::substream::substream_from_yamux;
use litep2p::yamux;
use proptest::prelude::*;
use serde::{Deserialize, Serialize};
use std::time::Duration;

#[derive(Debug, Clone, Copy, Serialize, Deserialize, PartialEq)]
pub enum Codec {
    Identity(u32),
    Varint(Option<u32>),
}

#[derive(Debug, Clone, Copy, Serialize, Deserialize, PartialEq)]
pub enum Api {
    /// `SinkExt::send` per message
    Send,
    /// `feed` k messages then one `flush`
    FeedFlush(u8),
    SendFramed,
}

#[derive(Debug, Clone, Serialize, Deserialize)]
pub struct Case {
    pub codec: Codec,
    /// message lengths; for Identity codecs a value of u32::MAX means "exactly the frame size"
    pub msgs: Vec<u32>,
    pub api: Api,
    /// the reader waits this many (virtual) milliseconds before each read; 0 = eager
    pub reader_delay_ms: u16,
    /// reader stops for a long while after this many messages (then resumes)
    pub reader_pause_after: Option<u8>,
    pub chunks: [ChunkScript; 2],
    pub seed: u64,
}

fn codec_strategy() -> impl Strategy<Value = Codec> {
    prop_oneof![
        3 => prop_oneof![Just(1u32), Just(2), Just(10), Just(1023), Just(1024), Just(1025), Just(4096), Just(70_000)].prop_map(Codec::Identity),
        4 => prop_oneof![Just(0u32), Just(1), Just(127), Just(128), Just(16_383), Just(16_384), Just(300_000)].prop_map(|m| Codec::Varint(Some(m))),
        2 => Just(Codec::Varint(None)),
    ]
}

fn strategy() -> impl Strategy<Value = Case> {
    codec_strategy()
        .prop_flat_map(|codec| {
            let len = match codec {
                Codec::Identity(n) => prop_oneof![8 => Just(u32::MAX), 1 => Just(n.saturating_sub(1)), 1 => Just(n + 1), 1 => Just(0u32)].boxed(),
                Codec::Varint(Some(m)) => prop_oneof![
                    2 => Just(0u32), 2 => Just(1u32), 2 => Just(m), 2 => Just(m.saturating_sub(1)), 2 => Just(m + 1), 3 => 0u32..=m.max(1), 1 => (m + 1)..(m + 1000),
                ]
                .boxed(),
                Codec::Varint(None) => prop_oneof![2 => Just(0u32), 3 => 1u32..200, 3 => 200u32..70_000, 1 => 262_000u32..263_000, 1 => 270_000u32..524_288].boxed(),
            };
            (
                Just(codec),
                prop::collection::vec(len, 1..8),
                prop_oneof![3 => Just(Api::Send), 2 => (1u8..5).prop_map(Api::FeedFlush), 3 => Just(Api::SendFramed)],
                prop_oneof![4 => Just(0u16), 2 => 1u16..50],
                prop::option::weighted(0.3, 0u8..4),
                [chunk_script_strategy(), chunk_script_strategy()],
                any::<u64>(),
            )
        })
        .prop_map(|(codec, msgs, api, reader_delay_ms, reader_pause_after, chunks, seed)| Case {
            codec,
            msgs,
            api,
            reader_delay_ms,
            reader_pause_after,
            chunks,
            seed,
        })
}

fn to_codec(c: Codec) -> ProtocolCodec {
    match c {
        Codec::Identity(n) => ProtocolCodec::Identity(n as usize),
        Codec::Varint(m) => ProtocolCodec::UnsignedVarint(m.map(|m| m as usize)),
    }
}

fn allowed(c: Codec, len: usize) -> bool {
    match c {
        Codec::Identity(n) => len == n as usize,
        Codec::Varint(Some(m)) => len <= m as usize,
        Codec::Varint(None) => true,
    }
}

struct Pair {
    writer: Substream,
    reader: Substream,
    raw_writer: Option<yamux::Stream>,
    _tasks: Vec<tokio::task::JoinHandle<()>>,
    _controls: (yamux::Control, yamux::Control),
}

/// Builds a yamux pair over the scripted carrier and one stream in each role.
async fn setup(chunks: &[ChunkScript; 2], codec: ProtocolCodec, raw: bool) -> Result<Pair, CaseFail> {
    let cfg = PipeCfg {
        a_to_b: chunks[0].clone(),
        b_to_a: chunks[1].clone(),
        ..Default::default()
    };
    let (a, b, _ab, _ba) = pipe(cfg);
    let conn_a = yamux::Connection::new(a, yamux::Config::default(), yamux::Mode::Client);
    let conn_b = yamux::Connection::new(b, yamux::Config::default(), yamux::Mode::Server);
    let (mut ctl_a, mut conn_a) = yamux::Control::new(conn_a);
    let (ctl_b, mut conn_b) = yamux::Control::new(conn_b);
    let (tx, mut rx) = tokio::sync::mpsc::channel::<yamux::Stream>(4);
    let t1 = tokio::spawn(async move { while let Some(Ok(_s)) = conn_a.next().await {} });
    let t2 = tokio::spawn(async move {
        while let Some(Ok(s)) = conn_b.next().await {
            if tx.send(s).await.is_err() {
                break;
            }
        }
    });
    let mut out = ctl_a.open_stream().await.map_err(|e| CaseFail::new("C04/harness-yamux-open-failed", format!("{e:?}")))?;
    // yamux announces a stream with its first frame: send one marker byte that the reader consumes before wrapping
    out.write_all(&[0xEE]).await.map_err(|e| CaseFail::new("C04/harness-yamux-write-failed", format!("{e:?}")))?;
    out.flush().await.map_err(|e| CaseFail::new("C04/harness-yamux-write-failed", format!("{e:?}")))?;
    let mut inbound = tokio::time::timeout(Duration::from_secs(60), rx.recv())
        .await
        .ok()
        .flatten()
        .ok_or_else(|| CaseFail::new("C04/harness-yamux-no-inbound", "no inbound stream"))?;
    let mut marker = [0u8; 1];
    futures::io::AsyncReadExt::read_exact(&mut inbound, &mut marker)
        .await
        .map_err(|e| CaseFail::new("C04/harness-yamux-read-failed", format!("{e:?}")))?;
    let peer = crate::common::peer_from_seed(4);
    let reader = substream_from_yamux(peer, SubstreamId::from(1usize), inbound, codec);
    if raw {
        // the writer side stays a bare yamux stream; a dummy second stream is wrapped to satisfy the struct
        let dummy = ctl_a.open_stream().await.map_err(|e| CaseFail::new("C04/harness-yamux-open-failed", format!("{e:?}")))?;
        Ok(Pair {
            writer: substream_from_yamux(peer, SubstreamId::from(2usize), dummy, codec),
            reader,
            raw_writer: Some(out),
            _tasks: vec![t1, t2],
            _controls: (ctl_a, ctl_b),
        })
    } else {
        Ok(Pair {
            writer: substream_from_yamux(peer, SubstreamId::from(0usize), out, codec),
            reader,
            raw_writer: None,
            _tasks: vec![t1, t2],
            _controls: (ctl_a, ctl_b),
        })
    }
}

struct Outcome {
    accepted: Vec<Vec<u8>>,
    refused_legal: Option<(usize, String)>,
    accepted_illegal: Option<usize>,
    received: Vec<Vec<u8>>,
    reader_end: String,
    writer_done: bool,
}

async fn run_async(c: &Case) -> Result<Outcome, CaseFail> {
    let codec = to_codec(c.codec);
    let Pair { mut writer, mut reader, _tasks, _controls, .. } = setup(&c.chunks, codec, false).await?;
    let msgs: Vec<Vec<u8>> = c
        .msgs
        .iter()
        .enumerate()
        .map(|(i, l)| {
            let len = match (c.codec, *l) {
                (Codec::Identity(n), u32::MAX) => n as usize,
                (_, l) => l as usize,
            };
            let mut m = fill_bytes(c.seed.wrapping_add(i as u64), len);
            if let Some(b) = m.first_mut() {
                *b = i as u8;
            }
            m
        })
        .collect();
    let (done_tx, done_rx) = tokio::sync::oneshot::channel::<(Vec<Vec<u8>>, Option<(usize, String)>, Option<usize>)>();
    let api = c.api;
    let ccodec = c.codec;
    let writer_task = tokio::spawn(async move {
        let mut accepted = Vec::new();
        let mut refused_legal = None;
        let mut accepted_illegal = None;
        let mut fed: Vec<Vec<u8>> = Vec::new();
        for (i, m) in msgs.iter().enumerate() {
            let legal = allowed(ccodec, m.len());
            let res: Result<(), String> = match api {
                Api::Send => writer.send(Bytes::from(m.clone())).await.map_err(|e| format!("{e:?}")),
                Api::SendFramed => writer.send_framed(Bytes::from(m.clone())).await.map_err(|e| format!("{e:?}")),
                Api::FeedFlush(k) => {
                    let r = writer.feed(Bytes::from(m.clone())).await.map_err(|e| format!("{e:?}"));
                    if r.is_ok() {
                        fed.push(m.clone());
                        if fed.len() >= k as usize || i + 1 == msgs.len() {
                            match writer.flush().await {
                                Ok(()) => {
                                    accepted.append(&mut fed);
                                    Ok(())
                                }
                                Err(e) => Err(format!("flush: {e:?}")),
                            }
                        } else {
                            Ok(())
                        }
                    } else {
                        r
                    }
                }
            };
            match (&res, legal) {
                (Ok(()), true) => {
                    if !matches!(api, Api::FeedFlush(_)) {
                        accepted.push(m.clone());
                    }
                }
                (Ok(()), false) => {
                    accepted_illegal = Some(i);
                    break;
                }
                (Err(e), true) => {
                    refused_legal = Some((i, e.clone()));
                    break;
                }
                (Err(_), false) => {
                    // refused as it must be; a sink may be unusable afterwards only for this message: continue
                    if matches!(api, Api::FeedFlush(_)) && !fed.is_empty() {
                        if writer.flush().await.is_ok() {
                            accepted.append(&mut fed);
                        }
                    }
                }
            }
        }
        if matches!(api, Api::FeedFlush(_)) && !fed.is_empty() && refused_legal.is_none() && accepted_illegal.is_none() {
            if writer.flush().await.is_ok() {
                accepted.append(&mut fed);
            }
        }
        let _ = done_tx.send((accepted, refused_legal, accepted_illegal));
        // from here on the writer is never polled again, but stays alive
        futures::future::pending::<()>().await;
        drop(writer);
    });
    let delay = c.reader_delay_ms;
    let pause_after = c.reader_pause_after;
    let expected_max = c.msgs.len();
    let reader_fut = async move {
        let mut received: Vec<Vec<u8>> = Vec::new();
        let mut done_rx = Some(done_rx);
        let mut target: Option<usize> = None;
        let mut writer_result = None;
        let end;
        loop {
            if let Some(rx) = done_rx.as_mut() {
                if let Ok(v) = rx.try_recv() {
                    target = Some(v.0.len());
                    writer_result = Some(v);
                    done_rx = None;
                }
            }
            if let Some(t) = target {
                if received.len() >= t {
                    end = "all-received".to_string();
                    break;
                }
            }
            if delay > 0 {
                tokio::time::sleep(Duration::from_millis(delay as u64)).await;
            }
            if Some(received.len()) == pause_after.map(|p| p as usize) && received.len() < expected_max {
                tokio::time::sleep(Duration::from_secs(30)).await;
            }
            // wait for either the next message or the writer's completion notice
            let next = if let Some(rx) = done_rx.as_mut() {
                tokio::select! {
                    biased;
                    m = reader.next() => Some(m),
                    v = rx => {
                        if let Ok(v) = v {
                            target = Some(v.0.len());
                            writer_result = Some(v);
                        }
                        done_rx = None;
                        None
                    }
                }
            } else {
                match tokio::time::timeout(Duration::from_secs(600), reader.next()).await {
                    Ok(m) => Some(m),
                    Err(_) => {
                        end = "stalled".to_string();
                        break;
                    }
                }
            };
            match next {
                None => continue,
                Some(None) => {
                    end = "closed".to_string();
                    break;
                }
                Some(Some(Err(e))) => {
                    end = format!("error:{e:?}");
                    break;
                }
                Some(Some(Ok(m))) => received.push(m.to_vec()),
            }
        }
        (received, end, writer_result, reader)
    };
    let (received, end, writer_result, _reader) = match tokio::time::timeout(Duration::from_secs(7200), reader_fut).await {
        Ok(v) => v,
        Err(_) => fail!("C04/harness-reader-timeout", "reader loop did not finish"),
    };
    writer_task.abort();
    let writer_done = writer_result.is_some();
    let (accepted, refused_legal, accepted_illegal) = writer_result.unwrap_or((Vec::new(), None, None));
    Ok(Outcome {
        accepted,
        refused_legal,
        accepted_illegal,
        received,
        reader_end: end,
        writer_done,
    })
}

fn run_case(c: &Case) -> CaseResult {
    let o = block_on_paused(run_async(c))?;
    let sig_codec = match c.codec {
        Codec::Identity(n) if n > 1024 => "identity>1024",
        Codec::Identity(_) => "identity",
        Codec::Varint(_) => "varint",
    };
    if let Some(i) = o.accepted_illegal {
        fail!("C04/oversized-or-missized-message-accepted-by-sender", "message #{i} of {} bytes under {:?}", c.msgs[i], c.codec);
    }
    if let Some((i, e)) = &o.refused_legal {
        fail!("C04/legal-message-refused-by-sender", "message #{i} under {:?} via {:?}: {e}", c.codec, c.api);
    }
    // prefix at all times, equality at the end
    for (k, m) in o.received.iter().enumerate() {
        ensure!(
            o.accepted.get(k) == Some(m),
            "C04/received-sequence-differs-from-sent",
            "message #{k}: got {} bytes, expected {:?} bytes ({:?})",
            m.len(),
            o.accepted.get(k).map(|x| x.len()),
            c.codec
        );
    }
    if o.writer_done {
        ensure!(
            o.received.len() == o.accepted.len(),
            format!("C04/message-withheld-after-send-completed/{}", match c.api {
                Api::Send | Api::FeedFlush(_) => "sink",
                Api::SendFramed => "send_framed",
            }),
            "writer's {:?} returned Ok for {} messages but the reader got {} and then {} (codec {:?}, sizes {:?})",
            c.api,
            o.accepted.len(),
            o.received.len(),
            o.reader_end,
            c.codec,
            o.accepted.iter().map(|m| m.len()).collect::<Vec<_>>()
        );
    } else {
        fail!("C04/writer-never-completes", "reader ended with {} after {} messages ({sig_codec})", o.reader_end, o.received.len());
    }
    let big = o.accepted.iter().any(|m| m.len() > 262_144);
    Ok(CaseOk::trivial()
        .nt(matches!(c.codec, Codec::Identity(n) if n > 1024) || big || c.reader_pause_after.is_some() || c.msgs.iter().zip(0..).any(|(l, _)| !allowed(c.codec, if *l == u32::MAX { match c.codec { Codec::Identity(n) => n as usize, _ => 0 } } else { *l as usize })))
        .class(sig_codec)
        .class_if(big, "message-larger-than-yamux-window")
        .class_if(c.reader_pause_after.is_some(), "reader-pauses")
        .class(match c.api {
            Api::Send => "api-send",
            Api::FeedFlush(_) => "api-feed-flush",
            Api::SendFramed => "api-send_framed",
        })
        .class_if(o.accepted.len() < c.msgs.len(), "some-refused"))
}

// ---------------------------------------------------------------------------------------------
// raw injection: malformed / oversized prefixes and truncated frames from a bare yamux stream

#[derive(Debug, Clone, Serialize, Deserialize)]
pub struct RawCase {
    pub codec: Codec,
    pub bytes: RawBytes,
    pub chunks: [ChunkScript; 2],
}

#[derive(Debug, Clone, Serialize, Deserialize)]
pub enum RawBytes {
    /// varint prefix announcing `announced` bytes followed by `actual` payload bytes, then close
    Prefix { announced: u64, actual: u16, overlong: bool },
    Raw(Vec<u8>),
    /// k valid frames, then garbage
    ValidThen { valid: u8, garbage: Vec<u8> },
}


/// What an independent reading of the wire format expects the receiver to hand out for `wire` followed by end-of-stream.
/// Returns the frames and how the reference stopped: "clean" (wire used up at a frame boundary), "truncated" (the stream
/// ends inside a prefix or a body), "refused" (a length above the maximum, a prefix of ten bytes without an end, a value
/// beyond 64 bits: the receiver must report an error) or "ambiguous" (a non-minimal prefix: the statement does not say).
pub fn reference_frames(codec: Codec, wire: &[u8]) -> (Vec<Vec<u8>>, &'static str) {
    let mut frames = Vec::new();
    match codec {
        Codec::Identity(n) => {
            let n = n as usize;
            let mut rest = wire;
            while rest.len() >= n {
                frames.push(rest[..n].to_vec());
                rest = &rest[n..];
            }
            (frames, if rest.is_empty() { "clean" } else { "truncated" })
        }
        Codec::Varint(max) => {
            let mut rest = wire;
            loop {
                if rest.is_empty() {
                    return (frames, "clean");
                }
                let mut value: u64 = 0;
                let mut used = 0usize;
                let mut done = false;
                for (i, b) in rest.iter().enumerate().take(10) {
                    let low = (b & 0x7f) as u64;
                    if i == 9 && low > 1 {
                        return (frames, "refused");
                    }
                    value |= low << (7 * i);
                    used = i + 1;
                    if b & 0x80 == 0 {
                        if i > 0 && *b == 0 {
                            return (frames, "ambiguous");
                        }
                        done = true;
                        break;
                    }
                }
                if !done {
                    return (frames, if used >= 10 { "refused" } else { "truncated" });
                }
                if let Some(m) = max {
                    if value > m as u64 {
                        return (frames, "refused");
                    }
                }
                rest = &rest[used..];
                if (rest.len() as u64) < value {
                    return (frames, "truncated");
                }
                frames.push(rest[..value as usize].to_vec());
                rest = &rest[value as usize..];
            }
        }
    }
}

/// Raw wire bytes assembled from pieces a foreign peer may write: whole frames (also empty ones and ones of exactly the
/// maximum), prefixes above the maximum, non-minimal and endless prefixes, a frame cut short, loose bytes.
fn raw_pieces_strategy(codec: Codec) -> impl Strategy<Value = Vec<u8>> {
    let max = match codec {
        Codec::Identity(n) => n as u64,
        Codec::Varint(Some(m)) => m as u64,
        Codec::Varint(None) => 300,
    };
    let ident = matches!(codec, Codec::Identity(_));
    let piece = prop_oneof![
        // (whole frames of the largest maxima are left to the round-trip campaign: fed byte by byte they take minutes)
        6 => (prop_oneof![2 => Just(0u64), 2 => Just(if max <= 16_384 { max } else { 257 }), 1 => Just(max.saturating_sub(1).min(16_383)), 4 => 0u64..=max.min(300)], any::<u64>()).prop_map(move |(len, seed)| {
            let len = if ident { max } else { len.min(max) };
            let mut w = if ident { vec![] } else { crate::common::uvarint(len) };
            w.extend(fill_bytes(seed, len as usize));
            w
        }),
        1 => (1u64..1000).prop_map(move |over| crate::common::uvarint(max + over)),
        1 => (0u64..200).prop_map(crate::common::uvarint_overlong),
        1 => (1usize..12).prop_map(|n| vec![0xffu8; n]),
        1 => (1u64..=max.clamp(1, 300), any::<u64>(), 0u64..300).prop_map(move |(len, seed, cut)| {
            let mut w = if ident { vec![] } else { crate::common::uvarint(len) };
            w.extend(fill_bytes(seed, (len.saturating_sub(1 + cut % len)) as usize));
            w
        }),
        1 => prop::collection::vec(any::<u8>(), 1..6),
    ];
    prop::collection::vec(piece, 1..8).prop_map(|ps| ps.concat())
}

fn raw_strategy() -> impl Strategy<Value = RawCase> {
    let bytes = prop_oneof![
        5 => (prop_oneof![0u64..300, Just(16_384u64), Just(300_001u64), Just(u32::MAX as u64), Just(u64::MAX), any::<u64>()], 0u16..400, prop::bool::weighted(0.2))
            .prop_map(|(announced, actual, overlong)| RawBytes::Prefix { announced, actual, overlong }),
        2 => prop::collection::vec(any::<u8>(), 0..40).prop_map(RawBytes::Raw),
        2 => (0u8..4, prop::collection::vec(any::<u8>(), 0..20)).prop_map(|(valid, garbage)| RawBytes::ValidThen { valid, garbage }),
    ];
    let plain = (codec_strategy(), bytes, [chunk_script_strategy(), chunk_script_strategy()]).prop_map(|(codec, bytes, chunks)| RawCase { codec, bytes, chunks });
    let pieces = codec_strategy()
        .prop_filter("the unbounded codec has no limit to hold the receiver to", |c| !matches!(c, Codec::Varint(None) | Codec::Identity(70_000)))
        .prop_flat_map(|codec| (Just(codec), raw_pieces_strategy(codec), [chunk_script_strategy(), chunk_script_strategy()]))
        .prop_map(|(codec, raw, chunks)| RawCase { codec, bytes: RawBytes::Raw(raw), chunks });
    prop_oneof![3 => plain, 2 => pieces]
}

fn hex_head(b: &[u8]) -> String {
    let mut s: String = b.iter().take(48).map(|x| format!("{x:02x}")).collect();
    if b.len() > 48 {
        s.push_str(&format!("..({} bytes)", b.len()));
    }
    s
}

fn run_raw(c: &RawCase) -> CaseResult {
    let codec = c.codec;
    let chunks = c.chunks.clone();
    let mut bytes = c.bytes.clone();
    // UnsignedVarint(None) configures no limit at all: the receiver allocates whatever length is announced (an announced
    // length of 2^62 aborts the process in the allocator). No built-in protocol uses it and there is no configured limit to
    // hold it to, so the announced length is clamped for this codec and the case is counted as steered.
    let mut excluded = false;
    if let (Codec::Varint(None), RawBytes::Prefix { announced, actual, .. }) = (codec, &mut bytes) {
        if *announced > (1 << 20) {
            *announced = 1 << 20;
            excluded = true;
        }
        // surplus payload bytes would be read as the next (arbitrary) length prefix
        if *actual as u64 > *announced {
            *actual = *announced as u16;
            excluded = true;
        }
    }
    if let (Codec::Varint(None), RawBytes::Raw(_) | RawBytes::ValidThen { .. }) = (codec, &bytes) {
        // raw bytes may spell an arbitrary huge varint as well
        return Ok(CaseOk { excluded: true, ..CaseOk::trivial() });
    }
    let bytes_for_oracle = bytes.clone();
    let res = block_on_paused(async move {
        let Pair { writer: _w, mut reader, raw_writer, _tasks, _controls } = setup(&chunks, to_codec(codec), true).await?;
        let mut raw = raw_writer.expect("raw writer");
        let (wire, valid_frames): (Vec<u8>, Vec<Vec<u8>>) = match &bytes {
            RawBytes::Prefix { announced, actual, overlong } => {
                let mut w = if *overlong { crate::common::uvarint_overlong(*announced) } else { crate::common::uvarint(*announced) };
                w.extend(fill_bytes(*announced, *actual as usize));
                (w, vec![])
            }
            RawBytes::Raw(r) => (r.clone(), vec![]),
            RawBytes::ValidThen { valid, garbage } => {
                let mut w = Vec::new();
                let mut frames = Vec::new();
                for i in 0..*valid {
                    let len = match codec {
                        Codec::Identity(n) => n as usize,
                        Codec::Varint(Some(m)) => (m as usize).min(5 + i as usize),
                        Codec::Varint(None) => 5 + i as usize,
                    };
                    let f = fill_bytes(i as u64, len);
                    if let Codec::Varint(_) = codec {
                        w.extend(crate::common::uvarint(len as u64));
                    }
                    w.extend(&f);
                    frames.push(f);
                }
                w.extend(garbage);
                (w, frames)
            }
        };
        raw.write_all(&wire).await.map_err(|e| CaseFail::new("C04/harness-yamux-write-failed", format!("{e:?}")))?;
        raw.close().await.map_err(|e| CaseFail::new("C04/harness-yamux-write-failed", format!("{e:?}")))?;
        let mut got: Vec<Vec<u8>> = Vec::new();
        let mut end = "none";
        for _ in 0..wire.len() + 64 {
            match tokio::time::timeout(Duration::from_secs(600), reader.next()).await {
                Err(_) => {
                    end = "stalled";
                    break;
                }
                Ok(None) => {
                    end = "closed";
                    break;
                }
                Ok(Some(Err(_))) => {
                    end = "error";
                    break;
                }
                Ok(Some(Ok(m))) => got.push(m.to_vec()),
            }
        }
        Ok::<_, CaseFail>((got, end, valid_frames, wire))
    });
    let (got, end, valid_frames, wire) = res?;
    let wire_len = wire.len();
    ensure!(end != "stalled", "C04/reader-stalls-on-closed-stream", "{:?}", bytes_for_oracle);
    // every delivered frame respects the configured limit and the total never exceeds what was put on the wire
    let total: usize = got.iter().map(|m| m.len()).sum();
    ensure!(total <= wire_len, "C04/reader-invented-bytes", "{} delivered from {} wire bytes", total, wire_len);
    for m in &got {
        match codec {
            Codec::Identity(n) => ensure!(m.len() == n as usize, "C04/identity-frame-of-wrong-size-delivered", "{} vs {n}", m.len()),
            Codec::Varint(Some(max)) => ensure!(m.len() <= max as usize, "C04/oversized-frame-delivered", "{} > {max}", m.len()),
            Codec::Varint(None) => {}
        }
    }
    for (k, f) in valid_frames.iter().enumerate() {
        ensure!(got.get(k) == Some(f), "C04/valid-frame-before-garbage-lost", "frame #{k}");
    }
    if let RawBytes::Prefix { announced, actual, .. } = &bytes_for_oracle {
        if let Codec::Varint(Some(max)) = codec {
            if *announced > max as u64 {
                ensure!(got.is_empty() && end == "error", "C04/oversized-announced-length-not-refused", "announced {announced} > {max}: got {} frames, end {end}", got.len());
            }
        }
        if (*actual as u64) < *announced && matches!(codec, Codec::Varint(_)) {
            ensure!(got.is_empty(), "C04/truncated-frame-delivered", "announced {announced}, sent {actual}");
        }
    }
    // differential against an independent reading of the wire format
    let (expect, stop) = reference_frames(codec, &wire);
    if !matches!(codec, Codec::Varint(None)) {
        for (k, f) in expect.iter().enumerate() {
            ensure!(got.get(k) == Some(f), "C04/well-formed-frame-not-delivered-as-sent", "frame #{k} of {} ({} bytes) on wire {}; got {} frames, end {end}", expect.len(), f.len(), hex_head(&wire), got.len());
        }
        if stop != "ambiguous" {
            ensure!(got.len() == expect.len(), "C04/frame-delivered-that-the-wire-does-not-hold", "{} delivered, {} on the wire ({stop}): {}", got.len(), expect.len(), hex_head(&wire));
        }
        if stop == "refused" {
            ensure!(end == "error", "C04/oversized-or-malformed-length-not-refused", "end {end} on wire {}", hex_head(&wire));
        }
    }
    let mut ok = CaseOk::nontrivial();
    ok.excluded = excluded;
    Ok(ok.class("raw-injection").class(match stop {
        "clean" => "wire-clean",
        "truncated" => "wire-truncated",
        "refused" => "wire-refused",
        _ => "wire-ambiguous",
    }).class_if(expect.len() >= 2, "wire-two-or-more-frames").class(match end {
        "error" => "reader-error",
        "closed" => "reader-closed",
        _ => "reader-other",
    }))
}

// ---------------------------------------------------------------------------------------------
// valid frames arriving in pieces: a foreign peer (or a send window that runs out) may deliver a frame's length prefix and
// body in any number of separate writes, with the receiver polled in between

#[derive(Debug, Clone, Serialize, Deserialize)]
pub struct PiecesCase {
    /// maximum of the varint codec (None = unbounded)
    pub max: Option<u32>,
    /// frame lengths (classes: 0 -> 0, 1 -> 1, 2 -> 127, 3 -> 128, 4 -> 300, 5 -> 16383, 6 -> 16384, 7 -> 70000)
    pub frames: Vec<u8>,
    /// where the wire bytes are cut into separate writes: per frame, cuts inside the prefix (bit k = cut after prefix byte
    /// k) and a cut position inside the body (per mille, 0 = none)
    pub cuts: Vec<(u8, u16)>,
    /// how often the reader is polled between two pieces
    pub polls: u8,
    pub chunks: [ChunkScript; 2],
}

fn pieces_strategy() -> impl Strategy<Value = PiecesCase> {
    (
        // a bounded codec only: if the stream were mis-framed, body bytes read as a length prefix would make the unbounded
        // codec allocate whatever they spell (and abort the process instead of failing the case)
        prop_oneof![Just(Some(70_000u32)), Just(Some(300_000u32))],
        prop::collection::vec(0u8..8, 1..5),
        prop::collection::vec((0u8..8, prop_oneof![Just(0u16), 1u16..1000]), 5),
        1u8..4,
        [chunk_script_strategy(), chunk_script_strategy()],
    )
        .prop_map(|(max, frames, cuts, polls, chunks)| PiecesCase { max, frames, cuts, polls, chunks })
}

fn run_pieces(c: &PiecesCase) -> CaseResult {
    let lens = [0usize, 1, 127, 128, 300, 16_383, 16_384, 70_000];
    let codec = Codec::Varint(c.max);
    let chunks = c.chunks.clone();
    let frames: Vec<Vec<u8>> = c.frames.iter().enumerate().map(|(i, k)| fill_bytes(0x9100 + i as u64, lens[*k as usize % 8])).collect();
    // the pieces
    let mut pieces: Vec<Vec<u8>> = Vec::new();
    let mut split_prefix = false;
    for (i, f) in frames.iter().enumerate() {
        let (pcut, bcut) = c.cuts.get(i).cloned().unwrap_or((0, 0));
        let prefix = crate::common::uvarint(f.len() as u64);
        let mut cur: Vec<u8> = Vec::new();
        for (k, b) in prefix.iter().enumerate() {
            cur.push(*b);
            if pcut & (1 << k) != 0 && k + 1 < prefix.len() {
                pieces.push(std::mem::take(&mut cur));
                split_prefix = true;
            }
        }
        if pcut & 0x4 != 0 {
            // also between prefix and body
            pieces.push(std::mem::take(&mut cur));
        }
        if bcut > 0 && f.len() > 1 {
            let at = (f.len() * bcut as usize / 1000).clamp(1, f.len() - 1);
            cur.extend_from_slice(&f[..at]);
            pieces.push(std::mem::take(&mut cur));
            cur.extend_from_slice(&f[at..]);
        } else {
            cur.extend_from_slice(f);
        }
        if !cur.is_empty() {
            pieces.push(cur);
        }
    }
    let polls = c.polls;
    let expect = frames.clone();
    let res = block_on_paused(async move {
        let Pair { writer: _w, mut reader, raw_writer, _tasks, _controls } = setup(&chunks, to_codec(codec), true).await?;
        let mut raw = raw_writer.expect("raw writer");
        let mut got: Vec<Vec<u8>> = Vec::new();
        let mut failed: Option<String> = None;
        for p in &pieces {
            raw.write_all(p).await.map_err(|e| CaseFail::new("C04/harness-yamux-write-failed", format!("{e:?}")))?;
            raw.flush().await.map_err(|e| CaseFail::new("C04/harness-yamux-write-failed", format!("{e:?}")))?;
            for _ in 0..polls {
                // let the connection tasks move the bytes, then poll the reader once
                for _ in 0..8 {
                    tokio::task::yield_now().await;
                }
                match futures::poll!(reader.next()) {
                    std::task::Poll::Ready(Some(Ok(m))) => got.push(m.to_vec()),
                    std::task::Poll::Ready(Some(Err(e))) => {
                        failed = Some(format!("{e:?}"));
                        break;
                    }
                    std::task::Poll::Ready(None) => {
                        failed = Some("closed".into());
                        break;
                    }
                    std::task::Poll::Pending => {}
                }
            }
            if failed.is_some() {
                break;
            }
        }
        raw.close().await.map_err(|e| CaseFail::new("C04/harness-yamux-write-failed", format!("{e:?}")))?;
        if failed.is_none() {
            for _ in 0..64 {
                match tokio::time::timeout(Duration::from_secs(600), reader.next()).await {
                    Err(_) => {
                        failed = Some("stalled".into());
                        break;
                    }
                    Ok(None) => break,
                    Ok(Some(Err(e))) => {
                        failed = Some(format!("{e:?}"));
                        break;
                    }
                    Ok(Some(Ok(m))) => got.push(m.to_vec()),
                }
            }
        }
        Ok::<_, CaseFail>((got, failed))
    });
    let (got, failed) = res?;
    ensure!(failed.is_none(), "C04/valid-frames-in-pieces-refused", "the reader ended with {:?} after {} of {} valid frames (lengths {:?})", failed, got.len(), expect.len(), expect.iter().map(|f| f.len()).collect::<Vec<_>>());
    ensure!(got.len() == expect.len(), "C04/received-sequence-differs-from-sent", "{} frames received, {} sent in pieces (lengths {:?} vs {:?})", got.len(), expect.len(), got.iter().map(|f| f.len()).collect::<Vec<_>>(), expect.iter().map(|f| f.len()).collect::<Vec<_>>());
    for (k, (g, e)) in got.iter().zip(expect.iter()).enumerate() {
        ensure!(g == e, "C04/received-sequence-differs-from-sent", "frame #{k}: got {} bytes, sent {} bytes (or different content)", g.len(), e.len());
    }
    Ok(CaseOk::trivial().nt(split_prefix).class_if(split_prefix, "length-prefix-split-across-writes").class("frames-in-pieces"))
}

// ---------------------------------------------------------------------------------------------
// byte-level entry (libFuzzer, thorough tier): byte 0 picks the codec, byte 1 the carrier script, the rest is what a foreign
// peer writes on the stream before closing it; judged by the raw-injection oracle (differential against `reference_frames`)

const FUZZ_CODECS: [Codec; 10] = [
    Codec::Varint(Some(0)),
    Codec::Varint(Some(1)),
    Codec::Varint(Some(127)),
    Codec::Varint(Some(128)),
    Codec::Varint(Some(16_383)),
    Codec::Varint(Some(16_384)),
    Codec::Varint(Some(300_000)),
    Codec::Identity(1),
    Codec::Identity(10),
    Codec::Identity(1025),
];

fn fuzz_chunks(sel: u8) -> [ChunkScript; 2] {
    let one = |s: u8| match s % 4 {
        0 => ChunkScript::passthrough(),
        1 => ChunkScript { steps: vec![(1, false)] },
        2 => ChunkScript { steps: vec![(1, true)] },
        _ => ChunkScript { steps: vec![(3, false), (1, true), (7, false), (2, true)] },
    };
    [one(sel), one(sel >> 2)]
}

pub fn fuzz_bytes(data: &[u8]) -> Option<crate::engine::FuzzOutcome> {
    if data.len() < 2 {
        return None;
    }
    let c = RawCase { codec: FUZZ_CODECS[data[0] as usize % FUZZ_CODECS.len()], bytes: RawBytes::Raw(data[2..].to_vec()), chunks: fuzz_chunks(data[1]) };
    Some(crate::engine::FuzzOutcome { sub: "raw-injection".into(), case: serde_json::to_value(&c).ok()?, result: crate::engine::guarded(|| run_raw(&c)) })
}

pub fn fuzz_seed_corpus() -> Vec<Vec<u8>> {
    let mut out = Vec::new();
    for (i, codec) in FUZZ_CODECS.iter().enumerate() {
        for seed in 0..6u64 {
            let mut v = vec![i as u8, seed as u8];
            for k in 0..(1 + seed % 3) {
                let len = match codec {
                    Codec::Identity(n) => *n as u64,
                    Codec::Varint(Some(m)) => (*m as u64).min(3 + 40 * k + seed),
                    Codec::Varint(None) => 5,
                };
                if let Codec::Varint(_) = codec {
                    v.extend(crate::common::uvarint(len));
                }
                v.extend(fill_bytes(seed * 31 + k, len as usize));
            }
            out.push(v);
        }
    }
    out
}

pub fn run(ctx: &mut Ctx) {
    ctx.rule = "case = codec (Identity n in {1,2,10,1023,1024,1025,4096,70000}; UnsignedVarint max in {0,1,127,128,16383,16384,300000}; UnsignedVarint(None) with sizes up to \
        512 KiB) x message-size sequence biased to {0, 1, max-1, max, max+1 (must be refused), > 256 KiB yamux window} x API (SinkExt::send, feed*k + flush, send_framed) x reader \
        pattern (eager / delay per read / long pause after k messages) x carrier chunk scripts, over a real in-memory yamux pair; the writer is never polled again after its last \
        call returned. Raw injection: a bare yamux stream writes malformed / oversized / overlong varint prefixes, truncated frames, valid frames followed by garbage. \
        Non-trivial = Identity size > 1024, or a message larger than the yamux window, or a pausing reader, or a message the codec forbids, or any raw-injection case; distinct by case hash."
        .into();
    ctx.assumptions = vec![
        "yamux::Config::default() (256 KiB receive window) as in TcpConfig::default()".into(),
        "paused tokio clock; reader delays are virtual".into(),
        "allocation bound of the framing layer is checked in C19 (counting allocator)".into(),
        "UnsignedVarint(None) has no configured limit: announced lengths are clamped to 1 MiB for it (an unbounded announced length aborts the allocator; observation, not a finding of this property)".into(),
    ];
    let t = ctx.tier;
    ctx.campaign("roundtrip", CampaignCfg::new(t.pick(2_500, 480_000)).shards(16).shrink_iters(400), strategy, run_case);
    ctx.campaign("pieces", CampaignCfg::new(t.pick(3_000, 240_000)).shards(16), pieces_strategy, run_pieces);
    ctx.campaign("raw-injection", CampaignCfg::new(t.pick(4_000, 800_000)).shards(16), raw_strategy, run_raw);
}
