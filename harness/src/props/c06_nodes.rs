//! C06 with real sockets: a node with configured connection limits and up to five other nodes that dial it, get dialed
//! by it and hang up, over loopback TCP. The TCP transport's own part of admission (pending inbound sockets accepted or
//! rejected before negotiation, the rejection of an established surplus connection) is real here; the scripted-transport
//! campaigns cover the manager's logic exhaustively but play that part themselves.

use crate::engine::{CaseFail, CaseOk, CaseResult};
use crate::f4::{full_address, wait_until, Cmd, Log, Node, NodeSetup, Obs, ObsKind, ProbeCmd};
use crate::{ensure, fail};
use litep2p::PeerId;
use proptest::prelude::*;
use serde::{Deserialize, Serialize};
use std::sync::Arc;
use std::time::Duration;

const OTHERS: usize = 5;

#[derive(Debug, Clone, Serialize, Deserialize)]
pub enum Op {
    /// node `d` dials the limited node (no-op while they are connected)
    DialIn { d: u8 },
    /// the limited node dials node `d`
    DialOut { d: u8 },
    /// node `d` hangs up (its probe force-closes the connection)
    HangUp { d: u8 },
    /// the limited node hangs up on node `d`
    Drop { d: u8 },
    Sleep { ms: u8 },
    /// the limited node and node `d` dial each other at the same moment (two connections between them may result)
    DialBoth { d: u8 },
}

#[derive(Debug, Clone, Serialize, Deserialize)]
pub struct Case {
    pub seed: u64,
    pub max_in: Option<u8>,
    pub max_out: Option<u8>,
    pub ops: Vec<Op>,
}

pub fn strategy() -> impl Strategy<Value = Case> {
    let d = 0u8..OTHERS as u8;
    let op = prop_oneof![
        8 => d.clone().prop_map(|d| Op::DialIn { d }),
        4 => d.clone().prop_map(|d| Op::DialOut { d }),
        3 => d.clone().prop_map(|d| Op::HangUp { d }),
        2 => d.prop_map(|d| Op::Drop { d }),
        2 => prop_oneof![Just(0u8), Just(5), Just(40)].prop_map(|ms| Op::Sleep { ms }),
        3 => (0u8..OTHERS as u8).prop_map(|d| Op::DialBoth { d }),
    ];
    let lim = || prop_oneof![2 => Just(None), 2 => Just(Some(1u8)), 2 => Just(Some(2u8)), 1 => Just(Some(3u8)), 1 => Just(Some(0u8))];
    (any::<u64>(), lim(), lim(), prop::collection::vec(op, 4..18)).prop_map(|(seed, max_in, max_out, ops)| Case { seed, max_in, max_out, ops })
}

/// Connections the limited node (node 0) currently reports: (peer index, inbound?)
fn open_at_victim(log: &[Obs], peers: &[PeerId]) -> Vec<(usize, bool)> {
    let mut open: Vec<(usize, bool)> = Vec::new();
    for o in log.iter().filter(|o| o.node == 0) {
        match &o.kind {
            ObsKind::ConnEstablished { peer, listener } => {
                if let Some(i) = peers.iter().position(|p| p == peer) {
                    open.push((i, *listener));
                }
            }
            ObsKind::ConnClosed { peer } => {
                if let Some(i) = peers.iter().position(|p| p == peer) {
                    // the application is told when the last connection to the peer is gone
                    open.retain(|(j, _)| *j != i);
                }
            }
            _ => {}
        }
    }
    open
}

/// The application is told of every established connection but only of the closure of the last one to a peer.
fn connected(log: &[Obs], node: usize, peer: &PeerId) -> bool {
    let mut up = false;
    for o in log.iter().filter(|o| o.node == node) {
        match &o.kind {
            ObsKind::ConnEstablished { peer: p, .. } if p == peer => up = true,
            ObsKind::ConnClosed { peer: p } if p == peer => up = false,
            _ => {}
        }
    }
    up
}

pub fn run_case(c: &Case) -> CaseResult {
    let log: Log = Arc::new(parking_lot::Mutex::new(Vec::new()));
    let case_id = crate::f4::new_case_id();
    let mut nodes: Vec<Node> = Vec::new();
    for i in 0..=OTHERS {
        let setup = NodeSetup {
            seed: c.seed % 300 + 91_000 + i as u64 * 7,
            keep_alive: Some(Duration::from_secs(30)),
            probes: 1,
            max_in: if i == 0 { c.max_in.map(|m| m as usize) } else { None },
            max_out: if i == 0 { c.max_out.map(|m| m as usize) } else { None },
            connection_open_timeout: Some(Duration::from_millis(1500)),
            substream_open_timeout: Some(Duration::from_millis(1000)),
            case_id,
            ..Default::default()
        };
        nodes.push(Node::spawn(i, setup, log.clone()).map_err(|e| CaseFail::new("C06/harness-node-start-failed", e))?);
    }
    let peers: Vec<PeerId> = nodes.iter().map(|n| n.peer).collect();
    let addrs: Vec<_> = nodes.iter().map(full_address).collect();
    let pv = peers[0];
    let mut reached_limit = false;
    let mut released_after_limit = false;
    let mut refused = 0usize;
    let mut simultaneous = false;

    // invariants over the limited node's own reports
    let check = |l: &[Obs], what: &str| -> Result<(usize, usize), CaseFail> {
        let open = open_at_victim(l, &peers);
        let inb = open.iter().filter(|(_, i)| *i).count();
        let out = open.len() - inb;
        if let Some(m) = c.max_in {
            ensure!(inb <= m as usize, "C06/inbound-limit-exceeded", "{what}: the node reports {inb} established inbound connections with limit {m}");
        }
        if let Some(m) = c.max_out {
            ensure!(out <= m as usize, "C06/outbound-limit-exceeded", "{what}: the node reports {out} established outbound connections with limit {m}");
        }
        Ok((inb, out))
    };

    for (step, op) in c.ops.iter().enumerate() {
        let what = format!("step {step} {op:?}");
        match op {
            Op::DialIn { d } => {
                let d = 1 + *d as usize % OTHERS;
                if connected(&log.lock(), d, &pv) || connected(&log.lock(), 0, &peers[d]) {
                    continue;
                }
                let (inb, _) = check(&log.lock(), &what)?;
                let room = c.max_in.map(|m| inb < m as usize).unwrap_or(true);
                let before: Vec<(usize, bool)> = open_at_victim(&log.lock(), &peers);
                nodes[d].send(Cmd::DialAddress(addrs[0].clone()));
                if room {
                    let mut ok = wait_until(&log, Duration::from_millis(2500), |l| connected(l, d, &pv) && connected(l, 0, &peers[d]));
                    if !ok {
                        // one retry: a single dial between healthy nodes fails now and then on a busy machine
                        nodes[d].send(Cmd::DialAddress(addrs[0].clone()));
                        ok = wait_until(&log, Duration::from_millis(2500), |l| connected(l, d, &pv) && connected(l, 0, &peers[d]));
                    }
                    if !ok {
                        if !crate::f4::control_pair_works(case_id, c.seed) {
                            return Err(CaseFail::new("C06/harness-machine-too-busy", "a control pair could not connect either"));
                        }
                        fail!("C06/connection-refused-below-the-inbound-limit", "{what}: the node has {inb} inbound connections (limit {:?}) and a node it is not connected to could not connect (2 attempts, 5 s)", c.max_in);
                    }
                } else {
                    reached_limit = true;
                    // the surplus connection must not last: give it 600 ms to be refused / dropped
                    std::thread::sleep(Duration::from_millis(120));
                    let gone = wait_until(&log, Duration::from_millis(1500), |l| !connected(l, 0, &peers[d]));
                    ensure!(gone, "C06/surplus-inbound-connection-kept", "{what}: with {inb} inbound connections at limit {:?} the node keeps reporting the new connection", c.max_in);
                    refused += 1;
                    // existing connections are undisturbed
                    std::thread::sleep(Duration::from_millis(60));
                    let after = open_at_victim(&log.lock(), &peers);
                    for e in &before {
                        ensure!(after.contains(e), "C06/existing-connection-disturbed-by-a-rejected-one", "{what}: the connection with node {} was open before the surplus dial and is gone after it", e.0);
                    }
                }
            }
            Op::DialOut { d } => {
                let d = 1 + *d as usize % OTHERS;
                if connected(&log.lock(), d, &pv) || connected(&log.lock(), 0, &peers[d]) {
                    continue;
                }
                let (_, out) = check(&log.lock(), &what)?;
                let room = c.max_out.map(|m| out < m as usize).unwrap_or(true);
                let calls = log.lock().iter().filter(|o| o.node == 0 && matches!(&o.kind, ObsKind::ApiResult { what, .. } if what.starts_with("dial_address"))).count();
                nodes[0].send(Cmd::DialAddress(addrs[d].clone()));
                let answered = wait_until(&log, Duration::from_millis(1000), |l| l.iter().filter(|o| o.node == 0 && matches!(&o.kind, ObsKind::ApiResult { what, .. } if what.starts_with("dial_address"))).count() > calls);
                if !answered {
                    return Err(CaseFail::new("C06/harness-node-not-responding", "dial_address did not return within 1 s"));
                }
                let api_ok = log.lock().iter().rev().find_map(|o| if o.node == 0 { if let ObsKind::ApiResult { what, ok, .. } = &o.kind { if what.starts_with("dial_address") { Some(*ok) } else { None } } else { None } } else { None }).unwrap_or(false);
                if room {
                    ensure!(api_ok, "C06/dial-refused-below-the-outbound-limit", "{what}: {out} outbound connections, limit {:?}", c.max_out);
                    let ok = wait_until(&log, Duration::from_millis(3000), |l| connected(l, 0, &peers[d]));
                    if !ok {
                        return Err(CaseFail::new("C06/harness-calibration-failed", "an accepted outbound dial to a healthy node did not connect within 3 s"));
                    }
                } else {
                    reached_limit = true;
                    ensure!(!api_ok, "C06/dial-accepted-at-the-outbound-limit", "{what}: {out} outbound connections, limit {:?}", c.max_out);
                }
            }
            Op::HangUp { d } => {
                let d = 1 + *d as usize % OTHERS;
                if connected(&log.lock(), d, &pv) {
                    let _ = nodes[d].probes[0].send(ProbeCmd::ForceClose(pv));
                    let gone = wait_until(&log, Duration::from_millis(3000), |l| !connected(l, 0, &peers[d]) && !connected(l, d, &pv));
                    ensure!(gone, "C06/closed-connection-still-reported", "{what}: 3 s after node {d} hung up the connection is still reported");
                    if reached_limit {
                        released_after_limit = true;
                    }
                }
            }
            Op::Drop { d } => {
                let d = 1 + *d as usize % OTHERS;
                if connected(&log.lock(), 0, &peers[d]) {
                    let _ = nodes[0].probes[0].send(ProbeCmd::ForceClose(peers[d]));
                    let gone = wait_until(&log, Duration::from_millis(3000), |l| !connected(l, 0, &peers[d]) && !connected(l, d, &pv));
                    ensure!(gone, "C06/closed-connection-still-reported", "{what}: 3 s after the node hung up on node {d} the connection is still reported");
                    if reached_limit {
                        released_after_limit = true;
                    }
                }
            }
            Op::Sleep { ms } => std::thread::sleep(Duration::from_millis(*ms as u64)),
            Op::DialBoth { d } => {
                let d = 1 + *d as usize % OTHERS;
                if connected(&log.lock(), d, &pv) || connected(&log.lock(), 0, &peers[d]) {
                    continue;
                }
                nodes[0].send(Cmd::DialAddress(addrs[d].clone()));
                nodes[d].send(Cmd::DialAddress(addrs[0].clone()));
                simultaneous = true;
                // whatever comes of it: the limits hold at every moment
                for _ in 0..6 {
                    std::thread::sleep(Duration::from_millis(50));
                    check(&log.lock(), &what)?;
                    let per_peer = open_at_victim(&log.lock(), &peers).iter().filter(|(j, _)| *j == d).count();
                    ensure!(per_peer <= 2, "C06/more-than-two-connections-per-peer", "{what}: the node reports {per_peer} established connections with node {d}");
                }
            }
        }
        check(&log.lock(), &what)?;
    }
    std::thread::sleep(Duration::from_millis(80));
    check(&log.lock(), "end")?;
    for p in crate::f4::case_panics(case_id) {
        if p.thread.ends_with("-node0") {
            fail!(format!("panic@{}", p.location), "the limited node panicked: {}", p.message);
        }
    }
    Ok(CaseOk::trivial()
        .nt(reached_limit && released_after_limit)
        .class_if(reached_limit, "a-limit-was-reached")
        .class_if(released_after_limit, "a-connection-closed-after-a-limit-was-reached")
        .class_if(refused > 0, "surplus-inbound-connection-refused")
        .class_if(simultaneous, "simultaneous-dial"))
}
