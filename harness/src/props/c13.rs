//! C13 — every request gets exactly one terminal outcome with the matching payload.
//!
//! Real nodes over loopback TCP. The requester issues generated bursts of requests (same tick /
//! small gaps) to connected, known-but-unconnected, being-dialed, undialable and address-less
//! peers; the responder's behaviour for each request is encoded in the request itself (answer,
//! reject, never answer, answer late), nodes are killed at generated moments, requests are
//! cancelled at generated moments. Oracle: ledger by RequestId over the observed history.

use crate::engine::{CampaignCfg, CaseFail, CaseOk, CaseResult, Ctx};
use crate::f4::{full_address, rr_expected_response, rr_request, wait_until, Cmd, Log, Node, NodeSetup, Obs, ObsKind, RrSetup};
use crate::{ensure, fail};
use litep2p::PeerId;
use multiaddr::Multiaddr;
use proptest::prelude::*;
use serde::{Deserialize, Serialize};
use std::collections::{BTreeMap, BTreeSet};
use std::sync::Arc;
use std::time::{Duration, Instant};

#[derive(Debug, Clone, Serialize, Deserialize)]
pub struct Req {
    /// 0..2 = responder node, 3 = undialable peer (refused port), 4 = peer without any address
    pub target: u8,
    /// pause before issuing (ms); 0 = same tick as the previous one
    pub gap_ms: u8,
    pub dial: bool,
    /// 0 answer, 1 reject, 2 never answer, 3 answer after `delay_ms`
    pub behaviour: u8,
    pub delay_ms: u16,
    pub req_len: u16,
    pub resp_len: u32,
    /// cancel this many ms after issuing
    pub cancel_after_ms: Option<u8>,
}

#[derive(Debug, Clone, Serialize, Deserialize)]
pub struct Case {
    pub responders: u8,
    /// per responder: 0 already connected, 1 address known (dial on demand), 2 address known and a dial is started right before the requests,
    /// 3 address unknown to the requester
    pub link: Vec<u8>,
    pub reqs: Vec<Req>,
    pub timeout_ms: u16,
    pub max_inbound: Option<u8>,
    /// kill responder 0 this many ms after the first request
    pub kill_after_ms: Option<u8>,
    pub seed: u64,
    /// outbound connection limit of the requester
    #[serde(default)]
    pub requester_max_out: Option<u8>,
    /// a responder dials the requester this many ms after the first request (connection by another route)
    #[serde(default)]
    pub late_connect: Option<(u8, u8)>,
}

const MAX_SIZE: usize = 64 * 1024;

fn strategy() -> impl Strategy<Value = Case> {
    let req = (
        prop_oneof![8 => 0u8..2, 1 => Just(3u8), 1 => Just(4u8)],
        prop_oneof![5 => Just(0u8), 2 => 1u8..10, 1 => 10u8..60],
        prop::bool::weighted(0.8),
        prop_oneof![6 => Just(0u8), 1 => Just(1u8), 1 => Just(2u8), 2 => Just(3u8)],
        prop_oneof![Just(20u16), Just(100), Just(250)],
        prop_oneof![4 => 15u16..64, 1 => 64u16..4000],
        prop_oneof![4 => 0u32..64, 2 => 64u32..5000, 1 => (MAX_SIZE as u32 - 20)..(MAX_SIZE as u32 + 20)],
        prop::option::weighted(0.12, prop_oneof![Just(0u8), 1u8..40]),
    )
        .prop_map(|(target, gap_ms, dial, behaviour, delay_ms, req_len, resp_len, cancel_after_ms)| Req {
            target,
            gap_ms,
            dial,
            behaviour,
            delay_ms,
            req_len,
            resp_len,
            cancel_after_ms,
        });
    (
        1u8..3,
        prop::collection::vec(prop_oneof![3 => Just(0u8), 3 => Just(1u8), 2 => Just(2u8), 2 => Just(3u8)], 2),
        prop::collection::vec(req, 1..8),
        prop_oneof![Just(300u16), Just(500)],
        prop_oneof![3 => Just(None), 1 => Just(Some(1u8)), 1 => Just(Some(3u8))],
        prop::option::weighted(0.15, 0u8..60),
        any::<u64>(),
        prop_oneof![4 => Just(None), 1 => Just(Some(0u8)), 2 => Just(Some(1u8))],
        prop::option::weighted(0.3, (0u8..2, 0u8..80)),
    )
        .prop_map(|(responders, link, reqs, timeout_ms, max_inbound, kill_after_ms, seed, requester_max_out, late_connect)| Case {
            responders,
            link,
            reqs,
            timeout_ms,
            max_inbound,
            kill_after_ms,
            seed,
            requester_max_out,
            late_connect,
        })
}

pub const SIG_A: &str = "C13/request-lost/second-request-queued-while-peer-is-being-dialed";
/// Same root cause as the C05 known finding: the requester's own dial is established after its outbound limit filled,
/// dropped silently, and no protocol is told.
pub const SIG_G: &str = "C13/request-without-terminal-event/own-dial-established-after-outbound-limit-filled-dropped-silently";

struct Issued {
    nonce: u64,
    target: u8,
    request: Vec<u8>,
    cancelled: bool,
    while_dialing: bool,
}

fn run_case_with(c: &Case, avoid_a: bool, avoid_g: bool) -> CaseResult {
    let log: Log = Arc::new(parking_lot::Mutex::new(Vec::new()));
    let timeout = Duration::from_millis(c.timeout_ms as u64);
    let rr = |max_inbound: Option<usize>| RrSetup { timeout, max_size: MAX_SIZE, max_concurrent_inbound: max_inbound };
    let base = NodeSetup {
        connection_open_timeout: Some(Duration::from_millis(1000)),
        substream_open_timeout: Some(Duration::from_millis(1000)),
        keep_alive: Some(Duration::from_secs(10)),
        ..Default::default()
    };
    let mut nodes: Vec<Node> = Vec::new();
    nodes.push(
        Node::spawn(0, NodeSetup { seed: c.seed % 1000 + 10_000, rr: Some(rr(None)), max_out: c.requester_max_out.map(|m| m as usize), ..base.clone() }, log.clone())
            .map_err(|e| CaseFail::new("C13/harness-node-start-failed", e))?,
    );
    let n_resp = c.responders.clamp(1, 2) as usize;
    for i in 0..n_resp {
        nodes.push(
            Node::spawn(
                i + 1,
                NodeSetup { seed: c.seed % 1000 + 20_000 + i as u64, rr: Some(rr(c.max_inbound.map(|m| m as usize))), ..base.clone() },
                log.clone(),
            )
            .map_err(|e| CaseFail::new("C13/harness-node-start-failed", e))?,
        );
    }
    let undialable = crate::common::peer_from_seed(0xC13_0001);
    let addressless = crate::common::peer_from_seed(0xC13_0002);
    let refused: Multiaddr = format!("/ip4/127.0.0.1/tcp/1/p2p/{undialable}").parse().unwrap();
    nodes[0].send(Cmd::AddKnown(undialable, vec![refused]));
    let resp_peers: Vec<PeerId> = (0..n_resp).map(|i| nodes[i + 1].peer).collect();
    // links
    let mut dialing_started: BTreeSet<usize> = BTreeSet::new();
    for i in 0..n_resp {
        let addr = full_address(&nodes[i + 1]);
        let link = c.link.get(i).cloned().unwrap_or(0) % 4;
        let link = if link == 0 && c.requester_max_out.map(|m| (m as usize) <= i).unwrap_or(false) { 1 } else { link };
        match link {
            0 => {
                nodes[0].send(Cmd::DialAddress(addr));
                let p = resp_peers[i];
                let ok = wait_until(&log, Duration::from_secs(5), |l| {
                    l.iter().any(|o| o.node == 0 && matches!(&o.kind, ObsKind::ConnEstablished { peer, .. } if *peer == p))
                        && l.iter().any(|o| o.node == i + 1 && matches!(&o.kind, ObsKind::ConnEstablished { .. }))
                });
                if !ok {
                    return Err(CaseFail::new("C13/harness-calibration-failed", "two healthy nodes did not connect within 5 s"));
                }
                std::thread::sleep(Duration::from_millis(20));
            }
            1 => nodes[0].send(Cmd::AddKnown(resp_peers[i], vec![addr])),
            3 => {}
            _ => {
                nodes[0].send(Cmd::AddKnown(resp_peers[i], vec![addr]));
                dialing_started.insert(i);
            }
        }
    }
    std::thread::sleep(Duration::from_millis(10));
    for i in &dialing_started {
        nodes[0].send(Cmd::Dial(resp_peers[*i]));
    }

    // issue the requests
    let start = Instant::now();
    let mut issued: Vec<Issued> = Vec::new();
    let mut cancels: Vec<(Instant, usize)> = Vec::new(); // (when, index into issued)
    let mut killed = false;
    let mut queued_while_unconnected: BTreeMap<u8, usize> = BTreeMap::new();
    let mut steered = false;
    let mut dial_targets: BTreeSet<Vec<u8>> = dialing_started.iter().map(|i| resp_peers[*i].to_bytes()).collect();
    // the linking dials themselves must not over-commit either
    if avoid_g {
        if let Some(m) = c.requester_max_out {
            if dial_targets.len() > m as usize {
                steered = true;
            }
        }
    }
    for (k, r) in c.reqs.iter().enumerate() {
        if r.gap_ms > 0 {
            std::thread::sleep(Duration::from_millis(r.gap_ms as u64));
        }
        if let Some(kill) = c.kill_after_ms {
            if !killed && k > 0 && start.elapsed() >= Duration::from_millis(kill as u64) {
                nodes[1].kill();
                killed = true;
            }
        }
        let target_peer = match r.target {
            3 => undialable,
            4 => addressless,
            t => resp_peers[t as usize % n_resp],
        };
        let tnode = if r.target < 3 { Some(r.target as usize % n_resp) } else { None };
        // is the peer connected (from the requester's point of view) right now?
        let connected_now = {
            let l = log.lock();
            let est = l.iter().filter(|o| o.node == 0 && matches!(&o.kind, ObsKind::ConnEstablished { peer, .. } if *peer == target_peer)).count();
            let cl = l.iter().filter(|o| o.node == 0 && matches!(&o.kind, ObsKind::ConnClosed { peer } if *peer == target_peer)).count();
            est > cl
        };
        let while_dialing = !connected_now && r.dial && r.target != 4;
        if avoid_g && while_dialing {
            if let Some(m) = c.requester_max_out {
                let l = log.lock();
                let out_est = l.iter().filter(|o| o.node == 0 && matches!(&o.kind, ObsKind::ConnEstablished { listener: false, .. })).count()
                    - l.iter().filter(|o| o.node == 0 && matches!(&o.kind, ObsKind::ConnClosed { .. })).count().min(l.iter().filter(|o| o.node == 0 && matches!(&o.kind, ObsKind::ConnEstablished { listener: false, .. })).count());
                let in_flight = dial_targets.iter().filter(|p| **p != target_peer.to_bytes() && !l.iter().any(|o| o.node == 0 && matches!(&o.kind, ObsKind::ConnEstablished { peer, .. } if peer.to_bytes() == **p))).count();
                drop(l);
                if out_est < m as usize && out_est + in_flight >= m as usize {
                    steered = true;
                    continue;
                }
            }
        }
        if while_dialing {
            dial_targets.insert(target_peer.to_bytes());
        }
        if while_dialing {
            let key = if r.target < 3 { (r.target as usize % n_resp) as u8 } else { r.target };
            let n = queued_while_unconnected.entry(key).or_insert(0);
            if *n >= 1 && avoid_a {
                // known finding: a second request queued for a peer that is still being dialed overwrites the first
                steered = true;
                continue;
            }
            *n += 1;
        }
        let nonce = c.seed.wrapping_mul(31).wrapping_add(k as u64);
        let request = rr_request(nonce, r.behaviour, r.delay_ms, r.resp_len, (r.req_len as usize).max(15));
        nodes[0].send(Cmd::RrSend { peer: target_peer, payload: request.clone(), dial: r.dial });
        issued.push(Issued { nonce, target: r.target, request, cancelled: false, while_dialing });
        if let Some(ms) = r.cancel_after_ms {
            cancels.push((Instant::now() + Duration::from_millis(ms as u64), issued.len() - 1));
        }
        let _ = tnode;
    }
    if let Some(kill) = c.kill_after_ms {
        if !killed {
            let due = Duration::from_millis(kill as u64);
            if start.elapsed() < due {
                std::thread::sleep(due - start.elapsed());
            }
            nodes[1].kill();
            killed = true;
        }
    }
    if let Some((r, after)) = c.late_connect {
        let due = Duration::from_millis(after as u64);
        if start.elapsed() < due {
            std::thread::sleep(due - start.elapsed());
        }
        let i = r as usize % n_resp;
        if nodes[i + 1].is_alive() {
            let addr = full_address(&nodes[0]);
            nodes[i + 1].send(Cmd::DialAddress(addr));
        }
    }
    // wait for the ids (send order = log order of RrSent on node 0)
    let n_issued = issued.len();
    wait_until(&log, Duration::from_secs(3), |l| l.iter().filter(|o| o.node == 0 && matches!(o.kind, ObsKind::RrSent { .. } | ObsKind::RrSendError { .. })).count() >= n_issued);
    let ids: Vec<Option<usize>> = {
        let l = log.lock();
        l.iter()
            .filter(|o| o.node == 0)
            .filter_map(|o| match &o.kind {
                ObsKind::RrSent { id, .. } => Some(Some(*id)),
                ObsKind::RrSendError { .. } => Some(None),
                _ => None,
            })
            .collect()
    };
    ensure!(ids.len() == n_issued, "C13/harness-send-not-acknowledged", "{} of {} send_request calls returned", ids.len(), n_issued);
    // cancellations at their moments
    cancels.sort_by_key(|c| c.0);
    for (when, idx) in cancels {
        let now = Instant::now();
        if when > now {
            std::thread::sleep(when - now);
        }
        if let Some(Some(id)) = ids.get(idx) {
            nodes[0].send(Cmd::RrCancel { id: *id });
            issued[idx].cancelled = true;
        }
    }
    // settle: every non-cancelled request has a terminal event, or the deadline passes
    let deadline = Duration::from_millis(2500) + 3 * timeout;
    let want: Vec<usize> = ids.iter().zip(issued.iter()).filter(|(_, i)| !i.cancelled).filter_map(|(id, _)| *id).collect();
    let all_done = wait_until(&log, deadline, |l| {
        want.iter().all(|id| l.iter().any(|o| o.node == 0 && matches!(&o.kind, ObsKind::RrResponse { id: i, .. } | ObsKind::RrFailed { id: i, .. } if i == id)))
    });
    // let late duplicates show up
    std::thread::sleep(Duration::from_millis(if all_done { if c.late_connect.is_some() { 250 } else { 60 } } else { 10 }));
    let history: Vec<Obs> = log.lock().clone();
    drop(nodes);

    // ---- oracle -------------------------------------------------------------------------------
    let uniq: BTreeSet<usize> = ids.iter().flatten().cloned().collect();
    ensure!(uniq.len() == ids.iter().flatten().count(), "C13/request-id-reused", "{:?}", ids);
    let mut fault = killed;
    for (idx, (id, iss)) in ids.iter().zip(issued.iter()).enumerate() {
        let Some(id) = id else { continue };
        let terminals: Vec<&Obs> = history
            .iter()
            .filter(|o| o.node == 0 && matches!(&o.kind, ObsKind::RrResponse { id: i, .. } | ObsKind::RrFailed { id: i, .. } if i == id))
            .collect();
        ensure!(
            terminals.len() <= 1,
            "C13/more-than-one-terminal-event",
            "request #{idx} (id {id}, target {}): {:?}",
            iss.target,
            terminals.iter().map(|o| short(&o.kind)).collect::<Vec<_>>()
        );
        if terminals.is_empty() && !iss.cancelled {
            let queued_before = issued[..idx].iter().filter(|j| j.while_dialing && j.target == iss.target).count();
            let queued_after = issued[idx + 1..].iter().filter(|j| j.while_dialing && j.target == iss.target).count();
            // did the target see a connection from the requester that the requester never reported (dropped at the limit)?
            let tnode = if iss.target < 3 { Some(iss.target as usize % n_resp + 1) } else { None };
            let requester_peer_est = tnode.map(|n| history.iter().any(|o| o.node == n && matches!(&o.kind, ObsKind::ConnEstablished { listener: true, .. }))).unwrap_or(false);
            let target_peer_bytes = match iss.target { 3 => undialable.to_bytes(), 4 => addressless.to_bytes(), t => resp_peers[t as usize % n_resp].to_bytes() };
            let requester_reported = history.iter().any(|o| o.node == 0 && matches!(&o.kind, ObsKind::ConnEstablished { peer, .. } if peer.to_bytes() == target_peer_bytes));
            let sig = if c.requester_max_out.is_some() && iss.while_dialing && requester_peer_est && !requester_reported {
                SIG_G
            } else if iss.while_dialing && (queued_before + queued_after) >= 1 {
                SIG_A
            } else {
                "C13/request-without-terminal-event"
            };
            fail!(
                sig,
                "request #{idx} (id {id}, target {}, behaviour {}, dial {}, issued while unconnected {}) has no terminal event {} ms after the last request (request timeout {} ms); requests: {:?}",
                iss.target,
                iss.request[8],
                c.reqs.get(idx).map(|r| r.dial).unwrap_or(true),
                iss.while_dialing,
                deadline.as_millis(),
                c.timeout_ms,
                c.reqs.iter().map(|r| (r.target, r.gap_ms, r.behaviour)).collect::<Vec<_>>()
            );
        }
        if let Some(t) = terminals.first() {
            match &t.kind {
                ObsKind::RrResponse { response, .. } => {
                    let expect = rr_expected_response(&iss.request);
                    ensure!(
                        *response == expect,
                        "C13/response-differs-from-what-the-responder-sent",
                        "request #{idx} (id {id}): got {} bytes, the responder supplied {} bytes for this request",
                        response.len(),
                        expect.len()
                    );
                    ensure!(iss.request[8] == 0 || iss.request[8] == 3, "C13/response-for-request-the-responder-never-answered", "request #{idx} behaviour {}", iss.request[8]);
                }
                _ => fault = true,
            }
        }
    }
    // the responder sees each request once
    for n in 1..=n_resp {
        let mut seen: BTreeMap<u64, usize> = BTreeMap::new();
        for o in history.iter().filter(|o| o.node == n) {
            if let ObsKind::RrRequestReceived { request, .. } = &o.kind {
                if request.len() >= 8 {
                    *seen.entry(u64::from_le_bytes(request[0..8].try_into().unwrap())).or_default() += 1;
                }
                let known = issued.iter().any(|i| i.request == *request);
                ensure!(known, "C13/responder-received-request-nobody-sent", "node {n}: {} bytes", request.len());
            }
        }
        for (nonce, k) in seen {
            ensure!(k == 1, "C13/responder-saw-request-twice", "node {n}: nonce {nonce} received {k} times");
        }
        // bound on concurrently outstanding inbound requests
        if let Some(max) = c.max_inbound {
            let mut outstanding: BTreeSet<usize> = BTreeSet::new();
            for o in history.iter().filter(|o| o.node == n) {
                match &o.kind {
                    ObsKind::RrRequestReceived { id, request, .. } => {
                        outstanding.insert(*id);
                        let _ = request;
                        ensure!(
                            outstanding.len() <= max as usize,
                            "C13/inbound-request-bound-exceeded",
                            "node {n}: {} requests outstanding with a bound of {max}",
                            outstanding.len()
                        );
                    }
                    ObsKind::RrAnswered { id, .. } | ObsKind::RrRejected { id } => {
                        outstanding.remove(id);
                    }
                    _ => {}
                }
            }
        }
    }
    let burst_unconnected = queued_while_unconnected.values().any(|n| *n >= 2);
    let mut ok = CaseOk::trivial();
    ok.excluded = steered;
    Ok(ok
        .nt(burst_unconnected || fault)
        .class_if(burst_unconnected, "burst-to-peer-being-dialed")
        .class_if(fault, "fault-or-failure-outcome")
        .class_if(killed, "responder-killed")
        .class_if(issued.iter().any(|i| i.cancelled), "cancellation")
        .class_if(c.max_inbound.is_some(), "inbound-bound-configured")
        .class_if(c.late_connect.is_some(), "connection-by-another-route")
        .class_if(issued.iter().any(|i| i.target >= 3), "undialable-or-addressless-target"))
}

// ---------------------------------------------------------------------------------------------
// the bound on concurrent inbound requests, with several requesting peers at once

#[derive(Debug, Clone, Serialize, Deserialize)]
pub struct BoundCase {
    pub requesters: u8,
    pub max_inbound: u8,
    /// (requester, pause before it in ms (0 = same tick), behaviour 0 answer / 2 never / 3 answer after `delay`, delay ms, request length)
    pub volley: Vec<(u8, u8, u8, u16, u16)>,
    pub seed: u64,
}

fn bound_strategy() -> impl Strategy<Value = BoundCase> {
    (
        2u8..5,
        1u8..4,
        prop::collection::vec(
            (0u8..4, prop_oneof![6 => Just(0u8), 1 => 1u8..4, 1 => 20u8..90], prop_oneof![1 => Just(0u8), 1 => Just(2u8), 4 => Just(3u8)], prop_oneof![Just(60u16), Just(150), Just(300)], prop_oneof![4 => 15u16..64, 1 => 2000u16..20000]),
            2..14,
        ),
        any::<u64>(),
    )
        .prop_map(|(requesters, max_inbound, volley, seed)| BoundCase { requesters, max_inbound, volley, seed })
}

fn run_bound(c: &BoundCase) -> CaseResult {
    let log: Log = Arc::new(parking_lot::Mutex::new(Vec::new()));
    let timeout = Duration::from_millis(500);
    let base = NodeSetup {
        connection_open_timeout: Some(Duration::from_millis(1000)),
        substream_open_timeout: Some(Duration::from_millis(1000)),
        keep_alive: Some(Duration::from_secs(10)),
        ..Default::default()
    };
    let n_req = c.requesters.clamp(2, 4) as usize;
    let mut nodes: Vec<Node> = Vec::new();
    nodes.push(
        Node::spawn(
            0,
            NodeSetup { seed: c.seed % 1000 + 30_000, rr: Some(RrSetup { timeout, max_size: MAX_SIZE, max_concurrent_inbound: Some(c.max_inbound as usize) }), ..base.clone() },
            log.clone(),
        )
        .map_err(|e| CaseFail::new("C13/harness-node-start-failed", e))?,
    );
    let responder = nodes[0].peer;
    let addr = full_address(&nodes[0]);
    for i in 0..n_req {
        let node = Node::spawn(
            i + 1,
            NodeSetup { seed: c.seed % 1000 + 30_010 + i as u64, rr: Some(RrSetup { timeout, max_size: MAX_SIZE, max_concurrent_inbound: None }), ..base.clone() },
            log.clone(),
        )
        .map_err(|e| CaseFail::new("C13/harness-node-start-failed", e))?;
        node.send(Cmd::DialAddress(addr.clone()));
        nodes.push(node);
    }
    let all_connected = wait_until(&log, Duration::from_secs(5), |l| {
        (1..=n_req).all(|n| l.iter().any(|o| o.node == n && matches!(&o.kind, ObsKind::ConnEstablished { peer, .. } if *peer == responder)))
            && l.iter().filter(|o| o.node == 0 && matches!(&o.kind, ObsKind::ConnEstablished { .. })).count() >= n_req
    });
    if !all_connected {
        return Err(CaseFail::new("C13/harness-calibration-failed", "requesters could not connect to the responder within 5 s"));
    }
    std::thread::sleep(Duration::from_millis(20));
    let mut issued: Vec<(usize, Vec<u8>)> = Vec::new(); // (requester node, request)
    for (k, (r, gap, behaviour, delay, len)) in c.volley.iter().enumerate() {
        if *gap > 0 {
            std::thread::sleep(Duration::from_millis(*gap as u64));
        }
        let n = (*r as usize % n_req) + 1;
        let nonce = c.seed.wrapping_mul(131).wrapping_add(k as u64);
        let request = rr_request(nonce, *behaviour, *delay, 40, (*len as usize).max(15));
        nodes[n].send(Cmd::RrSend { peer: responder, payload: request.clone(), dial: false });
        issued.push((n, request));
    }
    // every request ends (response, rejection or timeout) well within 3 s
    let total = issued.len();
    let done = wait_until(&log, Duration::from_secs(4), |l| {
        l.iter().filter(|o| o.node >= 1 && matches!(&o.kind, ObsKind::RrResponse { .. } | ObsKind::RrFailed { .. } | ObsKind::RrSendError { .. })).count() >= total
    });
    std::thread::sleep(Duration::from_millis(80));
    let history: Vec<Obs> = log.lock().clone();
    drop(nodes);

    // each requester: one terminal event per request id
    for n in 1..=n_req {
        let sent: Vec<usize> = history.iter().filter(|o| o.node == n).filter_map(|o| if let ObsKind::RrSent { id, .. } = &o.kind { Some(*id) } else { None }).collect();
        for id in sent {
            let t = history.iter().filter(|o| o.node == n && matches!(&o.kind, ObsKind::RrResponse { id: i, .. } | ObsKind::RrFailed { id: i, .. } if *i == id)).count();
            ensure!(t <= 1, "C13/more-than-one-terminal-event", "requester {n} request id {id}: {t} terminal events");
            ensure!(t == 1 || !done, "C13/request-without-terminal-event", "requester {n} request id {id}");
            ensure!(t == 1, "C13/request-without-terminal-event", "requester {n} request id {id}: nothing 4 s after the volley (request timeout 500 ms)");
        }
    }
    // the responder: each request at most once, never more than the bound outstanding
    let mut seen: BTreeMap<Vec<u8>, usize> = BTreeMap::new();
    let mut outstanding: BTreeSet<usize> = BTreeSet::new();
    let mut peak = 0usize;
    let mut received = 0usize;
    for o in history.iter().filter(|o| o.node == 0) {
        match &o.kind {
            ObsKind::RrRequestReceived { id, request, .. } => {
                received += 1;
                *seen.entry(request.clone()).or_default() += 1;
                ensure!(issued.iter().any(|(_, r)| r == request), "C13/responder-received-request-nobody-sent", "{} bytes", request.len());
                outstanding.insert(*id);
                peak = peak.max(outstanding.len());
                ensure!(
                    outstanding.len() <= c.max_inbound as usize,
                    "C13/inbound-request-bound-exceeded",
                    "{} requests from {} peers are outstanding at the responder's user with a bound of {}",
                    outstanding.len(),
                    n_req,
                    c.max_inbound
                );
            }
            ObsKind::RrAnswered { id, .. } | ObsKind::RrRejected { id } => {
                outstanding.remove(id);
            }
            _ => {}
        }
    }
    for (r, k) in &seen {
        ensure!(*k == 1, "C13/responder-saw-request-twice", "a request of {} bytes was delivered {k} times", r.len());
    }
    let rejected = history.iter().filter(|o| o.node >= 1 && matches!(&o.kind, ObsKind::RrFailed { .. })).count();
    let same_tick = c.volley.iter().skip(1).filter(|v| v.1 == 0).count();
    Ok(CaseOk::trivial()
        .nt(total > c.max_inbound as usize && same_tick >= 1)
        .class_if(peak == c.max_inbound as usize, "bound-reached")
        .class_if(rejected > 0, "some-request-refused-or-timed-out")
        .class_if(received == total, "all-requests-admitted")
        .class_if(same_tick + 1 > c.max_inbound as usize, "simultaneous-volley-larger-than-bound"))
}

fn short(k: &ObsKind) -> String {
    let s = format!("{k:?}");
    s.chars().take(100).collect()
}

pub fn run(ctx: &mut Ctx) {
    ctx.rule = "real nodes over loopback TCP: a requester and 1..2 responders (already connected / address known / being dialed) plus an undialable and an address-less peer; 1..7 \
        requests with gaps of 0 (same tick) .. 60 ms, DialOptions Dial/Reject, responder behaviour per request (answer with a payload derived from the request up to the maximum \
        size / reject / never answer / answer late), cancellation 0..40 ms after issuing, responder killed at a generated moment, inbound bound in {none,1,3}, request timeout \
        300/500 ms. Ledger by RequestId: at most one terminal event, exactly one unless cancelled within 2.5 s + 3 timeouts, response byte-identical to what the responder supplied \
        for that request, responder sees each request once, inbound bound respected. Non-trivial = >= 2 requests to one peer while it is not yet connected, or a fault/failure \
        outcome; distinct by case hash. Second campaign (inbound-bound): one responder with a bound of 1..3 and 2..4 connected requesters firing 2..13 requests (same tick or 1..90 ms \
        apart; answered at once / after 60..300 ms / never; 15 B .. 20 kB): per requester exactly one terminal event per request, at the responder never more requests outstanding at \
        the user than the bound, each request delivered at most once; non-trivial = more requests than the bound with at least two in the same tick."
        .into();
    ctx.assumptions = vec![
        "thread and socket schedules are sampled (OS + tokio), not owned; the oracle accepts every legal outcome, so a violation is an observed behaviour of the real code".into(),
        "a missing terminal event is judged 2.5 s + 3 request timeouts after the last request (legitimate worst case: 1 s dial + 1 s substream open + 0.5 s request timeout)".into(),
        "calibration: if two healthy nodes cannot connect within 5 s the case is a harness failure (exit 2), not a verdict".into(),
    ];
    let t = ctx.tier;
    let avoid = ctx.avoid(SIG_A) && ctx.is_generate();
    let avoid_g = ctx.avoid(SIG_G) && ctx.is_generate();
    ctx.campaign("histories", CampaignCfg::new(t.pick(1_600, 30_000)).shards(16).shrink_iters(8), strategy, move |c: &Case| run_case_with(c, avoid, avoid_g));
    ctx.campaign("rogue-responder", CampaignCfg::new(t.pick(160, 4_000)).shards(16).shrink_iters(6), super::c13_rogue::strategy, super::c13_rogue::run_case);
    ctx.campaign("inbound-bound", CampaignCfg::new(t.pick(480, 10_000)).shards(16).shrink_iters(8), bound_strategy, run_bound);
}
