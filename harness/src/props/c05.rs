//! C05 — every dial attempt ends in exactly one outcome and never wedges the peer.

use proptest::strategy::Strategy as _;
use crate::engine::{CampaignCfg, CaseFail, CaseOk, CaseResult, Ctx};
use crate::f3::{history_strategy, run_history, History, Op, StepRecord, World, N_PEERS};
use crate::{ensure, fail};
use litep2p::verif::scripted::{Call, MgrEvent};
use litep2p::PeerId;
use multiaddr::Multiaddr;
use std::cell::RefCell;

#[derive(Default)]
struct Flags {
    inbound_while_dialing: bool,
    limit_rejection: bool,
    failure_then_redial: bool,
    adversarial: bool,
    general_failure: bool,
    had_failure: std::collections::BTreeSet<Vec<u8>>,
}

fn same_addr_set(reported: &[Multiaddr], attempted: &[Multiaddr]) -> bool {
    reported.iter().all(|r| attempted.iter().any(|a| a == r))
}

fn check_step(w: &mut World, rec: &StepRecord, flags: &RefCell<Flags>) -> Result<(), CaseFail> {
    let mut f = flags.borrow_mut();
    // at most one report per attempt
    for (id, a) in &w.attempts {
        let n = w.failure_reports.get(id).cloned().unwrap_or(0) + w.established_reports.get(id).cloned().unwrap_or(0);
        ensure!(
            n <= 1,
            "C05/more-than-one-outcome-for-an-attempt",
            "attempt {id} to {}: {} failure reports and {} established reports",
            a.peer,
            w.failure_reports.get(id).cloned().unwrap_or(0),
            w.established_reports.get(id).cloned().unwrap_or(0)
        );
    }
    for e in &rec.events {
        match e {
            MgrEvent::DialFailure { id, address } => {
                if let Some(a) = w.attempts.get(id) {
                    ensure!(same_addr_set(&[address.clone()], &a.addresses), "C05/failure-names-foreign-address", "attempt {id}: {address} not in {:?}", a.addresses);
                    f.had_failure.insert(a.peer.to_bytes());
                } else {
                    fail!("C05/failure-report-for-unknown-attempt", "DialFailure for id {id}");
                }
            }
            MgrEvent::OpenFailure { id, addresses } => {
                if let Some(a) = w.attempts.get(id) {
                    ensure!(same_addr_set(addresses, &a.addresses), "C05/failure-names-foreign-address", "attempt {id}: {:?} not within {:?}", addresses, a.addresses);
                    f.had_failure.insert(a.peer.to_bytes());
                } else {
                    fail!("C05/failure-report-for-unknown-attempt", "OpenFailure for id {id}");
                }
            }
            MgrEvent::Established { peer, id, .. } => {
                if let Some(a) = w.attempts.get(id) {
                    ensure!(a.peer == *peer, "C05/connection-reported-for-other-peer-than-dialed", "attempt {id} was for {} but {} is reported", a.peer, peer);
                }
            }
            _ => {}
        }
    }
    // an API call that returned Ok without starting an attempt must be coalescing with an attempt in flight
    if let Some(Ok(())) = &rec.api_result {
        let is_dial = rec.op.starts_with("Dial");
        if is_dial && rec.new_attempt.is_none() {
            // which peer?
            let target: Option<PeerId> = if let Some(rest) = rec.op.strip_prefix("DialAddress ") {
                rest.parse::<Multiaddr>().ok().and_then(|a| PeerId::try_from_multiaddr(&a))
            } else {
                // "Dial { peer: N }"
                rec.op.split("peer: ").nth(1).and_then(|s| s.trim_end_matches(|c| c == '}' || c == ' ').parse::<usize>().ok()).map(|i| w.peers[i % N_PEERS])
            };
            if let Some(p) = target {
                let in_flight = w.attempts.values().any(|a| {
                    a.peer == p
                        && w.failure_reports.get(&a.id).cloned().unwrap_or(0) + w.established_reports.get(&a.id).cloned().unwrap_or(0) == 0
                        && w.obligations.iter().any(|o| o.id() == a.id)
                });
                let stuck_on_rejected = w.state(&p).and_then(|v| v.dialing).map(|d| w.own_rejected.contains(&d)).unwrap_or(false);
                ensure!(
                    in_flight,
                    if stuck_on_rejected && w.max_out.is_some() { SIG_G } else { "C05/dial-accepted-but-nothing-attempted" },
                    "step {}: {} returned Ok, no transport call was made and no attempt to {p} is in flight (manager state {:?})",
                    rec.step,
                    rec.op,
                    w.state(&p)
                );
                f.failure_then_redial |= f.had_failure.contains(&p.to_bytes());
            }
        } else if is_dial {
            if let Some(id) = rec.new_attempt {
                let p = w.attempts[&id].peer;
                f.failure_then_redial |= f.had_failure.contains(&p.to_bytes());
            }
        }
    }
    if let Some((_, peer, true)) = rec.injected_established {
        if w.attempts.values().any(|a| a.peer == peer && w.obligations.iter().any(|o| o.id() == a.id)) {
            f.inbound_while_dialing = true;
        }
    }
    if !rec.rejected.is_empty() && (w.max_in.is_some() || w.max_out.is_some()) {
        f.limit_rejection = true;
    }
    if rec.op.contains("Negotiate") && rec.events.iter().any(|e| matches!(e, MgrEvent::DialFailure { .. })) {
        f.general_failure = true;
    }
    if rec.op.starts_with("DialAddress") && (rec.op.matches("/p2p/").count() != 1 || rec.api_result.as_ref().map(|r| r.is_err()).unwrap_or(false)) {
        f.adversarial = true;
    }
    Ok(())
}

pub const SIG_G: &str = "C05/own-dial-established-after-outbound-limit-filled-is-dropped-silently-and-peer-stays-dialing";

fn check_end(w: &mut World) -> Result<(), CaseFail> {
    // all network activity has concluded: every attempt has exactly one outcome, or a connection with that peer was reported
    for (id, a) in &w.attempts {
        let n = w.failure_reports.get(id).cloned().unwrap_or(0) + w.established_reports.get(id).cloned().unwrap_or(0);
        // The transport refused to accept the connection this attempt produced (a fault only the scripted transport injects;
        // the TCP transport never refuses): the manager rolls the connection back; what it owes the dialer then is not stated
        // by the property and is not judged. That the peer can be dialed again afterwards is (below).
        // (also when the refused connection was an inbound one that had superseded the attempt)
        if n == 0 && (w.accept_failed_ids.contains(id) || w.accept_failed_peers.contains(&a.peer)) {
            continue;
        }
        if n == 0 {
            let connected_since = w.established_log.iter().any(|(step, peer, _)| *peer == a.peer && *step >= a.step);
            ensure!(
                connected_since,
                if w.own_rejected.contains(id) && w.max_out.is_some() { SIG_G } else { "C05/dial-attempt-ended-in-silence" },
                "attempt {id} to {} ({}; addresses {:?}; cancelled {}) got neither a connection nor a failure report; manager state {:?}; log tail: {:?}",
                a.peer,
                if a.by_address { "dial_address" } else { "dial" },
                a.addresses,
                a.cancelled,
                w.state(&a.peer),
                w.log.iter().rev().take(6).collect::<Vec<_>>()
            );
        }
    }
    // quiescent probe: a peer without an open connection can be dialed again and the dial is attempted
    let (_, out_truth) = w.counts_truth();
    for i in 0..N_PEERS {
        let p = w.peers[i];
        let has_conn = w.truth.values().any(|(q, _)| *q == p);
        let view = w.state(&p);
        if has_conn {
            continue;
        }
        if let Some(v) = &view {
            ensure!(
                v.kind != "connected",
                "C05/peer-counts-as-connected-without-a-connection",
                "peer {i}: manager state {:?} but no connection is open",
                v
            );
        }
        let stored = w.m.peer_addresses(&p);
        if stored.is_empty() {
            continue;
        }
        if let Some(max) = w.max_out {
            if out_truth >= max {
                continue;
            }
        }
        let r = w.m.dial(p);
        let _ = w.m.poll();
        let calls = w.m.take_calls();
        let attempted = calls.iter().any(|c| matches!(c, Call::Open { .. } | Call::Dial { .. }));
        let stuck_on_rejected = view.as_ref().and_then(|v| v.dialing).map(|d| w.own_rejected.contains(&d)).unwrap_or(false);
        ensure!(
            r.is_ok() && attempted,
            if stuck_on_rejected && w.max_out.is_some() { SIG_G } else { "C05/peer-wedged" },
            "quiescent peer {i} ({} stored addresses, state {:?}): dial returned {:?}, transport calls {:?}; log tail: {:?}",
            stored.len(),
            view,
            r,
            calls,
            w.log.iter().rev().take(6).collect::<Vec<_>>()
        );
    }
    Ok(())
}

fn run_case_with(h: &History, avoid: bool) -> CaseResult {
    let flags = RefCell::new(Flags::default());
    let w = run_history(h, avoid, |w, rec| check_step(w, rec, &flags), check_end)?;
    let f = flags.into_inner();
    let mut ok = CaseOk::trivial();
    ok.excluded = w.steered > 0;
    Ok(ok
        .nt(f.inbound_while_dialing || f.limit_rejection || f.failure_then_redial || f.adversarial)
        .class_if(f.inbound_while_dialing, "inbound-while-dialing")
        .class_if(f.limit_rejection, "limit-rejection")
        .class_if(f.failure_then_redial, "failure-then-redial")
        .class_if(f.adversarial, "adversarial-address")
        .class_if(f.general_failure, "negotiation-failure-after-open")
        .class_if(h.ops.iter().any(|o| matches!(o, Op::Close { .. })), "with-close"))
}

pub fn run(ctx: &mut Ctx) {
    ctx.rule = "history over 4 peers against the real TransportManager with a scripted transport: add_known_address (1..3 addresses from the address grammar), dial(peer), \
        dial_address(address incl. adversarial shapes: two /p2p components, trailing components, dns*, unspecified ip, foreign / local peer id, udp, missing /p2p), resolution of \
        one outstanding transport obligation (dial -> established | failure kind; open -> opened(address, errors) | open failure; negotiate -> established [| failure in the \
        general mode]; accepted inbound socket -> established | silent failure), new inbound socket from a peer, close of a live connection; limits (in,out) from \
        {none,0,1,2,3}^2; at the end every outstanding obligation is resolved in generated order and every connection-less peer with a stored address is re-dialed. \
        Non-trivial = an inbound connection from a peer with an outbound attempt outstanding, or a rejection under limits, or a failure followed by a redial, or an adversarial \
        address; distinct by case hash."
        .into();
    ctx.assumptions = vec![
        "the scripted transport emits only what TcpTransport can emit for the calls it received (one outcome per dial/open unless cancelled, established peer = the peer the TCP parser reads from the address, failed inbound negotiations are silent); 'general' histories additionally allow a DialFailure after ConnectionOpened, which the Transport trait permits".into(),
        "an attempt without a report of its own counts as concluded when a connection with that peer was reported after the attempt started (statement: 'a connection with that peer being reported')".into(),
        "single-threaded: one stimulus at a time, everything polled to quiescence (no two ready select! branches)".into(),
    ];
    let t = ctx.tier;
    // While the finding is listed as open, generated histories do not over-commit the outbound limit (counted as excluded);
    // replays always run unsteered.
    let avoid = ctx.avoid(SIG_G) && ctx.is_generate();
    let run_case = move |h: &History| run_case_with(h, avoid);
    ctx.campaign("histories", CampaignCfg::new(t.pick(60_000, 6_000_000)).shards(16), || history_strategy(30, true, 3, false), run_case);
    ctx.campaign("long-histories", CampaignCfg::new(t.pick(8_000, 900_000)).shards(16), || history_strategy(90, true, 4, false), run_case);
    // every history of up to 4 (quick) / 5 (thorough) operations over the small alphabet
    let depth = t.pick(4u32, 5);
    ctx.enumerate_indexed("small-scope-exhaustive", crate::f3::small_space_size(depth), 16, crate::f3::small_history, run_case);
    // the Transport trait lets accept() fail (the TCP transport never does): the manager rolls the connection back; the dial
    // still ends in one outcome and the peer, with nothing open, can be dialed again
    ctx.campaign(
        "accept-faults",
        CampaignCfg::new(t.pick(30_000, 1_500_000)).shards(16),
        || {
            history_strategy(30, true, 3, false).prop_map(|mut h| {
                h.accept_faults = true;
                h
            })
        },
        run_case,
    );
    ctx.campaign("nodes", CampaignCfg::new(t.pick(2_000, 40_000)).shards(16).shrink_iters(8), super::c05_nodes::strategy, super::c05_nodes::run_case);
    ctx.campaign("general-transport", CampaignCfg::new(t.pick(30_000, 2_400_000)).shards(16), || history_strategy(30, false, 2, true), run_case);
}
