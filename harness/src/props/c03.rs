//! C03 — protocol negotiation agrees on one protocol and is transparent afterwards.

use crate::engine::{fill_bytes, CampaignCfg, CaseFail, CaseOk, CaseResult, Ctx};
use crate::f2::{block_on_paused, chunk_script_strategy, pipe, ChunkScript, PipeCfg, PipeEnd};
use crate::{ensure, fail};
use bytes::Bytes;
use futures::io::{AsyncReadExt, AsyncWriteExt};
use litep2p::verif::multistream as ms;
use litep2p::ProtocolName;
use proptest::prelude::*;
use serde::{Deserialize, Serialize};
use std::time::Duration;

fn name(i: u8) -> String {
    match i {
        0 => "/a".into(),
        1 => "/a/b".into(),
        2 => "/b".into(),
        3 => "/proto/1.0.0".into(),
        4 => "/proto/2.0.0".into(),
        5 => "/ipfs/kad/1.0.0".into(),
        6 => "/sup/fallback/1".into(),
        7 => "/x".into(),
        8 => format!("/{}", "long-one-".repeat(114)),
        9 => format!("/{}", "long-two-".repeat(114)),
        10 => format!("/{}", "long-3-".repeat(150)),
        11 => format!("/{}", "n".repeat(16_381)),
        12 => "/ls".into(),
        13 => "/A".into(),
        14 => "/PROTO/1.0.0".into(),
        15 => "/a/".into(),
        16 => "/c".into(),
        _ => format!("/p{i}"),
    }
}

#[derive(Debug, Clone, Serialize, Deserialize)]
pub struct Case {
    pub dialer: Vec<u8>,
    pub listener: Vec<u8>,
    pub lazy: bool,
    /// 0 = litep2p<->litep2p, 1 = litep2p dialer / reference listener, 2 = reference dialer / litep2p listener
    pub pairing: u8,
    pub chunks: [ChunkScript; 4],
    pub dialer_payload: u16,
    pub listener_payload: u16,
    pub seed: u64,
}

fn dedup(v: Vec<u8>) -> Vec<u8> {
    let mut out = Vec::new();
    for x in v {
        if !out.contains(&x) {
            out.push(x);
        }
    }
    out
}

fn strategy() -> impl Strategy<Value = Case> {
    let idx = prop_oneof![10 => 0u8..8, 2 => 8u8..11, 1 => Just(11u8), 1 => Just(12u8), 4 => 13u8..20];
    (
        prop::collection::vec(idx.clone(), 1..6).prop_map(dedup),
        prop::collection::vec(idx, 0..7).prop_map(dedup),
        prop::bool::weighted(0.3),
        0u8..3,
        [chunk_script_strategy(), chunk_script_strategy(), chunk_script_strategy(), chunk_script_strategy()],
        prop_oneof![2 => Just(0u16), 4 => 1u16..64, 2 => 64u16..4096],
        prop_oneof![2 => Just(0u16), 4 => 1u16..64, 2 => 64u16..4096],
        any::<u64>(),
    )
        .prop_map(|(dialer, listener, lazy, pairing, chunks, dialer_payload, listener_payload, seed)| Case {
            dialer,
            listener,
            lazy,
            pairing,
            chunks,
            dialer_payload,
            listener_payload,
            seed,
        })
}

#[derive(Debug)]
struct SideOut {
    selected: Result<String, String>,
    /// payload phase: Ok(bytes read) or error
    phase2: Option<Result<Vec<u8>, String>>,
}

async fn phase2<S: futures::io::AsyncRead + futures::io::AsyncWrite + Unpin>(io: &mut S, send: &[u8], expect_len: usize) -> Result<Vec<u8>, String> {
    io.write_all(send).await.map_err(|e| format!("write: {:?}", e.kind()))?;
    io.flush().await.map_err(|e| format!("flush: {:?}", e.kind()))?;
    let mut buf = vec![0u8; expect_len];
    io.read_exact(&mut buf).await.map_err(|e| format!("read: {:?}", e.kind()))?;
    // nothing may follow: the peer closes after its payload
    io.close().await.map_err(|e| format!("close: {:?}", e.kind()))?;
    let mut extra = [0u8; 8];
    match io.read(&mut extra).await {
        Ok(0) => {}
        Ok(n) => return Err(format!("{n} extra bytes after the payload")),
        Err(e) => return Err(format!("final read: {:?}", e.kind())),
    }
    Ok(buf)
}

async fn lite_dialer(io: PipeEnd, names: Vec<String>, lazy: bool, send: Vec<u8>, expect_len: usize) -> SideOut {
    let version = if lazy { ms::Version::V1Lazy } else { ms::Version::V1 };
    match ms::dialer_select_proto(io, names, version).await {
        Ok((p, mut neg)) => {
            let r = phase2(&mut neg, &send, expect_len).await;
            SideOut { selected: Ok(p), phase2: Some(r) }
        }
        Err(e) => SideOut { selected: Err(format!("{e:?}")), phase2: None },
    }
}

async fn lite_listener(io: PipeEnd, names: Vec<String>, send: Vec<u8>, expect_len: usize) -> SideOut {
    match ms::listener_select_proto(io, names).await {
        Ok((p, mut neg)) => {
            let r = phase2(&mut neg, &send, expect_len).await;
            SideOut { selected: Ok(p), phase2: Some(r) }
        }
        Err(e) => SideOut { selected: Err(format!("{e:?}")), phase2: None },
    }
}

async fn ref_dialer(io: PipeEnd, names: Vec<String>, lazy: bool, send: Vec<u8>, expect_len: usize) -> SideOut {
    let version = if lazy { multistream_select::Version::V1Lazy } else { multistream_select::Version::V1 };
    match multistream_select::dialer_select_proto(io, names, version).await {
        Ok((p, mut neg)) => {
            let r = phase2(&mut neg, &send, expect_len).await;
            SideOut { selected: Ok(p), phase2: Some(r) }
        }
        Err(e) => SideOut { selected: Err(format!("{e:?}")), phase2: None },
    }
}

async fn ref_listener(io: PipeEnd, names: Vec<String>, send: Vec<u8>, expect_len: usize) -> SideOut {
    match multistream_select::listener_select_proto(io, names).await {
        Ok((p, mut neg)) => {
            let r = phase2(&mut neg, &send, expect_len).await;
            SideOut { selected: Ok(p), phase2: Some(r) }
        }
        Err(e) => SideOut { selected: Err(format!("{e:?}")), phase2: None },
    }
}

fn run_case(c: &Case) -> CaseResult {
    if c.dialer.is_empty() {
        return Ok(CaseOk::trivial());
    }
    let dnames: Vec<String> = c.dialer.iter().map(|i| name(*i)).collect();
    let lnames: Vec<String> = c.listener.iter().map(|i| name(*i)).collect();
    let expected: Option<String> = dnames.iter().find(|d| lnames.contains(d)).cloned();
    let rounds = match &expected {
        Some(e) => dnames.iter().position(|d| d == e).unwrap(),
        None => dnames.len(),
    };
    let dp = fill_bytes(c.seed, c.dialer_payload as usize);
    let lp = fill_bytes(c.seed ^ 0xabcdef, c.listener_payload as usize);
    let cfg = PipeCfg {
        a_to_b: c.chunks[0].clone(),
        b_to_a: c.chunks[1].clone(),
        a_write: c.chunks[2].clone(),
        b_write: c.chunks[3].clone(),
        ..Default::default()
    };
    let chunked = c.chunks.iter().any(|s| !s.is_passthrough());
    let pairing = c.pairing % 3;
    let lazy = c.lazy;
    let (dp2, lp2) = (dp.clone(), lp.clone());
    let (dn, ln) = (dnames.clone(), lnames.clone());
    let joined = block_on_paused(async move {
        let (a, b, _ab, _ba) = pipe(cfg);
        let fut = async {
            match pairing {
                0 => tokio::join!(lite_dialer(a, dn, lazy, dp2.clone(), lp2.len()), lite_listener(b, ln, lp2.clone(), dp2.len())),
                1 => tokio::join!(lite_dialer(a, dn, lazy, dp2.clone(), lp2.len()), ref_listener(b, ln, lp2.clone(), dp2.len())),
                _ => tokio::join!(ref_dialer(a, dn, lazy, dp2.clone(), lp2.len()), lite_listener(b, ln, lp2.clone(), dp2.len())),
            }
        };
        tokio::time::timeout(Duration::from_secs(3600), fut).await
    });
    let Ok((d, l)) = joined else {
        fail!("C03/negotiation-does-not-terminate", "dialer {:?} listener {:?} lazy {} pairing {}", c.dialer, c.listener, c.lazy, pairing);
    };
    let lazy_single = c.lazy && (expected.is_none() || expected.as_ref() == dnames.last());
    match &expected {
        Some(e) => {
            match &d.selected {
                Ok(p) => ensure!(p == e, "C03/dialer-selected-wrong-protocol", "dialer got {:.40}, expected {:.40}", p, e),
                Err(err) => fail!("C03/dialer-failed-although-protocols-intersect", "{err}; dialer {:?} listener {:?} pairing {pairing}", c.dialer, c.listener),
            }
            match &l.selected {
                Ok(p) => ensure!(p == e, "C03/listener-selected-wrong-protocol", "listener got {:.40}, expected {:.40}", p, e),
                Err(err) => fail!("C03/listener-failed-although-protocols-intersect", "{err}; dialer {:?} listener {:?} pairing {pairing}", c.dialer, c.listener),
            }
            // transparency
            match (&d.phase2, &l.phase2) {
                (Some(Ok(got_d)), Some(Ok(got_l))) => {
                    ensure!(*got_d == lp, "C03/dialer-read-differs-from-listener-payload", "{} bytes", lp.len());
                    ensure!(*got_l == dp, "C03/listener-read-differs-from-dialer-payload", "{} bytes", dp.len());
                }
                (pd, pl) => fail!("C03/payload-exchange-failed-after-negotiation", "dialer {:?} listener {:?} (lazy {} pairing {pairing})", pd.as_ref().map(|r| r.as_ref().map(|v| v.len())), pl.as_ref().map(|r| r.as_ref().map(|v| v.len())), c.lazy),
            }
        }
        None => {
            ensure!(l.selected.is_err(), "C03/listener-succeeded-on-disjoint-sets", "listener selected {:?}", l.selected);
            if c.lazy {
                // the optimistic dialer settles on the last name of its list without waiting for the answer; the failure must
                // surface on its first I/O
                if let Ok(p) = &d.selected {
                    ensure!(Some(p) == dnames.last(), "C03/lazy-dialer-settled-on-other-than-last", "{:.40}", p);
                    let failed = matches!(&d.phase2, Some(Err(_)));
                    ensure!(failed, "C03/lazy-dialer-does-not-notice-rejection", "phase 2: {:?}", d.phase2.as_ref().map(|r| r.as_ref().map(|v| v.len())));
                }
            } else {
                ensure!(d.selected.is_err(), "C03/dialer-succeeded-on-disjoint-sets", "dialer selected {:?}", d.selected);
            }
        }
    }
    Ok(CaseOk::trivial()
        .nt(rounds >= 1 || expected.is_none() || chunked || pairing != 0)
        .class(match pairing {
            0 => "litep2p-litep2p",
            1 => "litep2p-dialer/reference-listener",
            _ => "reference-dialer/litep2p-listener",
        })
        .class_if(expected.is_none(), "disjoint")
        .class_if(rounds >= 1 && expected.is_some(), "rejection-rounds-then-agreement")
        .class_if(chunked, "chunked")
        .class_if(lazy_single, "lazy-optimistic-settle")
        .class_if(c.dialer.iter().chain(c.listener.iter()).any(|i| (8..=11).contains(i)), "long-names"))
}

// ---------------------------------------------------------------------------------------------
// lying listener: the dialer must only accept an exact echo of its current proposal

#[derive(Debug, Clone, Serialize, Deserialize)]
pub enum Answer {
    Echo,
    Other(u8),
    Na,
    HeaderAgain,
}

#[derive(Debug, Clone, Serialize, Deserialize)]
pub struct LiarCase {
    pub dialer: Vec<u8>,
    pub answers: Vec<Answer>,
    pub chunks: [ChunkScript; 2],
}

fn liar_strategy() -> impl Strategy<Value = LiarCase> {
    let idx = prop_oneof![10 => 0u8..8, 4 => 13u8..20];
    let ans = prop_oneof![3 => Just(Answer::Echo), 4 => idx.clone().prop_map(Answer::Other), 3 => Just(Answer::Na), 1 => Just(Answer::HeaderAgain)];
    (
        prop::collection::vec(idx, 1..5).prop_map(dedup),
        prop::collection::vec(ans, 1..5),
        [chunk_script_strategy(), chunk_script_strategy()],
    )
        .prop_map(|(dialer, answers, chunks)| LiarCase { dialer, answers, chunks })
}

fn frame(msg: &[u8]) -> Vec<u8> {
    let mut out = unsigned_varint::encode::usize(msg.len(), &mut unsigned_varint::encode::usize_buffer()).to_vec();
    out.extend_from_slice(msg);
    out
}

async fn read_ms_frame(io: &mut PipeEnd) -> Option<Vec<u8>> {
    let mut len = 0usize;
    let mut shift = 0;
    loop {
        let mut b = [0u8; 1];
        if io.read_exact(&mut b).await.is_err() {
            return None;
        }
        len |= ((b[0] & 0x7f) as usize) << shift;
        if b[0] & 0x80 == 0 {
            break;
        }
        shift += 7;
        if shift > 21 {
            return None;
        }
    }
    let mut buf = vec![0u8; len];
    io.read_exact(&mut buf).await.ok()?;
    Some(buf)
}

fn run_liar(c: &LiarCase) -> CaseResult {
    if c.dialer.is_empty() {
        return Ok(CaseOk::trivial());
    }
    let dnames: Vec<String> = c.dialer.iter().map(|i| name(*i)).collect();
    let cfg = PipeCfg {
        a_to_b: c.chunks[0].clone(),
        b_to_a: c.chunks[1].clone(),
        ..Default::default()
    };
    let answers = c.answers.clone();
    let dn = dnames.clone();
    let joined = block_on_paused(async move {
        let (a, mut b, _ab, _ba) = pipe(cfg);
        let rogue = async move {
            // (proposal, what was answered)
            let mut log: Vec<(String, Vec<u8>)> = Vec::new();
            let mut k = 0usize;
            while let Some(f) = read_ms_frame(&mut b).await {
                if f == b"/multistream/1.0.0\n" {
                    if b.write_all(&frame(b"/multistream/1.0.0\n")).await.is_err() {
                        break;
                    }
                    continue;
                }
                let proposal = String::from_utf8_lossy(&f[..f.len().saturating_sub(1)]).to_string();
                let ans = answers.get(k).cloned().unwrap_or(Answer::Na);
                k += 1;
                let bytes: Vec<u8> = match ans {
                    Answer::Echo => f.clone(),
                    Answer::Other(j) => format!("{}\n", name(j)).into_bytes(),
                    Answer::Na => b"na\n".to_vec(),
                    Answer::HeaderAgain => b"/multistream/1.0.0\n".to_vec(),
                };
                log.push((proposal, bytes.clone()));
                if b.write_all(&frame(&bytes)).await.is_err() || b.flush().await.is_err() {
                    break;
                }
            }
            log
        };
        let dial = async move {
            match ms::dialer_select_proto(a, dn, ms::Version::V1).await {
                Ok((p, io)) => {
                    drop(io);
                    Ok(p)
                }
                Err(e) => Err(format!("{e:?}")),
            }
        };
        tokio::time::timeout(Duration::from_secs(3600), async { tokio::join!(dial, rogue) }).await
    });
    let Ok((d, log)) = joined else {
        fail!("C03/negotiation-does-not-terminate", "lying listener; dialer {:?}", c.dialer);
    };
    let mut lied = false;
    for (prop, ans) in &log {
        let echo = format!("{prop}\n").into_bytes();
        if *ans != echo && ans != b"na\n" {
            lied = true;
        }
    }
    if let Ok(p) = &d {
        // the accepted protocol must have been confirmed by an exact echo of that very proposal
        let confirmed = log.iter().any(|(prop, ans)| prop == p && *ans == format!("{p}\n").into_bytes());
        ensure!(confirmed, "C03/dialer-accepted-unconfirmed-protocol", "dialer selected {p:?}; listener answers {:?}", log.iter().map(|(p, a)| (p.clone(), String::from_utf8_lossy(a).to_string())).collect::<Vec<_>>());
        ensure!(dnames.contains(p), "C03/dialer-selected-unproposed-protocol", "{p}");
    }
    Ok(CaseOk::trivial().nt(true).class("lying-listener").class_if(lied, "listener-lied").class_if(d.is_ok(), "dialer-accepted"))
}

// ---------------------------------------------------------------------------------------------
// scripted dialer: the harness plays a dialer by hand against the real stream-based listener. Unlike litep2p's and
// rust-libp2p's dialers (which send the header together with the first proposal) it can negotiate in lockstep — header,
// wait for the listener's header, then one proposal at a time — which the multistream-select specification allows.

#[derive(Debug, Clone, Serialize, Deserialize)]
pub struct ScriptedDialerCase {
    /// proposals in order
    pub dialer: Vec<u8>,
    pub listener: Vec<u8>,
    /// wait for the listener's header before the first proposal
    pub lockstep: bool,
    /// wait for the answer to each proposal before sending the next one (always true in lockstep)
    pub one_at_a_time: bool,
    pub payload: u16,
    pub chunks: [ChunkScript; 2],
    /// ask the listener for its protocol list (`ls`) this many times before proposing (only when one at a time)
    #[serde(default)]
    pub ls: u8,
}

fn scripted_dialer_strategy() -> impl Strategy<Value = ScriptedDialerCase> {
    let idx = prop_oneof![10 => 0u8..8, 2 => 8u8..11, 4 => 13u8..20];
    (
        prop::collection::vec(idx.clone(), 1..5).prop_map(dedup),
        prop::collection::vec(idx, 1..5).prop_map(dedup),
        any::<bool>(),
        any::<bool>(),
        prop_oneof![Just(0u16), Just(1), Just(300), Just(4000)],
        [chunk_script_strategy(), chunk_script_strategy()],
        prop_oneof![3 => Just(0u8), 2 => Just(1), 1 => Just(2)],
    )
        .prop_map(|(dialer, listener, lockstep, one_at_a_time, payload, chunks, ls)| ScriptedDialerCase { dialer, listener, lockstep, one_at_a_time, payload, chunks, ls })
}

fn run_scripted_dialer(c: &ScriptedDialerCase) -> CaseResult {
    let dnames: Vec<String> = c.dialer.iter().map(|i| name(*i)).collect();
    let lnames: Vec<String> = c.listener.iter().map(|i| name(*i)).collect();
    let expected = dnames.iter().find(|d| lnames.contains(d)).cloned();
    let cfg = PipeCfg { a_to_b: c.chunks[0].clone(), b_to_a: c.chunks[1].clone(), ..Default::default() };
    let payload = crate::engine::fill_bytes(c.payload as u64 + 7, c.payload as usize);
    let (lockstep, one) = (c.lockstep, c.one_at_a_time || c.lockstep);
    let n_ls = if one { c.ls } else { 0 };
    let (dn, ln, pl) = (dnames.clone(), lnames.clone(), payload.clone());
    let ln_for_ls = lnames.clone();
    let joined = block_on_paused(async move {
        let (mut a, b, _ab, _ba) = pipe(cfg);
        let dial = async move {
            // returns the name the listener confirmed (None = every proposal refused) and the echoed payload
            a.write_all(&frame(b"/multistream/1.0.0\n")).await.map_err(|e| format!("{e:?}"))?;
            a.flush().await.map_err(|e| format!("{e:?}"))?;
            let mut header_seen = false;
            if lockstep {
                let h = read_ms_frame(&mut a).await.ok_or("listener closed before its header")?;
                if h != b"/multistream/1.0.0\n" {
                    return Err(format!("listener's first frame is not the header: {:?}", String::from_utf8_lossy(&h)));
                }
                header_seen = true;
            }
            let mut confirmed: Option<String> = None;
            if one {
                for _ in 0..n_ls {
                    a.write_all(&frame(b"ls\n")).await.map_err(|e| format!("{e:?}"))?;
                    a.flush().await.map_err(|e| format!("{e:?}"))?;
                    if !header_seen {
                        let h = read_ms_frame(&mut a).await.ok_or("listener closed before its header")?;
                        if h != b"/multistream/1.0.0\n" {
                            return Err(format!("listener's first frame is not the header: {:?}", String::from_utf8_lossy(&h)));
                        }
                        header_seen = true;
                    }
                    // the answer is one frame holding the length-prefixed names; every supported name must be in it
                    let list = read_ms_frame(&mut a).await.ok_or("listener closed instead of answering ls")?;
                    for name in &ln_for_ls {
                        let needle = format!("{name}\n");
                        if !list.windows(needle.len()).any(|w| w == needle.as_bytes()) {
                            return Err(format!("the answer to ls does not list the supported protocol {name}"));
                        }
                    }
                }
                for p in &dn {
                    a.write_all(&frame(format!("{p}\n").as_bytes())).await.map_err(|e| format!("{e:?}"))?;
                    a.flush().await.map_err(|e| format!("{e:?}"))?;
                    if !header_seen {
                        let h = read_ms_frame(&mut a).await.ok_or("listener closed before its header")?;
                        if h != b"/multistream/1.0.0\n" {
                            return Err(format!("listener's first frame is not the header: {:?}", String::from_utf8_lossy(&h)));
                        }
                        header_seen = true;
                    }
                    let ans = read_ms_frame(&mut a).await.ok_or("listener closed instead of answering a proposal")?;
                    if ans == format!("{p}\n").as_bytes() {
                        confirmed = Some(p.clone());
                        break;
                    } else if ans != b"na\n" {
                        return Err(format!("listener answered {:?} to the proposal {p}", String::from_utf8_lossy(&ans)));
                    }
                }
            } else {
                // all proposals pipelined; answers are read afterwards, the first confirmation wins
                for p in &dn {
                    a.write_all(&frame(format!("{p}\n").as_bytes())).await.map_err(|e| format!("{e:?}"))?;
                }
                a.flush().await.map_err(|e| format!("{e:?}"))?;
                let h = read_ms_frame(&mut a).await.ok_or("listener closed before its header")?;
                if h != b"/multistream/1.0.0\n" {
                    return Err(format!("listener's first frame is not the header: {:?}", String::from_utf8_lossy(&h)));
                }
                for p in &dn {
                    let Some(ans) = read_ms_frame(&mut a).await else { break };
                    if ans == format!("{p}\n").as_bytes() {
                        confirmed = Some(p.clone());
                        break;
                    } else if ans != b"na\n" {
                        return Err(format!("listener answered {:?} to the proposal {p}", String::from_utf8_lossy(&ans)));
                    }
                }
                if confirmed.is_some() {
                    // pipelined proposals behind the confirmed one are application bytes for the listener now: not judged
                    return Ok((confirmed, None));
                }
            }
            let mut echoed = None;
            if confirmed.is_some() {
                a.write_all(&pl).await.map_err(|e| format!("{e:?}"))?;
                a.flush().await.map_err(|e| format!("{e:?}"))?;
                let mut back = vec![0u8; pl.len()];
                a.read_exact(&mut back).await.map_err(|e| format!("payload echo: {e:?}"))?;
                echoed = Some(back);
            }
            Ok::<_, String>((confirmed, echoed))
        };
        let listen = async move {
            match ms::listener_select_proto(b, ln).await {
                Ok((p, mut io)) => {
                    // echo whatever the dialer sends after the negotiation
                    let mut buf = vec![0u8; pl_len(&p)];
                    let _ = buf.len();
                    let mut got = Vec::new();
                    let mut tmp = [0u8; 1024];
                    loop {
                        match io.read(&mut tmp).await {
                            Ok(0) | Err(_) => break,
                            Ok(n) => {
                                got.extend_from_slice(&tmp[..n]);
                                if io.write_all(&tmp[..n]).await.is_err() || io.flush().await.is_err() {
                                    break;
                                }
                            }
                        }
                    }
                    Ok((p, got))
                }
                Err(e) => Err(format!("{e:?}")),
            }
        };
        tokio::time::timeout(Duration::from_secs(3600), async {
            // the dialer finishes first and hangs up, which ends the listener's echo loop
            let (d, l) = tokio::join!(
                async {
                    let r = dial.await;
                    r
                },
                listen
            );
            (d, l)
        })
        .await
    });
    let Ok((d, l)) = joined else {
        fail!("C03/negotiation-does-not-terminate", "scripted dialer (lockstep {}, one at a time {}) proposing {:?} to a listener supporting {:?}: both sides wait for ever", c.lockstep, c.one_at_a_time, dnames, lnames);
    };
    let d = match d {
        Ok(v) => v,
        Err(e) => fail!("C03/listener-broke-the-protocol-towards-a-scripted-dialer", "{e} (lockstep {}, proposals {:?}, supported {:?})", c.lockstep, dnames, lnames),
    };
    if one {
        ensure!(d.0 == expected, "C03/scripted-dialer-and-model-disagree", "listener confirmed {:?}, the first proposal it supports is {:?}", d.0, expected);
        match (&d.0, &l) {
            (Some(p), Ok((lp, got))) => {
                ensure!(lp == p, "C03/sides-disagree", "dialer got {p} confirmed, listener reports {lp}");
                ensure!(d.1.as_deref() == Some(&payload[..]), "C03/payload-altered-after-negotiation", "{} bytes sent", payload.len());
                ensure!(*got == payload, "C03/listener-application-bytes-differ", "listener read {} bytes, {} were sent", got.len(), payload.len());
            }
            (Some(p), Err(e)) => fail!("C03/sides-disagree", "dialer got {p} confirmed, listener failed with {e}"),
            (None, Ok((lp, _))) => fail!("C03/sides-disagree", "every proposal was refused but the listener reports {lp}"),
            (None, Err(_)) => {}
        }
    }
    Ok(CaseOk::trivial()
        .nt(c.lockstep || d.0.is_none())
        .class_if(c.lockstep, "lockstep-dialer")
        .class_if(n_ls > 0, "ls-before-proposing")
        .class_if(!one, "pipelined-proposals")
        .class_if(d.0.is_some(), "agreed")
        .class_if(d.0.is_none(), "all-refused"))
}

fn pl_len(_p: &str) -> usize {
    0
}

// ---------------------------------------------------------------------------------------------
// message-based variant

#[derive(Debug, Clone, Serialize, Deserialize)]
pub struct MsgCase {
    pub dialer: Vec<u8>,
    pub listener: Vec<u8>,
    /// deliver the dialer's first payload as header and protocol separately
    pub split_first: bool,
    /// deliver the listener's first answer (header + reply) to the dialer in two pieces
    pub split_answer: bool,
    /// trailing bytes appended to the listener's final answer
    pub trailing: Vec<u8>,
    /// the listener's k-th answer is replaced by a confirmation of another name (a lie)
    #[serde(default)]
    pub lie: Option<(u8, u8)>,
}

fn msg_strategy() -> impl Strategy<Value = MsgCase> {
    let idx = prop_oneof![10 => 0u8..8, 2 => 8u8..11, 1 => Just(12u8), 4 => 13u8..20];
    (
        prop::collection::vec(idx.clone(), 1..6).prop_map(dedup),
        prop::collection::vec(idx, 0..7).prop_map(dedup),
        any::<bool>(),
        any::<bool>(),
        prop_oneof![4 => Just(vec![]), 1 => prop::collection::vec(any::<u8>(), 1..6)],
        prop::option::weighted(0.25, (0u8..3, prop_oneof![4 => 0u8..8, 4 => 13u8..20])),
    )
        .prop_map(|(dialer, listener, split_first, split_answer, trailing, lie)| MsgCase {
            dialer,
            listener,
            split_first,
            split_answer,
            trailing,
            lie,
        })
}

/// Split a buffer of uvarint-length-prefixed messages after its first message.
fn split_after_first(b: &[u8]) -> Option<(Vec<u8>, Vec<u8>)> {
    let (len, tail) = unsigned_varint::decode::usize(b).ok()?;
    let hdr = b.len() - tail.len();
    if tail.len() < len || tail.len() == len {
        return None;
    }
    Some((b[..hdr + len].to_vec(), b[hdr + len..].to_vec()))
}

fn run_msg(c: &MsgCase) -> CaseResult {
    if c.dialer.is_empty() {
        return Ok(CaseOk::trivial());
    }
    let dnames: Vec<ProtocolName> = c.dialer.iter().map(|i| ProtocolName::from(name(*i))).collect();
    let lnames: Vec<ProtocolName> = c.listener.iter().map(|i| ProtocolName::from(name(*i))).collect();
    let expected = dnames.iter().find(|d| lnames.contains(d)).cloned();
    let (mut dialer, first) = ms::WebRtcDialerState::propose(dnames[0].clone(), dnames[1..].to_vec())
        .map_err(|e| CaseFail::new("C03/msg-propose-failed", format!("{e:?}")))?;
    let mut header_received = false;
    let mut outbound: Vec<Vec<u8>> = if c.split_first {
        match split_after_first(&first) {
            Some((h, p)) => vec![h, p],
            None => vec![first],
        }
    } else {
        vec![first]
    };
    let mut current = 0usize; // index of the dialer's current proposal
    let mut listener_accept: Option<ProtocolName> = None;
    let mut dialer_result: Option<Result<ProtocolName, ()>> = None;
    let mut first_answer = true;
    let mut answers_seen = 0usize;
    let mut steps = 0;
    while let Some(payload) = if outbound.is_empty() { None } else { Some(outbound.remove(0)) } {
        steps += 1;
        ensure!(steps < 50, "C03/msg-negotiation-does-not-terminate", "");
        let res = ms::webrtc_listener_negotiate(lnames.clone(), Bytes::from(payload.clone()), header_received)
            .map_err(|e| CaseFail::new("C03/msg-listener-error-on-valid-dialer-message", format!("{e:?} (header_received {header_received})")))?;
        let (answer, accepted) = match res {
            ms::ListenerSelectResult::PendingProtocol { message } => {
                ensure!(message.as_ref() == &payload[..], "C03/msg-pending-does-not-echo-header", "");
                header_received = true;
                (message.to_vec(), None)
            }
            ms::ListenerSelectResult::Accepted { protocol, message } => {
                header_received = true;
                (message.to_vec(), Some(protocol))
            }
            ms::ListenerSelectResult::Rejected { message } => {
                header_received = true;
                (message.to_vec(), None)
            }
        };
        answers_seen += 1;
        if let Some((k, j)) = c.lie {
            if answers_seen - 1 == k as usize && !matches!(accepted, Some(_)) && answer != payload {
                // replace a rejection by a confirmation of a name that is not the current proposal
                let lie_name = name(j);
                if lie_name != dnames[current].to_string() {
                    let with_header = answer.starts_with(&frame(b"/multistream/1.0.0\n"));
                    let mut forged = if with_header { frame(b"/multistream/1.0.0\n") } else { vec![] };
                    forged.extend(frame(format!("{lie_name}\n").as_bytes()));
                    match dialer.register_response(forged) {
                        Ok(ms::HandshakeResult::Succeeded(p)) => fail!("C03/msg-dialer-accepted-unproposed-confirmation", "current proposal {:?}, forged confirmation {lie_name:?} accepted as {p:?}", dnames[current]),
                        _ => {}
                    }
                    return Ok(CaseOk::nontrivial().class("message-variant").class("forged-confirmation-refused"));
                }
            }
        }
        if let Some(p) = &accepted {
            ensure!(listener_accept.is_none(), "C03/msg-listener-accepted-twice", "");
            listener_accept = Some(p.clone());
            ensure!(*p == dnames[current], "C03/msg-listener-accepted-unproposed-protocol", "{p:?} while {:?} was proposed", dnames[current]);
        }
        // deliver the answer to the dialer (possibly in two pieces, possibly with trailing bytes on the final one)
        let mut pieces: Vec<Vec<u8>> = vec![answer.clone()];
        if first_answer && c.split_answer {
            if let Some((h, p)) = split_after_first(&answer) {
                pieces = vec![h, p];
            }
        }
        first_answer = false;
        if accepted.is_some() && !c.trailing.is_empty() {
            // trailing application bytes must be a well-formed continuation for the length-prefixed reader to ignore them only
            // after the decision; they are appended as one extra well-framed message
            let mut t = unsigned_varint::encode::usize(c.trailing.len(), &mut unsigned_varint::encode::usize_buffer()).to_vec();
            t.extend_from_slice(&c.trailing);
            pieces.last_mut().unwrap().extend(t);
        }
        let mut last = None;
        for piece in pieces {
            let r = dialer
                .register_response(piece)
                .map_err(|e| CaseFail::new("C03/msg-dialer-error-on-valid-listener-message", format!("{e:?}")))?;
            last = Some(r);
        }
        match last.unwrap() {
            ms::HandshakeResult::NotReady => {
                // header only so far: nothing to send, the next outbound payload (the protocol) follows
                ensure!(!outbound.is_empty(), "C03/msg-dialer-not-ready-after-full-answer", "");
            }
            ms::HandshakeResult::Succeeded(p) => {
                ensure!(p == dnames[current], "C03/msg-dialer-succeeded-with-other-than-current-proposal", "{p:?}");
                dialer_result = Some(Ok(p));
                break;
            }
            ms::HandshakeResult::Rejected => {
                ensure!(accepted.is_none(), "C03/msg-dialer-rejected-although-listener-accepted", "");
                match dialer.propose_next_fallback().map_err(|e| CaseFail::new("C03/msg-propose-failed", format!("{e:?}")))? {
                    Some(m) => {
                        current += 1;
                        outbound.push(m);
                    }
                    None => {
                        dialer_result = Some(Err(()));
                        break;
                    }
                }
            }
        }
    }
    match (&expected, &dialer_result) {
        (Some(e), Some(Ok(p))) => {
            ensure!(p == e, "C03/msg-dialer-selected-wrong-protocol", "{p:?} vs {e:?}");
            ensure!(listener_accept.as_ref() == Some(e), "C03/msg-listener-selected-wrong-protocol", "{:?} vs {e:?}", listener_accept);
        }
        (None, Some(Err(()))) => {
            ensure!(listener_accept.is_none(), "C03/msg-listener-succeeded-on-disjoint-sets", "");
        }
        (e, r) => fail!("C03/msg-outcome-differs-from-model", "expected {:?}, dialer {:?}, listener {:?}", e, r, listener_accept),
    }
    let rounds = current;
    Ok(CaseOk::trivial()
        .nt(true)
        .class("message-variant")
        .class_if(expected.is_none(), "disjoint")
        .class_if(rounds >= 1, "fallback-rounds")
        .class_if(c.split_first, "header-and-protocol-separate")
        .class_if(!c.trailing.is_empty() && expected.is_some(), "trailing-after-answer"))
}

pub fn run(ctx: &mut Ctx) {
    ctx.rule = "(stream) dialer preference list (1..5 distinct names) and listener set (0..6 names) over an alphabet of short, prefix-related, ~1 KiB, near-limit (16 382 B) and \
        unknown names; version V1 / V1Lazy; pairing litep2p<->litep2p, litep2p dialer <-> multistream-select 0.13 listener, reference dialer <-> litep2p listener; chunk/Pending \
        scripts on all four poll paths; payloads of 0..4 KiB written right after negotiation in both directions. (message variant) WebRtcDialerState against \
        webrtc_listener_negotiate with header/protocol delivered coalesced or separately, answers split, trailing framed bytes. Non-trivial = >= 1 rejection round, or disjoint \
        sets, or a chunked carrier, or a cross-implementation pairing (stream); every message-variant and lying-listener case (a scripted raw peer answers proposals with \
        echoes of other names, case variants, 'na' or a second header); distinct by case hash."
        .into();
    ctx.assumptions = vec![
        "reference = crate multistream-select 0.13.0 (rust-libp2p)".into(),
        "model: expected = first name of the dialer list contained in the listener set; payloads are pseudo-random and are not valid multistream frames".into(),
        "paused tokio clock: a deadlock surfaces as a 1 h virtual timeout".into(),
    ];
    let t = ctx.tier;
    ctx.campaign("stream", CampaignCfg::new(t.pick(30_000, 4_000_000)).shards(16), strategy, run_case);
    ctx.campaign("message", CampaignCfg::new(t.pick(60_000, 8_000_000)).shards(16), msg_strategy, run_msg);
    ctx.campaign("scripted-dialer", CampaignCfg::new(t.pick(20_000, 2_000_000)).shards(16), scripted_dialer_strategy, run_scripted_dialer);
    ctx.campaign("lying-listener", CampaignCfg::new(t.pick(10_000, 2_000_000)).shards(16), liar_strategy, run_liar);
}
