//! C19 through the running protocols: a rogue peer speaks raw bytes on real substreams of every protocol a victim node
//! runs (ping, identify, Kademlia, Bitswap, request-response, notifications) — in both directions: substreams the rogue
//! opens and answers to substreams the victim opens (identify and ping at connection time, Kademlia queries, requests,
//! notification opens). Payloads are the library's own encodings damaged by the mutation operators of the `decoders`
//! campaign, behind correct, missing, lying, overlong or huge length prefixes.
//!
//! Oracle: no litep2p panic on the victim's threads, and the victim keeps serving — afterwards an honest third node
//! connects, gets a request answered and completes a Kademlia lookup through the victim.

use super::c19::{apply, kad_response_encoding, mut_strategy, valid_encoding, Mut, Target};
use crate::common::uvarint;
use crate::engine::{CaseFail, CaseOk, CaseResult};
use crate::f4::{full_address, rr_request, wait_until, Cmd, KadCmd, KadSetup, Log, Node, NodeSetup, NotifSetup, Obs, ObsKind, ProbeCmd, RawReply, RrSetup, NOTIF_PROTOCOL, RR_PROTOCOL};
use crate::{ensure, fail};
use litep2p::PeerId;
use proptest::prelude::*;
use serde::{Deserialize, Serialize};
use std::sync::Arc;
use std::time::Duration;

const PROTOS: [&str; 6] = ["/ipfs/ping/1.0.0", "/ipfs/id/1.0.0", "/ipfs/kad/1.0.0", "/ipfs/bitswap/1.2.0", RR_PROTOCOL, NOTIF_PROTOCOL];

#[derive(Debug, Clone, Serialize, Deserialize)]
pub enum Prefix {
    /// the varint length of the body
    Correct,
    /// no prefix at all
    Absent,
    /// body length plus this
    Off(i8),
    /// one of the special varints (0, 1, 2^7, 2^14, 2^32, 2^63, 2^64-1, overlong, 11 x 0xff)
    Special(u8),
}

#[derive(Debug, Clone, Serialize, Deserialize)]
pub enum Body {
    /// a valid encoding for the protocol's decoder, damaged by `muts`
    Mutated { base: u64, other: u64, muts: Vec<Mut> },
    Noise(Vec<u8>),
    /// `len` bytes of filler
    Filler { len: u32 },
    /// a bitswap want-list asking for the one block the victim has (makes the victim send a block back)
    WantKnownBlock,
}

#[derive(Debug, Clone, Serialize, Deserialize)]
pub struct Frame {
    pub prefix: Prefix,
    pub body: Body,
}

#[derive(Debug, Clone, Serialize, Deserialize)]
pub enum Action {
    /// the rogue opens a substream of protocol `proto` to the victim and writes the frames
    Push { proto: u8, frames: Vec<Frame>, gap_ms: u8, hold_ms: u16 },
    /// from now on the rogue answers substreams the victim opens on `proto` with these frames
    Reply { proto: u8, read_first: bool, frames: Vec<Frame>, hold_ms: u16 },
    /// the victim does something that makes it open a substream to the rogue:
    /// 0 find_node, 1 get_record, 2 put_record, 3 get_providers, 4 start_providing, 5 request, 6 notification open
    Victim { what: u8 },
    /// the rogue drops the connection and dials again (identify and ping run again)
    Reconnect,
    Sleep { ms: u8 },
}

#[derive(Debug, Clone, Serialize, Deserialize)]
pub struct Case {
    pub seed: u64,
    /// replies installed before the first connection (identify and ping open substreams at once)
    pub initial: Vec<Action>,
    pub actions: Vec<Action>,
}

fn frame_strategy() -> impl Strategy<Value = Frame> {
    let prefix = prop_oneof![
        8 => Just(Prefix::Correct),
        1 => Just(Prefix::Absent),
        2 => prop_oneof![Just(-1i8), Just(1), Just(-3), Just(7)].prop_map(Prefix::Off),
        2 => (0u8..9).prop_map(Prefix::Special),
    ];
    let body = prop_oneof![
        10 => (any::<u64>(), any::<u64>(), prop_oneof![2 => Just(vec![]), 5 => prop::collection::vec(mut_strategy(), 1..3), 1 => prop::collection::vec(mut_strategy(), 3..6)]).prop_map(|(base, other, muts)| Body::Mutated { base, other, muts }),
        2 => prop::collection::vec(any::<u8>(), 0..48).prop_map(Body::Noise),
        1 => prop_oneof![Just(0u32), Just(1), Just(31), Just(32), Just(33), Just(1024), Just(1025), Just(70_000)].prop_map(|len| Body::Filler { len }),
        1 => Just(Body::WantKnownBlock),
    ];
    (prefix, body).prop_map(|(prefix, body)| Frame { prefix, body })
}

pub fn strategy() -> impl Strategy<Value = Case> {
    let frames = || prop::collection::vec(frame_strategy(), 1..4);
    let reply = || (0u8..6, any::<bool>(), frames(), prop_oneof![Just(0u16), Just(30), Just(200)]).prop_map(|(proto, read_first, frames, hold_ms)| Action::Reply { proto, read_first, frames, hold_ms });
    let action = prop_oneof![
        10 => (0u8..6, frames(), prop_oneof![Just(0u8), Just(0), Just(2)], prop_oneof![Just(0u16), Just(20), Just(150)]).prop_map(|(proto, frames, gap_ms, hold_ms)| Action::Push { proto, frames, gap_ms, hold_ms }),
        4 => reply(),
        6 => (0u8..7).prop_map(|what| Action::Victim { what }),
        2 => Just(Action::Reconnect),
        2 => prop_oneof![Just(1u8), Just(10), Just(60)].prop_map(|ms| Action::Sleep { ms }),
    ];
    (any::<u64>(), prop::collection::vec(reply(), 0..4), prop::collection::vec(action, 3..14)).prop_map(|(seed, initial, actions)| Case { seed, initial, actions })
}

fn target_of(proto: usize) -> Option<Target> {
    match proto {
        1 => Some(Target::Identify),
        2 => Some(Target::KadMessage),
        3 => Some(Target::BitswapMessage),
        _ => None,
    }
}

fn body_bytes(proto: usize, b: &Body) -> Vec<u8> {
    match b {
        Body::Mutated { base, other, muts } => match target_of(proto) {
            // half of the Kademlia bodies are replies with peers (what the victim reads when it runs a query)
            Some(Target::KadMessage) if base % 2 == 0 => apply(kad_response_encoding(*base), muts, &valid_encoding(Target::KadMessage, *other)),
            Some(t) => apply(valid_encoding(t, *base), muts, &valid_encoding(t, *other)),
            None => {
                // ping: 32 bytes; request-response: a request of the harness' layout; notifications: a small handshake
                let valid = match proto {
                    0 => crate::engine::fill_bytes(*base, 32),
                    4 => rr_request(*base, (*base % 4) as u8, 5, 8, 15 + (*base % 40) as usize),
                    _ => crate::engine::fill_bytes(*base, (*base % 24) as usize),
                };
                apply(valid, muts, &crate::engine::fill_bytes(*other, 40))
            }
        },
        Body::Noise(n) => n.clone(),
        Body::Filler { len } => crate::engine::fill_bytes(*len as u64, *len as usize),
        Body::WantKnownBlock => {
            use prost::Message;
            let mut msg = litep2p::protocol::libp2p::bitswap::verif::SchemaMessage::default();
            let mut wl = msg.wantlist.take().unwrap_or_default();
            wl.entries.push(Default::default());
            let e = wl.entries.last_mut().unwrap();
            e.block = crate::props::c20_cid(b"vh").to_bytes();
            e.priority = 1;
            e.want_type = 0;
            e.send_dont_have = true;
            msg.wantlist = Some(wl);
            msg.encode_to_vec()
        }
    }
}

fn frame_bytes(proto: usize, f: &Frame) -> Vec<u8> {
    let body = body_bytes(proto, &f.body);
    let mut out = match (&f.prefix, proto) {
        // ping frames carry no prefix
        (Prefix::Correct, 0) | (Prefix::Absent, _) => Vec::new(),
        (Prefix::Correct, _) => uvarint(body.len() as u64),
        (Prefix::Off(d), _) => uvarint((body.len() as i64 + *d as i64).max(0) as u64),
        (Prefix::Special(sel), _) => match sel {
            0 => uvarint(0),
            1 => uvarint(1),
            2 => uvarint(1 << 7),
            3 => uvarint(1 << 14),
            4 => uvarint(1 << 32),
            5 => uvarint(1 << 63),
            6 => uvarint(u64::MAX),
            7 => crate::common::uvarint_overlong(5),
            _ => vec![0xff; 11],
        },
    };
    out.extend(body);
    out
}

fn connected(log: &[Obs], node: usize, peer: &PeerId) -> bool {
    let e = log.iter().filter(|o| o.node == node && matches!(&o.kind, ObsKind::ConnEstablished { peer: p, .. } if p == peer)).count();
    let c = log.iter().filter(|o| o.node == node && matches!(&o.kind, ObsKind::ConnClosed { peer: p } if p == peer)).count();
    e > c
}

pub fn run_case(c: &Case) -> CaseResult {
    litep2p::verif::set_kad_executor_timeout_ms(1500);
    let log: Log = Arc::new(parking_lot::Mutex::new(Vec::new()));
    let case_id = crate::f4::new_case_id();
    let honest = |seed: u64| NodeSetup {
        seed,
        keep_alive: Some(Duration::from_secs(20)),
        rr: Some(RrSetup { timeout: Duration::from_millis(800), max_size: 2048, max_concurrent_inbound: None }),
        notif: Some(NotifSetup { auto_accept: false, sync_channel: 16, async_channel: 8, max_size: 2048, handshake: vec![1, 2, 3], policy: 0 }),
        kad: Some(KadSetup { replication_factor: 3 }),
        ping: true,
        ping_interval: Some(Duration::from_millis(50)),
        identify: true,
        bitswap: true,
        connection_open_timeout: Some(Duration::from_millis(2000)),
        substream_open_timeout: Some(Duration::from_millis(1000)),
        case_id,
        ..Default::default()
    };
    let victim = Node::spawn(0, honest(c.seed % 300 + 61_000), log.clone()).map_err(|e| CaseFail::new("C19/harness-node-start-failed", e))?;
    let mut rogue = Node::spawn(
        1,
        NodeSetup {
            seed: c.seed % 300 + 62_000,
            keep_alive: Some(Duration::from_secs(20)),
            probes: PROTOS.len(),
            probe_names: PROTOS.iter().map(|s| s.to_string()).collect(),
            connection_open_timeout: Some(Duration::from_millis(2000)),
            substream_open_timeout: Some(Duration::from_millis(1000)),
            case_id,
            ..Default::default()
        },
        log.clone(),
    )
    .map_err(|e| CaseFail::new("C19/harness-node-start-failed", e))?;
    let (pv, pr) = (victim.peer, rogue.peer);
    let addr_v = full_address(&victim);
    let addr_r = full_address(&rogue);
    let mut pushes = [0usize; 6];
    let mut replies = [0usize; 6];
    let mut victim_ops = 0usize;

    let mut install = |a: &Action, replies: &mut [usize; 6]| {
        if let Action::Reply { proto, read_first, frames, hold_ms } = a {
            let p = *proto as usize % 6;
            let chunks = frames.iter().map(|f| frame_bytes(p, f)).collect();
            let _ = rogue.probes[p].send(ProbeCmd::SetReply(Some(RawReply { read_first: *read_first, chunks, hold_ms: *hold_ms })));
            replies[p] += 1;
        }
    };
    for a in &c.initial {
        install(a, &mut replies);
    }
    // the victim knows the rogue as a Kademlia peer (so that its queries go there)
    victim.send(Cmd::Kad(KadCmd::AddKnownPeer(pr, vec![addr_r.clone()])));
    let connect = |log: &Log| -> Result<(), CaseFail> {
        rogue.send(Cmd::DialAddress(addr_v.clone()));
        let ok = wait_until(log, Duration::from_millis(3000), |l| connected(l, 1, &pv) && connected(l, 0, &pr));
        if !ok {
            return Err(CaseFail::new("C19/harness-calibration-failed", "rogue and victim did not connect within 3 s"));
        }
        Ok(())
    };
    connect(&log)?;
    let mut req_n = 0u64;
    for a in &c.actions {
        match a {
            Action::Push { proto, frames, gap_ms, hold_ms } => {
                let p = *proto as usize % 6;
                let chunks: Vec<Vec<u8>> = frames.iter().map(|f| frame_bytes(p, f)).collect();
                let _ = rogue.probes[p].send(ProbeCmd::RawOpen { peer: pv, chunks, gap_ms: *gap_ms as u16, hold_ms: *hold_ms });
                pushes[p] += 1;
                std::thread::sleep(Duration::from_millis(2));
            }
            Action::Reply { .. } => install(a, &mut replies),
            Action::Victim { what } => {
                victim_ops += 1;
                req_n += 1;
                let key = vec![(req_n % 5) as u8, 7, 7];
                match what % 7 {
                    0 => victim.send(Cmd::Kad(KadCmd::FindNode(crate::common::peer_from_seed(900 + req_n)))),
                    1 => victim.send(Cmd::Kad(KadCmd::GetRecord { key, quorum: 0 })),
                    2 => victim.send(Cmd::Kad(KadCmd::PutRecord { key, value: vec![1, 2, 3], quorum: 0 })),
                    3 => victim.send(Cmd::Kad(KadCmd::GetProviders { key })),
                    4 => victim.send(Cmd::Kad(KadCmd::StartProviding { key, quorum: 0 })),
                    5 => victim.send(Cmd::RrSend { peer: pr, payload: rr_request(req_n, 0, 0, 8, 20), dial: false }),
                    _ => victim.send(Cmd::NotifOpen(pr)),
                }
                std::thread::sleep(Duration::from_millis(3));
            }
            Action::Reconnect => {
                if connected(&log.lock(), 1, &pv) {
                    let _ = rogue.probes[0].send(ProbeCmd::ForceClose(pv));
                    let gone = wait_until(&log, Duration::from_millis(3000), |l| !connected(l, 1, &pv) && !connected(l, 0, &pr));
                    if !gone {
                        // the victim must notice a closed socket
                        break;
                    }
                }
                connect(&log)?;
            }
            Action::Sleep { ms } => std::thread::sleep(Duration::from_millis(*ms as u64)),
        }
    }
    std::thread::sleep(Duration::from_millis(150));

    // ---- oracle ----
    let litep2p_panics: Vec<_> = crate::f4::case_panics(case_id).into_iter().filter(|p| p.thread.ends_with("-node0") || p.thread.ends_with("-node2")).collect();
    if let Some(p) = litep2p_panics.iter().find(|p| p.location.contains("/repo/src") || p.location.starts_with("src/")) {
        fail!(format!("panic@{}", p.location), "the victim panicked while a rogue peer talked to it: {}", p.message);
    }
    if let Some(p) = litep2p_panics.first() {
        fail!(format!("panic@{}", p.location), "a thread of the victim panicked (outside litep2p's sources) while a rogue peer talked to it: {}", p.message);
    }
    // the rogue disappears (its address in the victim's routing table now refuses connections)
    rogue.kill();
    // the victim still serves others: an honest node connects, gets a request answered and a lookup done
    let helper = Node::spawn(2, honest(c.seed % 300 + 63_000), log.clone()).map_err(|e| CaseFail::new("C19/harness-node-start-failed", e))?;
    let ph = helper.peer;
    // up to three attempts: a single dial between healthy nodes fails about once in 35 000 on a busy machine
    let mut up = false;
    for _ in 0..3 {
        helper.send(Cmd::DialAddress(addr_v.clone()));
        if wait_until(&log, Duration::from_millis(3000), |l| connected(l, 2, &pv) && connected(l, 0, &ph)) {
            up = true;
            break;
        }
    }
    if !up {
        if !crate::f4::control_pair_works(case_id, c.seed) {
            return Err(CaseFail::new("C19/harness-machine-too-busy", "a control pair of fresh nodes could not connect and exchange a request either"));
        }
        fail!("C19/victim-stopped-serving/connect", "after the rogue's session an honest node cannot connect to the victim (3 attempts, 9 s)");
    }
    helper.send(Cmd::RrSend { peer: pv, payload: rr_request(777, 0, 0, 8, 20), dial: false });
    let answered = wait_until(&log, Duration::from_millis(4000), |l| l.iter().any(|o| o.node == 2 && matches!(&o.kind, ObsKind::RrResponse { .. })));
    if !answered {
        if !crate::f4::control_pair_works(case_id, c.seed) {
            return Err(CaseFail::new("C19/harness-machine-too-busy", "a control pair of fresh nodes could not connect and exchange a request either"));
        }
        fail!("C19/victim-stopped-serving/request", "after the rogue's session the victim does not answer an honest node's request within 4 s");
    }
    helper.send(Cmd::Kad(KadCmd::AddKnownPeer(pv, vec![addr_v.clone()])));
    helper.send(Cmd::Kad(KadCmd::FindNode(crate::common::peer_from_seed(4242))));
    let looked_up = wait_until(&log, Duration::from_millis(8000), |l| l.iter().any(|o| o.node == 2 && matches!(&o.kind, ObsKind::KadEvent { query: Some(_), kind, .. } if kind == "FindNodeSuccess" || kind == "QueryFailed")));
    if !looked_up {
        if !crate::f4::control_pair_works(case_id, c.seed) {
            return Err(CaseFail::new("C19/harness-machine-too-busy", "a control pair of fresh nodes could not connect and exchange a request either"));
        }
        fail!("C19/victim-stopped-serving/kademlia", "after the rogue's session an honest node's lookup through the victim does not finish within 8 s");
    }
    let success = log.lock().iter().any(|o| o.node == 2 && matches!(&o.kind, ObsKind::KadEvent { kind, .. } if kind == "FindNodeSuccess"));
    if !success {
        if !crate::f4::control_pair_works(case_id, c.seed) {
            return Err(CaseFail::new("C19/harness-machine-too-busy", "a control pair of fresh nodes could not connect and exchange a request either"));
        }
        fail!("C19/victim-stopped-serving/kademlia", "after the rogue's session the victim's Kademlia no longer answers FIND_NODE (the honest node's lookup failed)");
    }
    for p in crate::f4::case_panics(case_id).into_iter().filter(|p| p.thread.ends_with("-node0") || p.thread.ends_with("-node2")) {
        fail!(format!("panic@{}", p.location), "the victim panicked: {}", p.message);
    }
    let kinds = pushes.iter().filter(|n| **n > 0).count();
    Ok(CaseOk::trivial()
        .nt(kinds >= 2 || replies.iter().any(|n| *n > 0))
        .class_if(pushes[2] > 0, "pushed-kademlia")
        .class_if(pushes[3] > 0, "pushed-bitswap")
        .class_if(pushes[1] > 0 || replies[1] > 0, "identify-exercised")
        .class_if(pushes[4] > 0 || pushes[5] > 0, "pushed-request-or-notification")
        .class_if(replies.iter().any(|n| *n > 0), "rogue-answers-victim-substreams")
        .class_if(victim_ops > 0 && replies[2] > 0, "victim-kademlia-query-answered-by-rogue"))
}
