//! C17 — the DHT record and provider store respects its bounds and freshness rules.
//!
//! Stateful generation: `vec(op)` interpreted against the real `MemoryStore` and a small reference
//! model; after every operation the store's answers are compared with the model where the statement
//! (and the documented lazy-pruning behaviour) determines the outcome, and the statement's invariants
//! (bounds, freshness, sortedness by SHA-256 XOR distance, in-place update) are checked independently.

use crate::common::peer_from_seed;
use crate::engine::{fill_bytes, CampaignCfg, CaseFail, CaseOk, CaseResult, Ctx};
use crate::{ensure, fail};
use litep2p::protocol::libp2p::kademlia::verif::{MemoryStore, MemoryStoreConfig};
use litep2p::protocol::libp2p::kademlia::{ContentProvider, Quorum, Record, RecordKey};
use litep2p::PeerId;
use multiaddr::Multiaddr;
use proptest::prelude::*;
use serde::{Deserialize, Serialize};
use sha2::{Digest, Sha256};
use std::collections::{BTreeMap, BTreeSet};
use std::time::{Duration, Instant};

#[derive(Debug, Clone, Copy, Serialize, Deserialize, PartialEq, Eq, PartialOrd, Ord)]
pub enum Exp {
    None,
    Past,
    Plus1h,
    Plus2h,
}

#[derive(Debug, Clone, Serialize, Deserialize)]
pub enum Op {
    Put { key: u8, len: u16, exp: Exp, tag: u8 },
    Get { key: u8 },
    PutProvider { key: u8, provider: u8, addrs: u8 },
    GetProviders { key: u8 },
    PutLocal { key: u8 },
    RemoveLocal { key: u8 },
}

#[derive(Debug, Clone, Serialize, Deserialize)]
pub struct Case {
    pub max_records: u16,
    pub max_record_size: u32,
    pub max_provider_keys: u16,
    pub max_provider_addresses: u8,
    pub max_providers_per_key: u8,
    pub ttl_zero: bool,
    pub ops: Vec<Op>,
}

fn bound() -> impl Strategy<Value = u16> {
    prop_oneof![Just(0u16), Just(1), Just(2), Just(5), Just(1024)]
}

fn strategy(max_ops: usize) -> impl Strategy<Value = Case> {
    let key = 0u8..6;
    let op = prop_oneof![
        4 => (key.clone(), prop_oneof![Just(0u16), Just(1), Just(2), Just(4), Just(5), Just(6), 0u16..12, Just(200)],
              prop_oneof![Just(Exp::None), Just(Exp::Past), Just(Exp::Plus1h), Just(Exp::Plus2h)], any::<u8>())
            .prop_map(|(key, len, exp, tag)| Op::Put { key, len, exp, tag }),
        2 => key.clone().prop_map(|key| Op::Get { key }),
        5 => (key.clone(), 0u8..10, 0u8..7).prop_map(|(key, provider, addrs)| Op::PutProvider { key, provider, addrs }),
        2 => key.clone().prop_map(|key| Op::GetProviders { key }),
        1 => key.clone().prop_map(|key| Op::PutLocal { key }),
        1 => key.clone().prop_map(|key| Op::RemoveLocal { key }),
    ];
    (
        bound(),
        prop_oneof![Just(0u32), Just(1), Just(2), Just(5), Just(65536)],
        bound(),
        prop_oneof![Just(0u8), Just(1), Just(2), Just(5)],
        prop_oneof![Just(1u8), Just(2), Just(3), Just(5), Just(20)],
        prop::bool::weighted(0.15),
        prop::collection::vec(op, 1..max_ops),
    )
        .prop_map(|(max_records, max_record_size, max_provider_keys, max_provider_addresses, max_providers_per_key, ttl_zero, ops)| Case {
            max_records,
            max_record_size,
            max_provider_keys,
            max_provider_addresses,
            max_providers_per_key,
            ttl_zero,
            ops,
        })
}

fn key_bytes(k: u8) -> Vec<u8> {
    vec![b'k', k]
}

fn xor_distance(peer: &PeerId, key: &[u8]) -> [u8; 32] {
    let a = Sha256::digest(peer.to_bytes());
    let b = Sha256::digest(key);
    let mut out = [0u8; 32];
    for i in 0..32 {
        out[i] = a[i] ^ b[i];
    }
    out
}

fn addr(provider: u8, i: u8) -> Multiaddr {
    format!("/ip4/10.{}.{}.1/tcp/{}", provider, i, 1000 + i as u16).parse().unwrap()
}

#[derive(Clone)]
struct MRecord {
    value: Vec<u8>,
    exp: Exp,
}

struct Model {
    records: BTreeMap<u8, MRecord>,
    /// per key: providers sorted by distance
    providers: BTreeMap<u8, Vec<(PeerId, Vec<Multiaddr>)>>,
    local: BTreeSet<u8>,
}

fn instant_for(base: Instant, past: Instant, e: Exp) -> Option<Instant> {
    match e {
        Exp::None => None,
        Exp::Past => Some(past),
        Exp::Plus1h => Some(base + Duration::from_secs(3600)),
        Exp::Plus2h => Some(base + Duration::from_secs(7200)),
    }
}

fn run_case(c: &Case) -> CaseResult {
    let local = peer_from_seed(0xC17);
    let peers: Vec<PeerId> = (0..10).map(|i| peer_from_seed(0xC17_00 + i as u64 + 1)).collect();
    let base = Instant::now();
    let past = base
        .checked_sub(Duration::from_secs(3600))
        .or_else(|| base.checked_sub(Duration::from_secs(60)))
        .or_else(|| base.checked_sub(Duration::from_secs(5)));
    let Some(past) = past else {
        return Ok(CaseOk::trivial().class("no-past-instant-available"));
    };
    let cfg = MemoryStoreConfig {
        max_records: c.max_records as usize,
        max_record_size_bytes: c.max_record_size as usize,
        max_provider_keys: c.max_provider_keys as usize,
        max_provider_addresses: c.max_provider_addresses as usize,
        max_providers_per_key: c.max_providers_per_key as usize,
        provider_refresh_interval: Duration::from_secs(22 * 3600),
        provider_ttl: if c.ttl_zero { Duration::ZERO } else { Duration::from_secs(3600) },
    };
    let max_rec = cfg.max_records;
    let max_size = cfg.max_record_size_bytes;
    let max_pkeys = cfg.max_provider_keys;
    let max_paddr = cfg.max_provider_addresses;
    let max_ppk = cfg.max_providers_per_key;
    let mut store = MemoryStore::with_config(local, cfg);
    let mut m = Model {
        records: BTreeMap::new(),
        providers: BTreeMap::new(),
        local: BTreeSet::new(),
    };
    // once an outcome the statement leaves open was observed, record counting is no longer predicted
    let mut records_exact = true;
    let mut hit_bound = false;
    let mut replaced = false;
    let mut excluded = false;
    let mut all_puts: BTreeMap<u8, Vec<(Vec<u8>, Exp)>> = BTreeMap::new();

    for (step, op) in c.ops.iter().enumerate() {
        match op {
            Op::Put { key, len, exp, tag } => {
                let mut value = fill_bytes(*tag as u64, *len as usize);
                if let Some(b) = value.first_mut() {
                    *b = *tag;
                }
                let rec = Record {
                    key: RecordKey::from(key_bytes(*key)),
                    value: value.clone(),
                    publisher: if tag % 3 == 0 { Some(peers[(*tag % 10) as usize]) } else { None },
                    expires: instant_for(base, past, *exp),
                };
                all_puts.entry(*key).or_default().push((value.clone(), *exp));
                store.put(rec);
                // model
                if value.len() > max_size {
                    hit_bound = true; // must be refused
                } else if value.len() == max_size {
                    // "larger than configured" must be refused; the code (and its unit test) also refuses == max.
                    // Either outcome is within the statement: observe and follow.
                    hit_bound = true;
                    let got = store.get(&RecordKey::from(key_bytes(*key))).cloned();
                    match got {
                        Some(r) if r.value == value && r.expires == instant_for(base, past, *exp) => {
                            m.records.insert(*key, MRecord { value: value.clone(), exp: *exp });
                        }
                        Some(_) => {}
                        None => {
                            m.records.remove(key);
                        }
                    }
                } else if let Some(old) = m.records.get(key).cloned() {
                    let keep_old = matches!((old.exp, *exp), (o, n) if o != Exp::None && n != Exp::None && o > n);
                    if keep_old {
                        replaced = true;
                    } else {
                        replaced = true;
                        m.records.insert(*key, MRecord { value: value.clone(), exp: *exp });
                    }
                } else if m.records.len() >= max_rec {
                    hit_bound = true;
                    // occupancy may include expired, not yet pruned records (lazy pruning, as documented by `get`)
                    if m.records.values().any(|r| r.exp == Exp::Past) {
                        records_exact = false;
                    }
                } else {
                    m.records.insert(*key, MRecord { value: value.clone(), exp: *exp });
                }
            }
            Op::Get { key } => {
                let got = store.get(&RecordKey::from(key_bytes(*key))).cloned();
                let expect = m.records.get(key).cloned();
                // invariants straight from the statement
                if let Some(r) = &got {
                    ensure!(!r.is_expired(Instant::now()), "C17/get-returned-expired-record", "step {step} key {key}");
                    ensure!(r.value.len() <= max_size, "C17/stored-value-larger-than-configured", "step {step}: {} > {}", r.value.len(), max_size);
                    let puts = all_puts.get(key).cloned().unwrap_or_default();
                    ensure!(puts.iter().any(|(v, _)| *v == r.value), "C17/get-returned-value-never-put", "step {step} key {key}");
                }
                if records_exact {
                    match (&got, &expect) {
                        (None, None) => {}
                        (None, Some(e)) if e.exp == Exp::Past => {
                            m.records.remove(key);
                        }
                        (Some(g), Some(e)) if e.exp != Exp::Past && g.value == e.value => {
                            ensure!(g.expires == instant_for(base, past, e.exp), "C17/record-expiry-differs-from-winner", "step {step} key {key}");
                        }
                        (g, e) => fail!(
                            "C17/get-differs-from-model",
                            "step {step} key {key}: store {:?} model {:?}",
                            g.as_ref().map(|r| (r.value.len(), r.expires.is_some())),
                            e.as_ref().map(|r| (r.value.len(), r.exp))
                        ),
                    }
                } else if got.is_none() {
                    m.records.remove(key);
                }
            }
            Op::PutProvider { key, provider, addrs } => {
                let peer = peers[*provider as usize];
                let addresses: Vec<Multiaddr> = (0..*addrs).map(|i| addr(*provider, i)).collect();
                let ret = store.put_provider(
                    RecordKey::from(key_bytes(*key)),
                    ContentProvider {
                        peer,
                        addresses: addresses.clone(),
                    },
                );
                if c.ttl_zero {
                    continue; // everything expires at once: only the freshness invariant is checked (GetProviders)
                }
                let (exp_ret, hb, rp) = model_put_provider(&mut m, *key, peer, addresses, max_pkeys, max_ppk, max_paddr);
                hit_bound |= hb;
                replaced |= rp;
                ensure!(ret == exp_ret, "C17/put_provider-return-differs-from-model", "step {step} key {key} provider {provider}: store {ret} model {exp_ret}");
            }
            Op::PutLocal { key } => {
                let ret = store.put_local_provider(RecordKey::from(key_bytes(*key)), Quorum::One);
                if c.ttl_zero {
                    if ret {
                        m.local.insert(*key);
                    }
                    continue;
                }
                let (exp_ret, hb, rp) = model_put_provider(&mut m, *key, local, vec![], max_pkeys, max_ppk, max_paddr);
                hit_bound |= hb;
                replaced |= rp;
                ensure!(ret == exp_ret, "C17/put_local_provider-return-differs-from-model", "step {step} key {key}: store {ret} model {exp_ret}");
                if ret {
                    m.local.insert(*key);
                }
            }
            Op::RemoveLocal { key } => {
                if c.ttl_zero {
                    // removal after expiry reaches a debug assertion that is outside this property's statement
                    excluded = true;
                    continue;
                }
                if m.local.contains(key) {
                    let present = m.providers.get(key).map(|v| v.iter().any(|(p, _)| *p == local)).unwrap_or(false);
                    if !present {
                        // the local provider was displaced by closer providers: `remove_local_provider` then hits a
                        // debug assertion (panic in debug builds, error log in release). Outside the statement of C17;
                        // steered away from and counted.
                        excluded = true;
                        continue;
                    }
                    store.remove_local_provider(RecordKey::from(key_bytes(*key)));
                    m.local.remove(key);
                    let list = m.providers.get_mut(key).unwrap();
                    list.retain(|(p, _)| *p != local);
                    if list.is_empty() {
                        m.providers.remove(key);
                    }
                } else {
                    store.remove_local_provider(RecordKey::from(key_bytes(*key)));
                }
            }
            Op::GetProviders { key } => {
                let got = store.get_providers(&RecordKey::from(key_bytes(*key)));
                check_providers(&got, *key, max_ppk, max_paddr, step)?;
                if c.ttl_zero {
                    ensure!(got.is_empty(), "C17/get_providers-returned-expired-provider", "step {step} key {key}: {} providers with ttl 0", got.len());
                    continue;
                }
                let expect: Vec<(PeerId, Vec<Multiaddr>)> = m.providers.get(key).cloned().unwrap_or_default();
                let got_v: Vec<(PeerId, Vec<Multiaddr>)> = got.iter().map(|p| (p.peer, p.addresses.clone())).collect();
                ensure!(
                    got_v == expect,
                    "C17/get_providers-differs-from-model",
                    "step {step} key {key}: store {:?} model {:?}",
                    got_v.iter().map(|(p, a)| (p.to_base58()[40..].to_string(), a.len())).collect::<Vec<_>>(),
                    expect.iter().map(|(p, a)| (p.to_base58()[40..].to_string(), a.len())).collect::<Vec<_>>()
                );
            }
        }
    }
    // final scan: every key
    for key in 0u8..6 {
        let got = store.get_providers(&RecordKey::from(key_bytes(key)));
        check_providers(&got, key, max_ppk, max_paddr, usize::MAX)?;
        if c.ttl_zero {
            ensure!(got.is_empty(), "C17/get_providers-returned-expired-provider", "final key {key}");
        } else {
            let expect: Vec<(PeerId, Vec<Multiaddr>)> = m.providers.get(&key).cloned().unwrap_or_default();
            let got_v: Vec<(PeerId, Vec<Multiaddr>)> = got.iter().map(|p| (p.peer, p.addresses.clone())).collect();
            ensure!(got_v == expect, "C17/get_providers-differs-from-model", "final key {key}");
        }
    }
    let mut live = 0usize;
    for key in 0u8..6 {
        if let Some(r) = store.get(&RecordKey::from(key_bytes(key))).cloned() {
            live += 1;
            ensure!(!r.is_expired(Instant::now()), "C17/get-returned-expired-record", "final key {key}");
            ensure!(r.value.len() <= max_size, "C17/stored-value-larger-than-configured", "final key {key}");
            if records_exact {
                let e = m.records.get(&key);
                ensure!(
                    e.map(|e| e.exp != Exp::Past && e.value == r.value).unwrap_or(false),
                    "C17/get-differs-from-model",
                    "final key {key}: store has a record the model does not"
                );
            }
        } else if records_exact {
            ensure!(
                m.records.get(&key).map(|e| e.exp == Exp::Past).unwrap_or(true),
                "C17/get-differs-from-model",
                "final key {key}: model has a live record the store lost"
            );
        }
    }
    ensure!(live <= max_rec, "C17/more-records-than-configured", "{live} > {max_rec}");
    let pkeys = (0u8..6).filter(|k| !store.get_providers(&RecordKey::from(key_bytes(*k))).is_empty()).count();
    ensure!(pkeys <= max_pkeys, "C17/more-provider-keys-than-configured", "{pkeys} > {max_pkeys}");
    let mut ok = CaseOk::trivial()
        .nt(hit_bound || replaced)
        .class_if(hit_bound, "hit-bound")
        .class_if(replaced, "replaced-or-updated")
        .class_if(!records_exact, "records-outcome-left-open")
        .class_if(c.ttl_zero, "ttl-zero");
    ok.excluded = excluded;
    Ok(ok)
}

fn model_put_provider(
    m: &mut Model,
    key: u8,
    peer: PeerId,
    mut addresses: Vec<Multiaddr>,
    max_pkeys: usize,
    max_ppk: usize,
    max_paddr: usize,
) -> (bool, bool, bool) {
    addresses.truncate(max_paddr);
    let kb = key_bytes(key);
    if !m.providers.contains_key(&key) {
        if m.providers.len() < max_pkeys {
            m.providers.insert(key, vec![(peer, addresses)]);
            return (true, false, false);
        }
        return (false, true, false);
    }
    let list = m.providers.get_mut(&key).unwrap();
    if let Some(slot) = list.iter_mut().find(|(p, _)| *p == peer) {
        slot.1 = addresses;
        return (true, false, true);
    }
    list.push((peer, addresses));
    list.sort_by_key(|(p, _)| xor_distance(p, &kb));
    if list.len() > max_ppk {
        let dropped = list.pop().unwrap();
        return (dropped.0 != peer, true, false);
    }
    (true, false, false)
}

fn check_providers(got: &[ContentProvider], key: u8, max_ppk: usize, max_paddr: usize, step: usize) -> Result<(), CaseFail> {
    let kb = key_bytes(key);
    ensure!(got.len() <= max_ppk, "C17/more-providers-per-key-than-configured", "step {step} key {key}: {} > {max_ppk}", got.len());
    for w in got.windows(2) {
        ensure!(
            xor_distance(&w[0].peer, &kb) < xor_distance(&w[1].peer, &kb),
            "C17/providers-not-sorted-by-distance",
            "step {step} key {key}"
        );
    }
    for p in got {
        ensure!(p.addresses.len() <= max_paddr, "C17/more-addresses-per-provider-than-configured", "step {step} key {key}: {} > {max_paddr}", p.addresses.len());
    }
    Ok(())
}

// ---------------------------------------------------------------------------------------------
// provider expiry in real time: providers of one key that expire at different moments (the store stamps them itself with
// `Instant::now() + provider_ttl`, so only waiting can make one of them stale while its neighbour is fresh)

const EXP_TTL_MS: u64 = 150;

#[derive(Debug, Clone, Serialize, Deserialize)]
pub enum EOp {
    Put { key: u8, provider: u8, addrs: u8 },
    Get { key: u8 },
    Wait { ms: u8 },
}

#[derive(Debug, Clone, Serialize, Deserialize)]
pub struct ExpCase {
    pub max_provider_keys: u8,
    pub max_providers_per_key: u8,
    pub max_provider_addresses: u8,
    pub ops: Vec<EOp>,
}

fn exp_strategy() -> impl Strategy<Value = ExpCase> {
    let op = prop_oneof![
        6 => (0u8..4, 0u8..5, 0u8..3).prop_map(|(key, provider, addrs)| EOp::Put { key, provider, addrs }),
        1 => (0u8..4).prop_map(|key| EOp::Get { key }),
        3 => prop_oneof![Just(60u8), Just(100), Just(170)].prop_map(|ms| EOp::Wait { ms }),
    ];
    (1u8..4, prop_oneof![Just(1u8), Just(2), Just(5)], 0u8..3, prop::collection::vec(op, 3..14)).prop_map(|(max_provider_keys, max_providers_per_key, max_provider_addresses, ops)| ExpCase {
        max_provider_keys,
        max_providers_per_key,
        max_provider_addresses,
        ops,
    })
}

fn run_exp(c: &ExpCase) -> CaseResult {
    let local = peer_from_seed(0xC17);
    let peers: Vec<PeerId> = (0..5).map(|i| peer_from_seed(0xC17_00 + i as u64 + 1)).collect();
    let ttl = Duration::from_millis(EXP_TTL_MS);
    let cfg = MemoryStoreConfig {
        max_records: 8,
        max_record_size_bytes: 64,
        max_provider_keys: c.max_provider_keys as usize,
        max_provider_addresses: c.max_provider_addresses as usize,
        max_providers_per_key: c.max_providers_per_key as usize,
        provider_refresh_interval: Duration::from_secs(22 * 3600),
        provider_ttl: ttl,
    };
    let (max_pkeys, max_ppk, max_paddr) = (cfg.max_provider_keys, cfg.max_providers_per_key, cfg.max_provider_addresses);
    let mut store = MemoryStore::with_config(local, cfg);
    // latest accepted announcement per (key, provider): the moments just before and just after the call
    let mut accepted: BTreeMap<(u8, u8), (Instant, Instant)> = BTreeMap::new();
    let mut announced: BTreeMap<u8, BTreeSet<u8>> = BTreeMap::new();
    let mut waited = false;
    let mut mixed = false;
    let mut judge = |store: &mut MemoryStore, accepted: &BTreeMap<(u8, u8), (Instant, Instant)>, announced: &BTreeMap<u8, BTreeSet<u8>>, key: u8, step: usize| -> Result<usize, CaseFail> {
        let q0 = Instant::now();
        let got = store.get_providers(&RecordKey::from(key_bytes(key)));
        let q1 = Instant::now();
        check_providers(&got, key, max_ppk, max_paddr, step)?;
        for p in &got {
            let idx = peers.iter().position(|x| *x == p.peer);
            let Some(idx) = idx else { fail!("C17/get_providers-returned-a-provider-never-announced", "step {step} key {key}") };
            let Some((_, after)) = accepted.get(&(key, idx as u8)) else { fail!("C17/get_providers-returned-a-provider-never-announced", "step {step} key {key} provider {idx}") };
            ensure!(q0 < *after + ttl, "C17/get_providers-returned-expired-provider", "step {step} key {key} provider {idx}: announced {:?} before the query, ttl {:?}", q0 - *after, ttl);
        }
        // floor: an accepted provider that is certainly still fresh and cannot have been displaced (the key never saw more
        // providers than fit) is returned
        let distinct = announced.get(&key).map(|s| s.len()).unwrap_or(0);
        if distinct <= max_ppk {
            for ((k, pr), (before, _)) in accepted.iter() {
                if *k == key && q1 < *before + ttl {
                    ensure!(got.iter().any(|p| p.peer == peers[*pr as usize]), "C17/accepted-fresh-provider-not-returned", "step {step} key {key} provider {pr}");
                }
            }
        }
        Ok(got.len())
    };
    for (step, op) in c.ops.iter().enumerate() {
        match op {
            EOp::Put { key, provider, addrs } => {
                let addresses: Vec<Multiaddr> = (0..*addrs).map(|i| addr(*provider, i)).collect();
                let before = Instant::now();
                let ret = store.put_provider(RecordKey::from(key_bytes(*key)), ContentProvider { peer: peers[*provider as usize], addresses });
                let after = Instant::now();
                announced.entry(*key).or_default().insert(*provider);
                if ret {
                    if waited && accepted.iter().any(|((k, pr), (_, a))| k == key && pr != provider && before >= *a + ttl) {
                        mixed = true;
                    }
                    accepted.insert((*key, *provider), (before, after));
                }
            }
            EOp::Get { key } => {
                judge(&mut store, &accepted, &announced, *key, step)?;
            }
            EOp::Wait { ms } => {
                std::thread::sleep(Duration::from_millis(*ms as u64));
                waited = true;
            }
        }
    }
    // final scan: every key; the keys that still have providers are keys the store holds
    let mut held = 0usize;
    for key in 0u8..4 {
        if judge(&mut store, &accepted, &announced, key, usize::MAX)? > 0 {
            held += 1;
        }
    }
    ensure!(held <= max_pkeys, "C17/more-provider-keys-than-configured", "{held} keys with providers, max_provider_keys {max_pkeys}");
    Ok(CaseOk::trivial().nt(waited).class_if(mixed, "stale-and-fresh-providers-under-one-key").class_if(held == max_pkeys, "key-table-full-at-the-end"))
}

pub fn run(ctx: &mut Ctx) {
    ctx.rule = "case = store configuration (each bound from {0,1,2,5,large}; providers-per-key >= 1; provider ttl 0 or 1 h) + history of \
        put/get/put_provider/get_providers/put_local_provider/remove_local_provider over 6 colliding keys and 10 providers, record expiry in \
        {none, 1 h ago, +1 h, +2 h}. Non-trivial = the history hits a bound (size, record count, provider keys, providers per key) or replaces/updates an \
        existing entry; distinct by case hash. (provider-expiry) provider ttl 150 ms in real time, put_provider / get_providers / wait 60..170 ms \
        over 4 keys and 5 providers, key bound 1..3, per-key bound 1/2/5: no provider is returned whose latest accepted announcement certainly lies a ttl back, an accepted and \
        certainly fresh provider that cannot have been displaced is returned, per-key bound / order / address cap hold, and the keys that still have providers at the end are \
        at most the key bound; non-trivial = the history waits."
        .into();
    ctx.assumptions = vec![
        "provider-expiry: the announcement instant lies between the clock readings taken around the call; outcomes are judged only where both readings agree".into(),
        "expiry instants are at least 5 s (normally 1 h) away from now, so the real clock cannot flip an outcome".into(),
        "outcomes the statement leaves open (value size == limit; new key when the store is full of expired-unpruned records) are accepted either way".into(),
        "remove_local_provider after the local provider was displaced/expired reaches a debug assertion outside this statement; steered away from and counted as excluded".into(),
    ];
    let t = ctx.tier;
    ctx.campaign("history", CampaignCfg::new(t.pick(40_000, 7_500_000)).shards(t.pick(8, 16)), || strategy(60), run_case);
    ctx.campaign("long-history", CampaignCfg::new(t.pick(2_000, 300_000)).shards(t.pick(8, 16)), || strategy(400), run_case);
    ctx.campaign("provider-expiry", CampaignCfg::new(t.pick(1_600, 40_000)).shards(48).shrink_iters(40), exp_strategy, run_exp);
}
