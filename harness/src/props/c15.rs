//! C15 — iterative Kademlia lookups terminate with the closest responsive peers.
//!
//! The real `QueryEngine` (one query per engine) is stepped action by action against a generated
//! small network (who returns whom, liars, failing and silent peers) under a generated schedule
//! (random) or under all schedules (exhaustive DFS by re-execution for tiny networks).
//! Oracle = invariants over the action history.

use crate::engine::{CampaignCfg, CaseFail, CaseOk, CaseResult, Ctx, SplitMix};
use crate::props::c14::{key_of_peer, peer_of_index};
use crate::{ensure, fail};
use litep2p::protocol::libp2p::kademlia::verif::{ConnectionType, KademliaMessage, KademliaPeer, QueryAction, QueryEngine};
use litep2p::protocol::libp2p::kademlia::{ContentProvider, QueryId, Quorum, Record, RecordKey};
use litep2p::PeerId;
use multiaddr::Multiaddr;
use proptest::prelude::*;
use serde::{Deserialize, Serialize};
use sha2::{Digest, Sha256};
use std::collections::{BTreeMap, BTreeSet, VecDeque};
use std::num::NonZeroUsize;
use std::sync::atomic::{AtomicU64, Ordering};
use std::time::{Duration, Instant};

const UNIVERSE: usize = 16;
const LOCAL: u8 = 200;

#[derive(Debug, Clone, Serialize, Deserialize)]
pub enum Kind {
    FindNode { target: u8 },
    PutRecord { key: u8 },
    AddProvider { key: u8 },
    /// quorum: 0 = One, 255 = All, n = N(n); holders: peer -> 0 none, 1 fresh record, 2 expired record, 3 record without expiry
    GetRecord { key: u8, quorum: u8, local_record: bool, holders: Vec<u8> },
    /// providers[i] = provider indices returned by peer i; known = locally known providers
    GetProviders { key: u8, providers: Vec<Vec<u8>>, known: Vec<u8> },
}

#[derive(Debug, Clone, Serialize, Deserialize)]
pub struct Case {
    /// knows[i] = peer indices peer i returns (LOCAL = the local node; duplicates allowed)
    pub knows: Vec<Vec<u8>>,
    /// 0 answers, 1 fails, 2 silent (fails only when nothing else can happen), 3 answers with a message of the wrong kind
    pub behaviour: Vec<u8>,
    pub seeds: Vec<u8>,
    pub k: u8,
    pub alpha: u8,
    pub kind: Kind,
    pub schedule: Vec<u8>,
    /// base of the peer-id pool (different networks use different ids)
    pub base: u16,
}

fn peer(base: u16, i: u8) -> PeerId {
    peer_of_index(base as u32 * 256 + i as u32)
}

fn kad_peer(base: u16, i: u8) -> KademliaPeer {
    let p = peer(base, i);
    let a: Multiaddr = format!("/ip4/10.9.{}.1/tcp/4001/p2p/{}", i, p).parse().unwrap();
    KademliaPeer::new(p, vec![a], ConnectionType::CanConnect)
}

fn target_key_bytes(key: u8) -> Vec<u8> {
    vec![b't', key]
}

fn dist(target: &[u8; 32], p: &PeerId) -> [u8; 32] {
    let k = key_of_peer(p);
    let mut out = [0u8; 32];
    for i in 0..32 {
        out[i] = k[i] ^ target[i];
    }
    out
}

fn strategy(universe: usize, max_sched: usize) -> impl Strategy<Value = Case> {
    let u = universe as u8;
    let idx = prop_oneof![12 => 0u8..u, 1 => Just(LOCAL), 1 => u..(u + 3)];
    let knows = prop::collection::vec(prop::collection::vec(idx, 0..6), universe + 3);
    let behaviour = prop::collection::vec(prop_oneof![12 => Just(0u8), 2 => Just(1u8), 1 => Just(2u8), 1 => Just(3u8)], universe + 3);
    let seeds = prop_oneof![1 => prop::collection::vec(0u8..u, 0..2), 8 => prop::collection::vec(0u8..u, 1..5)];
    let quorum = prop_oneof![Just(0u8), Just(255u8), 1u8..4];
    let kind = prop_oneof![
        3 => any::<u8>().prop_map(|target| Kind::FindNode { target }),
        1 => any::<u8>().prop_map(|key| Kind::PutRecord { key }),
        1 => any::<u8>().prop_map(|key| Kind::AddProvider { key }),
        3 => (any::<u8>(), quorum, any::<bool>(), prop::collection::vec(prop_oneof![3 => Just(0u8), 3 => Just(1u8), 1 => Just(2u8), 1 => Just(3u8)], universe + 3))
            .prop_map(|(key, quorum, local_record, holders)| Kind::GetRecord { key, quorum, local_record, holders }),
        2 => (any::<u8>(), prop::collection::vec(prop::collection::vec(0u8..(u + 3), 0..3), universe + 3), prop::collection::vec(0u8..(u + 3), 0..2))
            .prop_map(|(key, providers, known)| Kind::GetProviders { key, providers, known }),
    ];
    (
        knows,
        behaviour,
        seeds,
        prop_oneof![Just(1u8), Just(2), Just(3), Just(20)],
        1u8..4,
        kind,
        prop::collection::vec(any::<u8>(), 0..max_sched),
        0u16..64,
    )
        .prop_map(|(knows, behaviour, seeds, k, alpha, kind, schedule, base)| Case {
            knows,
            behaviour,
            seeds,
            k,
            alpha,
            kind,
            schedule,
            base,
        })
}

pub struct RunStats {
    pub rounds: usize,
    pub failures: usize,
    pub liars: bool,
    pub option_counts: Vec<usize>,
    pub terminal: &'static str,
}

/// Executes one schedule. `choices[i]` selects among the options available at step i (mod the number
/// of options); positions beyond the vector take option 0.
pub fn simulate(c: &Case, choices: &[u8]) -> Result<RunStats, CaseFail> {
    let n = c.knows.len().min(c.behaviour.len());
    let local = peer(c.base, LOCAL);
    let mut engine = QueryEngine::new(local, c.k as usize, c.alpha as usize);
    let qid = QueryId(7);
    let id_to_idx: BTreeMap<Vec<u8>, u8> = (0..n as u8).chain(std::iter::once(LOCAL)).map(|i| (peer(c.base, i).to_bytes(), i)).collect();
    let seeds: Vec<u8> = {
        let mut s = Vec::new();
        for i in &c.seeds {
            if (*i as usize) < n && !s.contains(i) {
                s.push(*i);
            }
        }
        s
    };
    let candidates: VecDeque<KademliaPeer> = seeds.iter().map(|i| kad_peer(c.base, *i)).collect();
    let base_t = Instant::now();
    let (target, quorum_needed): ([u8; 32], Option<usize>) = match &c.kind {
        Kind::FindNode { target } => {
            let t = peer(c.base, 100u8.wrapping_add(*target % 50));
            engine.start_find_node(qid, t, candidates);
            (key_of_peer(&t), None)
        }
        Kind::PutRecord { key } => {
            let kb = target_key_bytes(*key);
            engine.start_put_record(qid, Record::new(RecordKey::from(kb.clone()), vec![1, 2, 3]), candidates, Quorum::One);
            (Sha256::digest(&kb).into(), None)
        }
        Kind::AddProvider { key } => {
            let kb = target_key_bytes(*key);
            engine.start_add_provider(
                qid,
                RecordKey::from(kb.clone()),
                ContentProvider { peer: local, addresses: vec![] },
                candidates,
                Quorum::All,
            );
            (Sha256::digest(&kb).into(), None)
        }
        Kind::GetRecord { key, quorum, local_record, .. } => {
            let kb = target_key_bytes(*key);
            let (q, needed) = match *quorum {
                0 => (Quorum::One, 1usize),
                255 => (Quorum::All, c.k as usize),
                n => (Quorum::N(NonZeroUsize::new(n as usize).unwrap()), n as usize),
            };
            engine.start_get_record(qid, RecordKey::from(kb.clone()), candidates, q, *local_record);
            (Sha256::digest(&kb).into(), Some(needed))
        }
        Kind::GetProviders { key, known, .. } => {
            let kb = target_key_bytes(*key);
            let known: Vec<ContentProvider> = known
                .iter()
                .map(|i| ContentProvider {
                    peer: peer(c.base, 60 + *i),
                    addresses: vec![format!("/ip4/10.8.{}.1/tcp/1", i).parse().unwrap()],
                })
                .collect();
            engine.start_get_providers(qid, RecordKey::from(kb.clone()), candidates, known);
            (Sha256::digest(&kb).into(), None)
        }
    };

    let mut sent: Vec<u8> = Vec::new(); // indices in order of sending
    let mut inflight: Vec<u8> = Vec::new();
    let mut answered: BTreeSet<u8> = BTreeSet::new();
    let mut learned: BTreeSet<u8> = seeds.iter().cloned().collect();
    let mut failures = 0usize;
    let mut rounds = 0usize;
    let mut liars = false;
    let mut expected_records: Vec<(u8, Vec<u8>)> = Vec::new(); // (peer idx, value) delivered & fresh
    let mut got_records: Vec<(u8, Vec<u8>)> = Vec::new();
    let mut delivered_providers: BTreeSet<u8> = BTreeSet::new();
    let mut model_records = match &c.kind {
        Kind::GetRecord { local_record, .. } => usize::from(*local_record),
        _ => 0,
    };
    let mut quorum_met_at_send_count: Option<usize> = None;
    let mut option_counts = Vec::new();
    let mut last_was_none = false;
    let terminal: Option<QueryAction>;
    let mut step = 0usize;

    loop {
        ensure!(step < 400, "C15/lookup-does-not-terminate", "more than 400 steps");
        let deliverable: Vec<u8> = inflight.iter().cloned().filter(|i| c.behaviour[*i as usize] != 2).collect();
        let mut options: Vec<Option<u8>> = Vec::new(); // None = next_action, Some(i) = deliver for peer i
        if !last_was_none {
            options.push(None);
        }
        for i in &deliverable {
            options.push(Some(*i));
        }
        if options.is_empty() {
            // nothing can happen except a silent peer finally timing out
            if let Some(i) = inflight.first().cloned() {
                options.push(Some(i));
            } else {
                fail!("C15/lookup-stalls-without-terminal", "next_action returned None with nothing in flight (sent {:?})", sent);
            }
        }
        let choice = choices.get(step).cloned().unwrap_or(0) as usize % options.len();
        option_counts.push(options.len());
        step += 1;
        match options[choice] {
            None => match engine.next_action() {
                None => last_was_none = true,
                Some(QueryAction::SendMessage { query, peer: p, .. }) => {
                    ensure!(query == qid, "C15/wrong-query-id", "{:?}", query);
                    ensure!(p != local, "C15/contacts-local-node", "SendMessage to the local peer");
                    let Some(idx) = id_to_idx.get(&p.to_bytes()).cloned() else {
                        fail!("C15/contacts-unknown-peer", "SendMessage to a peer nobody mentioned: {p}");
                    };
                    ensure!(!sent.contains(&idx), "C15/contacts-peer-twice", "peer {idx} contacted twice (sent {:?})", sent);
                    ensure!(learned.contains(&idx), "C15/contacts-unlearned-peer", "peer {idx} was never learned");
                    sent.push(idx);
                    inflight.push(idx);
                    ensure!(
                        inflight.len() <= c.alpha as usize,
                        "C15/parallelism-exceeded",
                        "{} requests in flight with alpha {}",
                        inflight.len(),
                        c.alpha
                    );
                    if let (Some(needed), Some(_)) = (quorum_needed, quorum_met_at_send_count) {
                        fail!("C15/request-after-quorum-met", "SendMessage to {idx} although {model_records} >= {needed} records are known");
                    }
                }
                Some(QueryAction::GetRecordPartialResult { query_id, record }) => {
                    ensure!(query_id == qid, "C15/wrong-query-id", "{:?}", query_id);
                    let idx = id_to_idx.get(&record.peer.to_bytes()).cloned().unwrap_or(254);
                    got_records.push((idx, record.record.value.clone()));
                }
                Some(other) => {
                    terminal = Some(other);
                    break;
                }
            },
            Some(i) => {
                last_was_none = false;
                inflight.retain(|x| *x != i);
                let p = peer(c.base, i);
                let b = c.behaviour[i as usize];
                if b == 1 || b == 2 {
                    failures += 1;
                    // the ways Kademlia reports a failed peer to the engine: a dial / substream-open failure or a closed
                    // connection (send failure + response failure, directly or through register_peer_failure), or a request
                    // that was written and then failed to be answered (send success, then response failure)
                    match (c.base as usize + i as usize) % 3 {
                        0 => {
                            engine.register_send_failure(qid, p);
                            engine.register_response_failure(qid, p);
                        }
                        1 => engine.register_peer_failure(qid, p),
                        _ => {
                            engine.register_send_success(qid, p);
                            engine.register_response_failure(qid, p);
                        }
                    }
                } else {
                    // the request was written before its answer arrives
                    engine.register_send_success(qid, p);
                    let mut returned: Vec<KademliaPeer> = Vec::new();
                    for j in &c.knows[i as usize] {
                        if *j == LOCAL {
                            liars = true;
                            returned.push(kad_peer(c.base, LOCAL));
                        } else if (*j as usize) < n {
                            returned.push(kad_peer(c.base, *j));
                            if b == 0 {
                                learned.insert(*j);
                            }
                        }
                    }
                    let msg = match (&c.kind, b) {
                        (_, 3) => {
                            liars = true;
                            failures += 1;
                            // a message of another kind than the request
                            match &c.kind {
                                Kind::GetProviders { .. } | Kind::GetRecord { .. } => KademliaMessage::FindNode { target: vec![], peers: returned },
                                _ => KademliaMessage::GetProviders { key: None, peers: returned, providers: vec![] },
                            }
                        }
                        (Kind::FindNode { .. } | Kind::PutRecord { .. } | Kind::AddProvider { .. }, _) => {
                            answered.insert(i);
                            rounds += 1;
                            KademliaMessage::FindNode { target: vec![], peers: returned }
                        }
                        (Kind::GetRecord { key, holders, .. }, _) => {
                            answered.insert(i);
                            rounds += 1;
                            let h = holders.get(i as usize).cloned().unwrap_or(0);
                            let value = vec![b'v', i];
                            let record = match h {
                                0 => None,
                                1 => Some(Record {
                                    key: RecordKey::from(target_key_bytes(*key)),
                                    value: value.clone(),
                                    publisher: None,
                                    expires: Some(base_t + Duration::from_secs(3600)),
                                }),
                                2 => base_t.checked_sub(Duration::from_secs(5)).map(|past| Record {
                                    key: RecordKey::from(target_key_bytes(*key)),
                                    value: value.clone(),
                                    publisher: None,
                                    expires: Some(past),
                                }),
                                _ => Some(Record::new(RecordKey::from(target_key_bytes(*key)), value.clone())),
                            };
                            if record.is_some() && h != 2 {
                                expected_records.push((i, value));
                                model_records += 1;
                            }
                            KademliaMessage::GetRecord { key: None, record, peers: returned }
                        }
                        (Kind::GetProviders { providers, .. }, _) => {
                            answered.insert(i);
                            rounds += 1;
                            let provs: Vec<KademliaPeer> = providers
                                .get(i as usize)
                                .cloned()
                                .unwrap_or_default()
                                .iter()
                                .map(|j| {
                                    delivered_providers.insert(*j);
                                    KademliaPeer::new(
                                        peer(c.base, 60 + *j),
                                        vec![format!("/ip4/10.7.{}.{}/tcp/1", j, i).parse().unwrap()],
                                        ConnectionType::NotConnected,
                                    )
                                })
                                .collect();
                            KademliaMessage::GetProviders { key: None, peers: returned, providers: provs }
                        }
                    };
                    engine.register_response(qid, p, msg);
                    if let Some(needed) = quorum_needed {
                        if model_records >= needed && quorum_met_at_send_count.is_none() {
                            quorum_met_at_send_count = Some(sent.len());
                        }
                    }
                }
            }
        }
    }

    // exactly one terminal: nothing more comes out, also after late responses arrive
    let term = terminal.expect("loop breaks with a terminal");
    for i in inflight.clone() {
        engine.register_response_failure(qid, peer(c.base, i));
    }
    for _ in 0..3 {
        if let Some(a) = engine.next_action() {
            fail!("C15/second-terminal-or-action-after-terminal", "after {:?}: {:?}", short(&term), short(&a));
        }
    }

    let check_found = |peers: &Vec<KademliaPeer>| -> Result<(), CaseFail> {
        let reported: Vec<PeerId> = peers.iter().map(|p| p.verif_parts().0).collect();
        ensure!(reported.len() <= c.k as usize, "C15/more-than-k-peers-reported", "{} > {}", reported.len(), c.k);
        let mut idxs = Vec::new();
        for p in &reported {
            let Some(idx) = id_to_idx.get(&p.to_bytes()).cloned() else {
                fail!("C15/reported-unknown-peer", "{p}");
            };
            ensure!(answered.contains(&idx), "C15/reported-peer-did-not-answer", "peer {idx}; answered {:?}", answered);
            idxs.push(idx);
        }
        for w in reported.windows(2) {
            ensure!(dist(&target, &w[0]) < dist(&target, &w[1]), "C15/reported-peers-not-sorted", "{:?}", idxs);
        }
        if let Some(furthest) = reported.last() {
            let fd = dist(&target, furthest);
            for l in &learned {
                if dist(&target, &peer(c.base, *l)) < fd {
                    ensure!(sent.contains(l), "C15/closer-learned-peer-not-contacted", "peer {l} is closer than the furthest reported one but was never contacted; reported {:?}", idxs);
                }
            }
        }
        // the reported set is the k closest of those that answered
        let mut best: Vec<u8> = answered.iter().cloned().collect();
        best.sort_by_key(|i| dist(&target, &peer(c.base, *i)));
        best.truncate(c.k as usize);
        ensure!(best == idxs, "C15/reported-not-the-closest-answerers", "reported {:?}, closest answerers {:?}", idxs, best);
        Ok(())
    };

    let tname: &'static str = match &term {
        QueryAction::FindNodeQuerySucceeded { query, peers, .. } => {
            ensure!(matches!(c.kind, Kind::FindNode { .. }) && *query == qid, "C15/wrong-terminal-kind", "{:?}", short(&term));
            check_found(peers)?;
            "find-node-succeeded"
        }
        QueryAction::PutRecordToFoundNodes { query, peers, .. } => {
            ensure!(matches!(c.kind, Kind::PutRecord { .. }) && *query == qid, "C15/wrong-terminal-kind", "{:?}", short(&term));
            check_found(peers)?;
            "put-record-lookup-done"
        }
        QueryAction::AddProviderToFoundNodes { query, peers, .. } => {
            ensure!(matches!(c.kind, Kind::AddProvider { .. }) && *query == qid, "C15/wrong-terminal-kind", "{:?}", short(&term));
            check_found(peers)?;
            "add-provider-lookup-done"
        }
        QueryAction::GetRecordQueryDone { query_id } => {
            ensure!(matches!(c.kind, Kind::GetRecord { .. }) && *query_id == qid, "C15/wrong-terminal-kind", "{:?}", short(&term));
            "get-record-done"
        }
        QueryAction::GetProvidersQueryDone { query_id, providers, .. } => {
            ensure!(matches!(c.kind, Kind::GetProviders { .. }) && *query_id == qid, "C15/wrong-terminal-kind", "{:?}", short(&term));
            let Kind::GetProviders { known, .. } = &c.kind else { unreachable!() };
            let mut expect: Vec<PeerId> = delivered_providers.iter().chain(known.iter()).map(|j| peer(c.base, 60 + *j)).collect();
            expect.sort_by_key(|p| dist(&target, p));
            expect.dedup();
            let got: Vec<PeerId> = providers.iter().map(|p| p.peer).collect();
            let gset: BTreeSet<Vec<u8>> = got.iter().map(|p| p.to_bytes()).collect();
            ensure!(gset.len() == got.len(), "C15/provider-reported-twice", "{} entries, {} distinct", got.len(), gset.len());
            ensure!(got == expect, "C15/providers-not-exactly-those-returned-sorted", "got {} expected {}", got.len(), expect.len());
            "get-providers-done"
        }
        QueryAction::QueryFailed { query } => {
            ensure!(*query == qid, "C15/wrong-query-id", "{:?}", query);
            "failed"
        }
        other => fail!("C15/unexpected-terminal", "{:?}", short(other)),
    };
    if matches!(c.kind, Kind::GetRecord { .. }) {
        // every fresh record delivered while the query was alive is reported exactly once
        let mut e = expected_records.clone();
        let mut g = got_records.clone();
        e.sort();
        g.sort();
        ensure!(e == g, "C15/records-not-reported-exactly-once", "delivered {:?} reported {:?}", e, g);
    }
    // a failed lookup must not have had an answer (FIND_NODE family)
    if tname == "failed" && matches!(c.kind, Kind::FindNode { .. } | Kind::PutRecord { .. } | Kind::AddProvider { .. }) {
        ensure!(answered.is_empty(), "C15/failed-although-peers-answered", "answered {:?}", answered);
    }
    Ok(RunStats {
        rounds,
        failures,
        liars,
        option_counts,
        terminal: tname,
    })
}

fn short(a: &QueryAction) -> String {
    let s = format!("{a:?}");
    s.chars().take(120).collect()
}

fn run_random(c: &Case) -> CaseResult {
    let st = simulate(c, &c.schedule)?;
    Ok(CaseOk::trivial()
        .nt((st.failures > 0 || st.liars) && st.rounds >= 2)
        .class(st.terminal)
        .class_if(st.failures > 0, "with-failures")
        .class_if(st.liars, "with-liars")
        .class_if(st.rounds >= 2, "ge-2-rounds")
        .class_if(st.rounds >= 5, "ge-5-rounds"))
}

static EXHAUSTIVE_SCHEDULES: AtomicU64 = AtomicU64::new(0);
static EXHAUSTIVE_TRUNCATED: AtomicU64 = AtomicU64::new(0);

/// All schedules of one tiny network by re-execution (odometer over the option counts).
fn run_exhaustive(c: &Case) -> CaseResult {
    const CAP: u64 = 30_000;
    let mut choices: Vec<u8> = Vec::new();
    let mut n = 0u64;
    let mut any_fail = false;
    let mut rounds_max = 0;
    loop {
        let st = match simulate(c, &choices) {
            Ok(st) => st,
            Err(mut e) => {
                e.message = format!("{} [schedule {:?}]", e.message, choices);
                return Err(e);
            }
        };
        n += 1;
        any_fail |= st.failures > 0 || st.liars;
        rounds_max = rounds_max.max(st.rounds);
        // next schedule: increment the last position that still has an untried option
        let mut full: Vec<u8> = choices.clone();
        full.resize(st.option_counts.len(), 0);
        let mut pos = full.len();
        loop {
            if pos == 0 {
                EXHAUSTIVE_SCHEDULES.fetch_add(n, Ordering::Relaxed);
                return Ok(CaseOk::trivial()
                    .nt(any_fail && rounds_max >= 2)
                    .class("all-schedules-enumerated")
                    .note(format!("{n} schedules")));
            }
            pos -= 1;
            if (full[pos] as usize) + 1 < st.option_counts[pos] {
                full[pos] += 1;
                full.truncate(pos + 1);
                break;
            }
        }
        choices = full;
        if n >= CAP {
            EXHAUSTIVE_SCHEDULES.fetch_add(n, Ordering::Relaxed);
            EXHAUSTIVE_TRUNCATED.fetch_add(1, Ordering::Relaxed);
            return Ok(CaseOk::trivial().nt(any_fail && rounds_max >= 2).class("schedule-enumeration-capped").note(format!("{n} schedules (capped)")));
        }
    }
}

fn tiny_strategy() -> impl Strategy<Value = Case> {
    (strategy(5, 1), 1u8..3).prop_map(|(mut c, alpha)| {
        c.alpha = alpha;
        c.schedule.clear();
        // keep ids inside the tiny universe (plus the local id and one never-seen id)
        c
    })
}

pub fn run(ctx: &mut Ctx) {
    ctx.rule = "case = network over a universe of 16 (+3 never-seen) peer ids: per-peer reply lists (may name the local node, unknown ids, duplicates), per-peer \
        behaviour (answers / fails / silent until nothing else can happen / answers with a message of the wrong kind), seeds, k in {1,2,3,20}, alpha in {1,2,3}, \
        query kind (FIND_NODE, PUT_VALUE lookup, ADD_PROVIDER lookup, GET_VALUE with quorum One/N/All + local record + fresh/expired/non-expiring records, \
        GET_PROVIDERS with overlapping providers) and a schedule (choice stream: call next_action or deliver the reply/failure of one in-flight request). \
        Non-trivial = at least one failure or liar and >= 2 answered rounds; distinct by case hash. 'exhaustive' campaign: universe of 5 (+3 never-seen) ids, alpha <= 2, all schedules \
        enumerated by re-execution (capped at 30000 per network; capped networks are counted)."
        .into();
    ctx.assumptions = vec![
        "all in-flight requests are fresh: the 10 s timer after which a pending request stops counting towards parallelism (std::time::Instant) is never reached".into(),
        "one query per engine (next_action iterates a HashMap over queries)".into(),
        "seeds never contain the local node (they come from the routing table, which never stores it)".into(),
    ];
    let t = ctx.tier;
    ctx.campaign("random-schedules", CampaignCfg::new(t.pick(60_000, 2_000_000)).shards(16), || strategy(UNIVERSE, 60), run_random);
    ctx.campaign("small-universe", CampaignCfg::new(t.pick(30_000, 500_000)).shards(16), || strategy(6, 40), run_random);
    ctx.campaign("exhaustive-schedules", CampaignCfg::new(t.pick(3_000, 100_000)).shards(16).shrink_iters(200), tiny_strategy, run_exhaustive);
    ctx.extra.insert("exhaustive_schedules_executed".into(), serde_json::json!(EXHAUSTIVE_SCHEDULES.load(Ordering::Relaxed)));
    ctx.extra.insert("exhaustive_networks_capped".into(), serde_json::json!(EXHAUSTIVE_TRUNCATED.load(Ordering::Relaxed)));
    let _ = SplitMix(0);
}
