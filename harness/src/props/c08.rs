//! C08 — protocols see a well-formed per-peer connection and substream event stream.
//!
//! Two real `TransportService`s are registered with the real manager; the harness plays the
//! connections through the scripted transport: feasible interleavings of establishment and closure
//! of up to two overlapping connections per peer, substream open requests answered with success
//! (a real `Substream` over an in-memory yamux pair), failure or never, inbound substreams, and
//! keep-alive expiry by advancing the paused clock.

use crate::common::{keypair_from_seed, peer_from_seed};
use crate::engine::{pick_idx, CampaignCfg, CaseFail, CaseOk, CaseResult, Ctx};
use crate::f2::{pipe, PipeCfg};
use crate::{ensure, fail};
use futures::StreamExt;
use litep2p::protocol::{Direction, TransportEvent, TransportService};
use litep2p::verif::scripted::{Call, ConnCommand, Inject, MgrEvent, VerifManager};
use litep2p::yamux;
use litep2p::{PeerId, ProtocolName};
use multiaddr::Multiaddr;
use proptest::prelude::*;
use serde::{Deserialize, Serialize};
use std::collections::{BTreeMap, BTreeSet};
use std::time::Duration;

const KEEP_ALIVE: Duration = Duration::from_secs(5);
const N_PEERS: usize = 3;

#[derive(Debug, Clone, Serialize, Deserialize)]
pub enum Op {
    /// a new connection to the peer (inbound socket, or outbound via dial_address)
    Connect { peer: u8, inbound: bool },
    Close { pick: u16 },
    OpenSubstream { service: u8, peer: u8 },
    /// the connection reads its pending commands; the k-th outstanding open request is answered
    Answer { pick: u16, success: bool },
    InboundSubstream { pick: u16, service: u8 },
    /// advance the paused clock (ms) and let the services run their keep-alive logic
    Advance { ms: u16 },
    /// connections whose protocols all dropped their handles close (as the real connection task does)
    CloseIdle,
    /// the second protocol shuts down (its TransportService is dropped); the first one keeps running and must keep seeing a
    /// well-formed event stream
    ShutdownSecond,
}

#[derive(Debug, Clone, Serialize, Deserialize)]
pub struct Case {
    pub ops: Vec<Op>,
    /// the second service is registered like ping / identify: its substreams do not keep connections alive
    #[serde(default)]
    pub second_without_keep_alive: bool,
}

fn strategy(max_ops: usize) -> impl Strategy<Value = Case> {
    let peer = 0u8..N_PEERS as u8;
    let op = prop_oneof![
        6 => (peer.clone(), any::<bool>()).prop_map(|(peer, inbound)| Op::Connect { peer, inbound }),
        4 => any::<u16>().prop_map(|pick| Op::Close { pick }),
        5 => (0u8..2, peer).prop_map(|(service, peer)| Op::OpenSubstream { service, peer }),
        4 => (any::<u16>(), any::<bool>()).prop_map(|(pick, success)| Op::Answer { pick, success }),
        2 => (any::<u16>(), 0u8..2).prop_map(|(pick, service)| Op::InboundSubstream { pick, service }),
        3 => prop_oneof![Just(100u16), Just(2600), Just(4900), Just(5100), Just(6000), Just(11000)].prop_map(|ms| Op::Advance { ms }),
        2 => Just(Op::CloseIdle),
        1 => Just(Op::ShutdownSecond),
    ];
    prop::collection::vec(op, 1..max_ops).prop_map(|ops| Case { ops, second_without_keep_alive: false })
}

struct ServiceView {
    /// per peer: connected?
    connected: BTreeMap<Vec<u8>, bool>,
    /// outbound open requests issued through this service: id -> peer
    issued: BTreeMap<usize, PeerId>,
    answered: BTreeSet<usize>,
}

struct W {
    m: VerifManager,
    /// None = the protocol has shut down (its service was dropped)
    services: Vec<Option<TransportService>>,
    /// one wake flag per service: a service is polled only when it was woken, like a task would be
    gates: Vec<std::sync::Arc<crate::common::WakeGate>>,
    views: Vec<ServiceView>,
    peers: Vec<PeerId>,
    /// live connections: id -> peer (accepted, protocols notified, not closed)
    live: BTreeMap<usize, PeerId>,
    /// pending dials: id -> (peer, address)
    /// open requests read by the connections: (conn id, substream id)
    requests: Vec<(usize, usize)>,
    all_ids: BTreeSet<usize>,
    control: yamux::Control,
    overlap_primary_closed_first: bool,
    open_in_flight_at_close: bool,
    keep_alive_expired: bool,
    protocol_shut_down: bool,
    step: usize,
}

impl W {
    /// drain manager, transport and services; check the per-service automaton on every event
    fn settle(&mut self) -> Result<(), CaseFail> {
        for _ in 0..32 {
            let events = self.m.poll();
            let calls = self.m.take_calls();
            let accepts = self.m.take_accept_results();
            let mut moved = !events.is_empty() || !calls.is_empty() || !accepts.is_empty();
            for e in &events {
                if let MgrEvent::Closed { .. } = e {}
            }
            for (id, ok) in accepts {
                if ok {
                    if let Some((_, p)) = self.m.live_connections().into_iter().find(|(i, _)| *i == id) {
                        self.live.insert(id, p);
                    }
                }
            }
            for c in &calls {
                if let Call::Dial { id, address } = c {
                    // outbound connections are established at once with the dialed peer
                    let peer = PeerId::try_from_multiaddr(address).expect("dialed address carries a peer id");
                    let stripped: Multiaddr = address.iter().take_while(|p| !matches!(p, multiaddr::Protocol::P2p(_))).collect();
                    self.m.inject(Inject::Established { peer, address: stripped, id: *id, listener: false });
                    moved = true;
                }
            }
            for si in 0..self.services.len() {
                while let Some(ev) = self.services[si].as_mut().and_then(|svc| crate::common::next_if_woken(svc, &self.gates[si])) {
                    moved = true;
                    self.on_service_event(si, ev)?;
                }
            }
            if !moved {
                return Ok(());
            }
        }
        Err(CaseFail::new("C08/harness-does-not-settle", format!("step {}", self.step)))
    }

    fn on_service_event(&mut self, si: usize, ev: TransportEvent) -> Result<(), CaseFail> {
        let step = self.step;
        let live_peers: BTreeSet<Vec<u8>> = self.live.values().map(|p| p.to_bytes()).collect();
        let v = &mut self.views[si];
        match ev {
            TransportEvent::ConnectionEstablished { peer, .. } => {
                let c = v.connected.entry(peer.to_bytes()).or_insert(false);
                ensure!(!*c, "C08/established-twice-without-closed", "step {step}: service {si} peer {peer}");
                *c = true;
                ensure!(live_peers.contains(&peer.to_bytes()), "C08/established-reported-without-a-connection", "step {step}: service {si} peer {peer}");
            }
            TransportEvent::ConnectionClosed { peer } => {
                let c = v.connected.entry(peer.to_bytes()).or_insert(false);
                ensure!(*c, "C08/closed-without-established", "step {step}: service {si} peer {peer}");
                *c = false;
                ensure!(
                    !live_peers.contains(&peer.to_bytes()),
                    "C08/closed-reported-while-a-connection-is-open",
                    "step {step}: service {si} was told that {peer} disconnected while connections {:?} are open",
                    self.live.iter().filter(|(_, p)| **p == peer).map(|(i, _)| *i).collect::<Vec<_>>()
                );
            }
            TransportEvent::SubstreamOpened { peer, direction, .. } => {
                ensure!(
                    v.connected.get(&peer.to_bytes()).cloned().unwrap_or(false),
                    "C08/substream-event-for-disconnected-peer",
                    "step {step}: service {si} got SubstreamOpened for {peer} which it considers disconnected"
                );
                if let Direction::Outbound(id) = direction {
                    let id = id.verif_raw();
                    ensure!(v.issued.get(&id) == Some(&peer), "C08/substream-opened-with-unknown-id", "step {step}: service {si} id {id}");
                    ensure!(v.answered.insert(id), "C08/open-request-answered-twice", "step {step}: service {si} id {id}");
                }
            }
            TransportEvent::SubstreamOpenFailure { substream, .. } => {
                let id = substream.verif_raw();
                ensure!(v.issued.contains_key(&id), "C08/open-failure-with-unknown-id", "step {step}: service {si} id {id}");
                ensure!(v.answered.insert(id), "C08/open-request-answered-twice", "step {step}: service {si} id {id}");
            }
            TransportEvent::DialFailure { .. } => {}
        }
        Ok(())
    }
}

async fn run_async(c: &Case, real_time: bool) -> Result<(bool, bool, bool, bool), CaseFail> {
    // the keep-alive tracker measures inactivity with std::time::Instant, so idle expiry only happens in real time:
    // the real-time campaign uses a 40 ms keep-alive and real sleeps (nothing asserted depends on the timing)
    let (m, services) = VerifManager::new(
        keypair_from_seed(0xC08),
        None,
        None,
        vec![(ProtocolName::from("/c08/1"), true), (ProtocolName::from("/c08/2"), !c.second_without_keep_alive)],
        if real_time { Duration::from_millis(40) } else { KEEP_ALIVE },
    );
    // one in-memory yamux pair mints real substreams for "open succeeded" answers
    let (a, b, _ab, _ba) = pipe(PipeCfg::default());
    let conn_a = yamux::Connection::new(a, yamux::Config::default(), yamux::Mode::Client);
    let conn_b = yamux::Connection::new(b, yamux::Config::default(), yamux::Mode::Server);
    let (control, mut conn_a) = yamux::Control::new(conn_a);
    let (_control_b, mut conn_b) = yamux::Control::new(conn_b);
    let t1 = tokio::spawn(async move { while let Some(Ok(_)) = conn_a.next().await {} });
    let t2 = tokio::spawn(async move {
        let mut keep = Vec::new();
        while let Some(Ok(s)) = conn_b.next().await {
            keep.push(s);
        }
    });
    let n_services = services.len();
    let mut w = W {
        m,
        gates: (0..services.len()).map(|_| crate::common::WakeGate::new()).collect(),
        services: services.into_iter().map(Some).collect(),
        views: (0..n_services).map(|_| ServiceView { connected: BTreeMap::new(), issued: BTreeMap::new(), answered: BTreeSet::new() }).collect(),
        peers: (0..N_PEERS).map(|i| peer_from_seed(0xC0800 + i as u64)).collect(),
        live: BTreeMap::new(),
        requests: Vec::new(),
        all_ids: BTreeSet::new(),
        control,
        overlap_primary_closed_first: false,
        open_in_flight_at_close: false,
        keep_alive_expired: false,
        protocol_shut_down: false,
        step: 0,
    };
    for op in &c.ops {
        w.step += 1;
        match op {
            Op::Connect { peer, inbound } => {
                let p = w.peers[*peer as usize % N_PEERS];
                if *inbound {
                    let id = w.m.next_connection_id();
                    w.m.inject(Inject::PendingInbound { id });
                    w.settle()?;
                    let address: Multiaddr = format!("/ip4/52.20.0.{}/tcp/{}", 1 + id % 200, 40_000 + id % 1000).parse().unwrap();
                    w.m.inject(Inject::Established { peer: p, address, id, listener: true });
                } else {
                    let address: Multiaddr = format!("/ip4/52.21.0.{}/tcp/30333/p2p/{}", 1 + peer, p).parse().unwrap();
                    let _ = w.m.dial_address(address);
                }
                w.settle()?;
            }
            Op::Close { pick } => {
                if w.live.is_empty() {
                    continue;
                }
                let ids: Vec<usize> = w.live.keys().cloned().collect();
                let id = ids[pick_idx(*pick, ids.len())];
                let peer = w.live[&id];
                let others: Vec<usize> = w.live.iter().filter(|(i, p)| **p == peer && **i != id).map(|(i, _)| *i).collect();
                if !others.is_empty() && id < others[0] {
                    w.overlap_primary_closed_first = true;
                }
                if w.requests.iter().any(|(c, _)| *c == id) {
                    w.open_in_flight_at_close = true;
                }
                w.requests.retain(|(c, _)| *c != id);
                w.live.remove(&id);
                {
                    // once a protocol has shut down the report returns an error after having told everybody else
                    let r = w.m.close_connection(id);
                    if !w.protocol_shut_down {
                        r.map_err(|e| CaseFail::new("C08/harness-close-failed", e))?;
                    }
                }
                w.settle()?;
            }
            Op::OpenSubstream { service, peer } => {
                let si = *service as usize % w.services.len();
                let p = w.peers[*peer as usize % N_PEERS];
                let Some(svc) = w.services[si].as_mut() else { continue };
                let r = svc.open_substream(p);
                let considered_connected = w.views[si].connected.get(&p.to_bytes()).cloned().unwrap_or(false);
                match r {
                    Ok(id) => {
                        let id = id.verif_raw();
                        ensure!(considered_connected, "C08/open-substream-accepted-for-disconnected-peer", "step {}: service {si} peer {p}", w.step);
                        ensure!(w.all_ids.insert(id), "C08/substream-id-reused", "step {}: id {id}", w.step);
                        w.views[si].issued.insert(id, p);
                    }
                    Err(e) => {
                        // "while a peer is connected a request to open a substream is accepted": the service was told of a
                        // connection and not of its end, and the harness (which plays the connection tasks and empties their
                        // command queues after every request) still runs a connection to that peer
                        // ... and that connection is not on its way out: a connection all of whose protocol handles have been
                        // released (keep-alive expiry) or that was told to close is ending, and refusing is right
                        // (with two connections the request goes to the primary one, which may be the one that is ending while the
                        // other lives on: judged only when none of the peer's connections is ending)
                        let mut live = true;
                        let mut any = false;
                        for id in w.live.iter().filter(|(_, q)| **q == p).map(|(id, _)| *id).collect::<Vec<_>>() {
                            let mut ending = false;
                            while let Some(cmd) = w.m.poll_connection(id) {
                                match cmd {
                                    ConnCommand::AllHandlesDropped | ConnCommand::ForceClose => {
                                        ending = true;
                                        break;
                                    }
                                    ConnCommand::OpenSubstream { substream_id, .. } => w.requests.push((id, substream_id)),
                                }
                            }
                            live &= !ending;
                            any = true;
                        }
                        let live = live && any;
                        ensure!(
                            !(considered_connected && live),
                            "C08/open-substream-refused-for-a-connected-peer",
                            "step {}: service {si} (keeps connections alive: {}) asked for a substream to {p}, which it was told is connected and to which connection(s) {:?} are open: {e:?}",
                            w.step,
                            si == 0 || !c.second_without_keep_alive,
                            w.live.iter().filter(|(_, q)| **q == p).map(|(id, _)| *id).collect::<Vec<_>>()
                        );
                    }
                }
                // let the connections read their command queues
                for id in w.live.keys().cloned().collect::<Vec<_>>() {
                    while let Some(cmd) = w.m.poll_connection(id) {
                        match cmd {
                            ConnCommand::OpenSubstream { substream_id, connection_id, .. } => {
                                ensure!(connection_id == id, "C08/command-on-wrong-connection", "conn {id} got a command for {connection_id}");
                                w.requests.push((id, substream_id));
                            }
                            _ => break,
                        }
                    }
                }
                w.settle()?;
            }
            Op::Answer { pick, success } => {
                if w.requests.is_empty() {
                    continue;
                }
                let (conn, sid) = w.requests.remove(pick_idx(*pick, w.requests.len()));
                if *success {
                    let stream = w.control.open_stream().await.map_err(|e| CaseFail::new("C08/harness-yamux-open-failed", format!("{e:?}")))?;
                    {
                        let r = w.m.answer_open_success(conn, sid, stream);
                        if !w.protocol_shut_down {
                            r.map_err(|e| CaseFail::new("C08/harness-answer-failed", e))?;
                        }
                    }
                } else {
                    {
                        let r = w.m.answer_open_failure(conn, sid);
                        if !w.protocol_shut_down {
                            r.map_err(|e| CaseFail::new("C08/harness-answer-failed", e))?;
                        }
                    }
                }
                w.settle()?;
            }
            Op::InboundSubstream { pick, service } => {
                if w.live.is_empty() {
                    continue;
                }
                let ids: Vec<usize> = w.live.keys().cloned().collect();
                let id = ids[pick_idx(*pick, ids.len())];
                let stream = w.control.open_stream().await.map_err(|e| CaseFail::new("C08/harness-yamux-open-failed", format!("{e:?}")))?;
                let name = if *service % 2 == 0 { "/c08/1" } else { "/c08/2" };
                let _ = w.m.report_inbound_substream(id, ProtocolName::from(name), stream);
                w.settle()?;
            }
            Op::Advance { ms } => {
                if real_time {
                    tokio::time::sleep(Duration::from_micros(*ms as u64 * 8)).await;
                } else {
                    tokio::time::advance(Duration::from_millis(*ms as u64)).await;
                }
                tokio::task::yield_now().await;
                w.settle()?;
            }
            Op::ShutdownSecond => {
                if w.services.len() > 1 && w.services[1].is_some() {
                    w.services[1] = None;
                    w.protocol_shut_down = true;
                    w.settle()?;
                }
            }
            Op::CloseIdle => {
                for id in w.live.keys().cloned().collect::<Vec<_>>() {
                    let mut idle = false;
                    while let Some(cmd) = w.m.poll_connection(id) {
                        match cmd {
                            ConnCommand::AllHandlesDropped => {
                                idle = true;
                                break;
                            }
                            ConnCommand::OpenSubstream { substream_id, .. } => w.requests.push((id, substream_id)),
                            ConnCommand::ForceClose => {
                                idle = true;
                                break;
                            }
                        }
                    }
                    if idle {
                        w.keep_alive_expired = true;
                        w.requests.retain(|(c, _)| *c != id);
                        w.live.remove(&id);
                        {
                    // once a protocol has shut down the report returns an error after having told everybody else
                    let r = w.m.close_connection(id);
                    if !w.protocol_shut_down {
                        r.map_err(|e| CaseFail::new("C08/harness-close-failed", e))?;
                    }
                }
                        w.settle()?;
                    }
                }
            }
        }
        // reality check: a service that considers a peer connected has a connection to it, and vice versa (after settling)
        for si in 0..w.services.len() {
            if w.services[si].is_none() {
                continue;
            }
            for p in &w.peers {
                let considered = w.views[si].connected.get(&p.to_bytes()).cloned().unwrap_or(false);
                let has = w.live.values().any(|q| q == p);
                ensure!(
                    considered == has,
                    "C08/service-view-differs-from-open-connections",
                    "step {} ({:?}): service {si} considers {p} {} but {} connection(s) to it are open",
                    w.step,
                    op,
                    if considered { "connected" } else { "disconnected" },
                    w.live.values().filter(|q| *q == p).count()
                );
            }
        }
    }
    t1.abort();
    t2.abort();
    Ok((w.overlap_primary_closed_first, w.open_in_flight_at_close || w.protocol_shut_down, w.keep_alive_expired, w.all_ids.len() > 1))
}

fn run_case_rt(c: &Case) -> CaseResult {
    let rt = tokio::runtime::Builder::new_current_thread().enable_time().build().expect("runtime");
    let (overlap, in_flight, expired, many) = rt.block_on(run_async(c, true))?;
    Ok(CaseOk::trivial()
        .nt(overlap || in_flight || expired)
        .class_if(overlap, "overlap-primary-closes-first")
        .class_if(in_flight, "open-request-in-flight-at-close")
        .class_if(expired, "idle-connection-closed")
        .class_if(many, "several-open-requests"))
}

fn rt_strategy(max_ops: usize) -> impl Strategy<Value = Case> {
    // biased to overlapping connections and clock advances
    let peer = 0u8..2;
    let op = prop_oneof![
        6 => (peer.clone(), any::<bool>()).prop_map(|(peer, inbound)| Op::Connect { peer, inbound }),
        3 => any::<u16>().prop_map(|pick| Op::Close { pick }),
        3 => (0u8..2, peer).prop_map(|(service, peer)| Op::OpenSubstream { service, peer }),
        2 => (any::<u16>(), any::<bool>()).prop_map(|(pick, success)| Op::Answer { pick, success }),
        1 => (any::<u16>(), 0u8..2).prop_map(|(pick, service)| Op::InboundSubstream { pick, service }),
        5 => prop_oneof![Just(2600u16), Just(5100), Just(6000), Just(11000)].prop_map(|ms| Op::Advance { ms }),
        3 => Just(Op::CloseIdle),
    ];
    prop::collection::vec(op, 3..max_ops).prop_map(|ops| Case { ops, second_without_keep_alive: false })
}

fn run_case(c: &Case) -> CaseResult {
    let (overlap, in_flight, expired, many) = crate::f2::block_on_paused(run_async(c, false))?;
    Ok(CaseOk::trivial()
        .nt(overlap || in_flight)
        .class_if(overlap, "overlap-primary-closes-first")
        .class_if(in_flight, "open-request-in-flight-at-close")
        .class_if(expired, "idle-connection-closed")
        .class_if(many, "several-open-requests"))
}

pub fn run(ctx: &mut Ctx) {
    ctx.rule = "history over 3 peers with two real TransportServices (keep-alive 5 s, paused clock) registered with the real manager and the scripted transport: new inbound / \
        outbound connection to a peer (a third one is rejected by the manager), close of any live connection, open_substream(service, peer), the connection answering an \
        outstanding open request with a real substream / a failure / never, inbound substreams, clock advances around the keep-alive timeout, closing connections whose handles \
        were all dropped. Per service and peer: established/closed strictly alternate, substream events and accepted open requests only while connected, ids globally unique, each \
        id answered at most once; after every step a service considers a peer connected iff a connection to it is open. Non-trivial = two overlapping connections with the older \
        one closing first, or an open request in flight when its connection closes; distinct by case hash."
        .into();
    ctx.assumptions = vec![
        "the harness plays the connection task: it reads ProtocolCommands from the real ProtocolSet and reports substreams / closure through it; 'exactly once unless the connection terminates first' for real TCP connections is covered by the real-node checks".into(),
        "a third simultaneous connection to one peer never reaches the protocols (rejected by the manager), as in the real system".into(),
    ];
    let t = ctx.tier;
    ctx.campaign("histories", CampaignCfg::new(t.pick(20_000, 400_000)).shards(16), || strategy(40), run_case);
    ctx.campaign("long", CampaignCfg::new(t.pick(3_000, 60_000)).shards(16), || strategy(150), run_case);
    ctx.campaign("keep-alive-real-time", CampaignCfg::new(t.pick(1_600, 40_000)).shards(16).shrink_iters(200), || rt_strategy(16), run_case_rt);
    ctx.campaign(
        "keep-alive-real-time-mixed",
        CampaignCfg::new(t.pick(1_600, 40_000)).shards(16).shrink_iters(200),
        || {
            rt_strategy(16).prop_map(|mut c| {
                c.second_without_keep_alive = true;
                c
            })
        },
        run_case_rt,
    );
    ctx.campaign("slow-protocol", CampaignCfg::new(t.pick(160, 3_000)).shards(16), super::c08_slow::strategy, super::c08_slow::run_case);
    // the remote ends the connection by breaking the rules of the multiplexer (see c07_rogue): the substream events of its
    // streams lie inside the connection, and established / closed are reported once
    let avoid_credit = ctx.avoid(super::c07_rogue::SIG_YAMUX_CREDIT);
    ctx.campaign("rogue-yamux", CampaignCfg::new(t.pick(1_000, 20_000)).shards(16).shrink_iters(8), super::c07_rogue::strategy, move |c: &super::c07_rogue::Case| {
        super::c07_rogue::run_case_for(c, avoid_credit, "C08")
    });
    ctx.campaign("real-opens", CampaignCfg::new(t.pick(480, 10_000)).shards(16).shrink_iters(6), super::c08_nodes::strategy, super::c08_nodes::run_case);
    let _ = fail_marker;
}

#[allow(dead_code)]
fn fail_marker() -> CaseResult {
    fail!("unused", "unused")
}
