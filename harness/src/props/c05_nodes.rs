//! C05 through the real TCP transport: a real node dials a real peer by generated addresses — the peer's true address, the
//! unspecified address with the peer's port, a port nobody listens on, port 0, an unroutable address, a name that does not
//! resolve, the true socket under another peer's id, IPv6 forms — one after the other or overlapping, and finally by its
//! true address.
//!
//! Oracle: every `dial_address` the node accepted ends in exactly one outcome for the user (connection established with
//! the peer, or a dial failure naming the address) within 6 s (connection open timeout 1.5 s); a refused call produces none;
//! and afterwards the peer is not wedged: a dial of its true address connects.

use crate::common::peer_from_seed;
use crate::engine::{CaseFail, CaseOk, CaseResult};
use crate::f4::{case_panics, full_address, new_case_id, wait_until, Cmd, Log, Node, NodeSetup, Obs, ObsKind};
use crate::{ensure, fail};
use litep2p::PeerId;
use multiaddr::{Multiaddr, Protocol};
use proptest::prelude::*;
use serde::{Deserialize, Serialize};
use std::sync::Arc;
use std::time::Duration;

#[derive(Debug, Clone, Copy, PartialEq, Eq, Serialize, Deserialize)]
pub enum Addr {
    True,
    /// 0.0.0.0 with the peer's port
    Unspecified4,
    /// [::] with the peer's port
    Unspecified6,
    /// 127.0.0.1:1
    Refused,
    PortZero,
    /// 10.255.255.1 (no route in the sandbox, or a timeout)
    Unroutable,
    /// /dns4/<name that does not resolve>
    Unresolvable,
    /// the true socket address with another peer's id
    WrongPeer,
    /// [::1] with the peer's port (the peer listens on IPv4 only)
    Loopback6,
    /// the true address without the /p2p suffix
    NoPeerId,
}

#[derive(Debug, Clone, Serialize, Deserialize)]
pub struct Case {
    pub seed: u64,
    /// (address, wait for its outcome before the next dial)
    pub dials: Vec<(Addr, bool)>,
}

pub fn strategy() -> impl Strategy<Value = Case> {
    let addr = prop_oneof![
        1 => Just(Addr::True),
        3 => Just(Addr::Unspecified4),
        2 => Just(Addr::Unspecified6),
        2 => Just(Addr::Refused),
        2 => Just(Addr::PortZero),
        1 => Just(Addr::Unroutable),
        1 => Just(Addr::Unresolvable),
        2 => Just(Addr::WrongPeer),
        1 => Just(Addr::Loopback6),
        1 => Just(Addr::NoPeerId),
    ];
    (any::<u64>(), prop::collection::vec((addr, prop::bool::weighted(0.7)), 1..4)).prop_map(|(seed, dials)| Case { seed, dials })
}

fn connected(log: &[Obs], node: usize, peer: &PeerId) -> bool {
    let mut up = false;
    for o in log.iter().filter(|o| o.node == node) {
        match &o.kind {
            ObsKind::ConnEstablished { peer: p, .. } if p == peer => up = true,
            ObsKind::ConnClosed { peer: p } if p == peer => up = false,
            _ => {}
        }
    }
    up
}

pub fn run_case(c: &Case) -> CaseResult {
    let log: Log = Arc::new(parking_lot::Mutex::new(Vec::new()));
    let case_id = new_case_id();
    let setup = |seed: u64| NodeSetup {
        seed,
        keep_alive: Some(Duration::from_secs(20)),
        probes: 1,
        case_id,
        connection_open_timeout: Some(Duration::from_millis(1500)),
        substream_open_timeout: Some(Duration::from_millis(1500)),
        ..Default::default()
    };
    let dialer = Node::spawn(0, setup(c.seed % 300 + 161_000), log.clone()).map_err(|e| CaseFail::new("C05/harness-node-start-failed", e))?;
    let target = Node::spawn(1, setup(c.seed % 300 + 162_000), log.clone()).map_err(|e| CaseFail::new("C05/harness-node-start-failed", e))?;
    let pt = target.peer;
    let true_addr = full_address(&target);
    let port = true_addr.iter().find_map(|p| if let Protocol::Tcp(port) = p { Some(port) } else { None }).ok_or_else(|| CaseFail::new("C05/harness-no-port", "no tcp port"))?;
    let other = peer_from_seed(c.seed ^ 0xd1a1);
    let build = |a: Addr| -> Multiaddr {
        let ip4 = |ip: [u8; 4], port: u16, peer: Option<PeerId>| {
            let m = Multiaddr::empty().with(Protocol::Ip4(ip.into())).with(Protocol::Tcp(port));
            match peer {
                Some(p) => m.with(Protocol::P2p(p.into())),
                None => m,
            }
        };
        match a {
            Addr::True => true_addr.clone(),
            Addr::Unspecified4 => ip4([0, 0, 0, 0], port, Some(pt)),
            Addr::Unspecified6 => Multiaddr::empty().with(Protocol::Ip6(std::net::Ipv6Addr::UNSPECIFIED)).with(Protocol::Tcp(port)).with(Protocol::P2p(pt.into())),
            Addr::Refused => ip4([127, 0, 0, 1], 1, Some(pt)),
            Addr::PortZero => ip4([127, 0, 0, 1], 0, Some(pt)),
            Addr::Unroutable => ip4([10, 255, 255, 1], 4001, Some(pt)),
            Addr::Unresolvable => Multiaddr::empty().with(Protocol::Dns4("does-not-exist.invalid".into())).with(Protocol::Tcp(4001)).with(Protocol::P2p(pt.into())),
            Addr::WrongPeer => ip4([127, 0, 0, 1], port, Some(other)),
            Addr::Loopback6 => Multiaddr::empty().with(Protocol::Ip6(std::net::Ipv6Addr::LOCALHOST)).with(Protocol::Tcp(port)).with(Protocol::P2p(pt.into())),
            Addr::NoPeerId => ip4([127, 0, 0, 1], port, None),
        }
    };
    // ---- the dials ----
    // outcomes seen so far (established with the target / with `other`, dial failures): a running count
    let outcomes = |l: &[Obs]| l.iter().filter(|o| o.node == 0 && matches!(&o.kind, ObsKind::ConnEstablished { .. } | ObsKind::DialFailure { .. })).count();
    let mut accepted = 0usize;
    let mut refused = 0usize;
    let mut coalesced = 0usize;
    for (k, (a, wait)) in c.dials.iter().enumerate() {
        let addr = build(*a);
        let before_api = log.lock().iter().filter(|o| o.node == 0 && matches!(&o.kind, ObsKind::ApiResult { what, .. } if what.starts_with("dial_address"))).count();
        let was_connected = connected(&log.lock(), 0, &pt);
        let in_flight = accepted > outcomes(&log.lock());
        dialer.send(Cmd::DialAddress(addr.clone()));
        if !wait_until(&log, Duration::from_millis(2000), |l| l.iter().filter(|o| o.node == 0 && matches!(&o.kind, ObsKind::ApiResult { what, .. } if what.starts_with("dial_address"))).count() > before_api) {
            return Err(CaseFail::new("C05/harness-node-not-responding", "dial_address did not return within 2 s"));
        }
        let ok = log.lock().iter().rev().find_map(|o| if o.node == 0 { if let ObsKind::ApiResult { what, ok, .. } = &o.kind { if what.starts_with("dial_address") { Some(*ok) } else { None } } else { None } } else { None }).unwrap_or(false);
        if ok && (was_connected || in_flight) {
            // accepted while connected or while another attempt to the peer is in flight: may be answered by that one
            coalesced += 1;
        } else if ok {
            accepted += 1;
        } else {
            refused += 1;
        }
        if *wait && ok {
            let want = accepted;
            if !wait_until(&log, Duration::from_secs(6), |l| outcomes(l) >= want) {
                let l = log.lock();
                fail!(
                    "C05/dial-attempt-ended-in-silence",
                    "dial {k}: dial_address({addr}) ({a:?}) was accepted; 6 s later the user has been told of neither a connection nor a dial failure ({} accepted so far, {} outcomes); events: {:?}",
                    accepted,
                    outcomes(&l),
                    l.iter().filter(|o| o.node == 0).map(|o| format!("{:?}", o.kind).chars().take(70).collect::<String>()).collect::<Vec<_>>()
                );
            }
        }
    }
    // all accepted attempts conclude
    let want = accepted;
    if !wait_until(&log, Duration::from_secs(6), |l| outcomes(l) >= want) {
        let l = log.lock();
        fail!(
            "C05/dial-attempt-ended-in-silence",
            "dials {:?}: {accepted} accepted (not counting {coalesced} made while connected or with an attempt in flight), {} outcomes after 6 s; events: {:?}",
            c.dials,
            outcomes(&l),
            l.iter().filter(|o| o.node == 0).map(|o| format!("{:?}", o.kind).chars().take(70).collect::<String>()).collect::<Vec<_>>()
        );
    }
    std::thread::sleep(Duration::from_millis(150));
    {
        let l = log.lock();
        ensure!(
            outcomes(&l) <= accepted + coalesced,
            "C05/more-outcomes-than-accepted-dials",
            "dials {:?}: {accepted} accepted + {coalesced} overlapping, {} outcomes",
            c.dials,
            outcomes(&l)
        );
    }
    // ---- not wedged: the true address connects ----
    if !connected(&log.lock(), 0, &pt) {
        let mut up = false;
        for _ in 0..2 {
            dialer.send(Cmd::DialAddress(true_addr.clone()));
            if wait_until(&log, Duration::from_millis(4000), |l| connected(l, 0, &pt)) {
                up = true;
                break;
            }
        }
        if !up {
            if !crate::f4::control_pair_works(case_id, c.seed) {
                return Err(CaseFail::new("C05/harness-control-pair-failed", "two fresh honest nodes could not connect either"));
            }
            let l = log.lock();
            fail!(
                "C05/peer-wedged",
                "after dials {:?} (all concluded) the peer cannot be reached by its true address: two dial_address calls, no connection within 4 s each; API results and events: {:?}",
                c.dials,
                l.iter().filter(|o| o.node == 0).map(|o| format!("{:?}", o.kind).chars().take(90).collect::<String>()).collect::<Vec<_>>()
            );
        }
    }
    for p in case_panics(case_id) {
        if p.thread.ends_with("-node0") {
            fail!(format!("C05/panic@{}", p.location), "the dialing node panicked: {}", p.message);
        }
    }
    Ok(CaseOk::nontrivial()
        .class_if(refused > 0, "dial-refused-by-the-call")
        .class_if(coalesced > 0, "dial-while-connected-or-dialing")
        .class_if(c.dials.iter().any(|(a, _)| matches!(a, Addr::Unspecified4 | Addr::Unspecified6)), "unspecified-address")
        .class_if(c.dials.iter().any(|(a, _)| matches!(a, Addr::WrongPeer)), "true-socket-under-another-peer-id"))
}
