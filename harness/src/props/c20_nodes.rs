//! C20 through the running protocol: a rogue peer sends whole Bitswap messages (several blocks with good, unsupported,
//! malformed and mismatching prefixes, tampered data, presences) to a real node; everything the node's Bitswap user is
//! handed is judged against the bytes it arrived with.

use super::c20::{block_strategy, build_block, digest_for, expectation, BlockCase};
use crate::common::uvarint;
use crate::engine::{CaseFail, CaseOk, CaseResult};
use crate::f4::{full_address, wait_until, Cmd, Log, Node, NodeSetup, Obs, ObsKind, ProbeCmd};
use crate::{ensure, fail};
use cid::Cid;
use litep2p::protocol::libp2p::bitswap::verif as bs;
use litep2p::PeerId;
use proptest::prelude::*;
use prost::Message;
use serde::{Deserialize, Serialize};
use std::sync::Arc;
use std::time::Duration;

#[derive(Debug, Clone, Serialize, Deserialize)]
pub struct Case {
    pub seed: u64,
    /// messages, each a list of blocks
    pub messages: Vec<Vec<BlockCase>>,
    /// messages per substream (the rest goes on further substreams)
    pub per_substream: u8,
}

pub fn strategy() -> impl Strategy<Value = Case> {
    // small data, distinct by seed
    let block = block_strategy().prop_map(|mut b| {
        b.data_len = 1 + b.data_len % 600;
        b
    });
    (any::<u64>(), prop::collection::vec(prop::collection::vec(block, 1..6), 1..4), 1u8..3).prop_map(|(seed, messages, per_substream)| Case { seed, messages, per_substream })
}

fn connected(log: &[Obs], node: usize, peer: &PeerId) -> bool {
    let e = log.iter().filter(|o| o.node == node && matches!(&o.kind, ObsKind::ConnEstablished { peer: p, .. } if p == peer)).count();
    let c = log.iter().filter(|o| o.node == node && matches!(&o.kind, ObsKind::ConnClosed { peer: p } if p == peer)).count();
    e > c
}

pub fn run_case(c: &Case) -> CaseResult {
    let log: Log = Arc::new(parking_lot::Mutex::new(Vec::new()));
    let case_id = crate::f4::new_case_id();
    let victim = Node::spawn(0, NodeSetup { seed: c.seed % 300 + 71_000, keep_alive: Some(Duration::from_secs(20)), bitswap: true, case_id, ..Default::default() }, log.clone())
        .map_err(|e| CaseFail::new("C20/harness-node-start-failed", e))?;
    let rogue = Node::spawn(
        1,
        NodeSetup { seed: c.seed % 300 + 72_000, keep_alive: Some(Duration::from_secs(20)), probes: 1, probe_names: vec!["/ipfs/bitswap/1.2.0".to_string()], case_id, ..Default::default() },
        log.clone(),
    )
    .map_err(|e| CaseFail::new("C20/harness-node-start-failed", e))?;
    let (pv, pr) = (victim.peer, rogue.peer);
    rogue.send(Cmd::DialAddress(full_address(&victim)));
    if !wait_until(&log, Duration::from_millis(3000), |l| connected(l, 1, &pv) && connected(l, 0, &pr)) {
        return Err(CaseFail::new("C20/harness-calibration-failed", "rogue and victim did not connect within 3 s"));
    }
    // what is sent: per block (prefix, data); block data is made distinct by construction (index in front)
    let mut sent: Vec<(Vec<u8>, Vec<u8>)> = Vec::new();
    let mut frames: Vec<Vec<u8>> = Vec::new();
    let mut tampered_any = false;
    let mut several_with_bad_in_front = false;
    for m in &c.messages {
        let mut msg = bs::SchemaMessage::default();
        let mut bad_seen = false;
        for b in m {
            let (prefix, mut data, tampered, _) = build_block(b);
            tampered_any |= tampered;
            // distinct payloads: a running number in front (the prefix describes the hash function, not the content)
            let tag = (sent.len() as u32).to_le_bytes();
            data.splice(0..0, tag);
            match expectation(&prefix, &data) {
                Some(true) => {
                    if bad_seen {
                        several_with_bad_in_front = true;
                    }
                }
                _ => bad_seen = true,
            }
            msg.payload.push(Default::default());
            let blk = msg.payload.last_mut().unwrap();
            blk.prefix = prefix.clone();
            blk.data = data.clone();
            sent.push((prefix, data));
        }
        let body = msg.encode_to_vec();
        let mut f = uvarint(body.len() as u64);
        f.extend(body);
        frames.push(f);
    }
    // one inbound substream per peer is served at a time (a new one replaces the old one): the next substream is opened only
    // after everything deliverable of the previous one has reached the user
    let per = c.per_substream.max(1) as usize;
    let mut block_at = 0usize;
    for (k, chunk) in frames.chunks(per).enumerate() {
        let _ = rogue.probes[0].send(ProbeCmd::RawOpen { peer: pv, chunks: chunk.to_vec(), gap_ms: 1, hold_ms: 150 });
        let n_blocks: usize = c.messages[k * per..(k * per + chunk.len())].iter().map(|m| m.len()).sum();
        let deliverable: Vec<Vec<u8>> = sent[block_at..block_at + n_blocks].iter().filter(|(p, d)| expectation(p, d) == Some(true)).map(|(_, d)| d.clone()).collect();
        block_at += n_blocks;
        if !deliverable.is_empty() {
            wait_until(&log, Duration::from_millis(2500), |l| {
                deliverable.iter().all(|want| l.iter().any(|o| o.node == 0 && matches!(&o.kind, ObsKind::BitswapResponse { blocks, .. } if blocks.iter().any(|(_, d)| d == want))))
            });
        } else {
            std::thread::sleep(Duration::from_millis(40));
        }
    }
    std::thread::sleep(Duration::from_millis(60));
    let history: Vec<Obs> = log.lock().clone();
    for p in crate::f4::case_panics(case_id) {
        if p.thread.ends_with("-node0") {
            fail!(format!("panic@{}", p.location), "the node panicked on a Bitswap message: {}", p.message);
        }
    }
    // ---- oracle ----
    let mut used = vec![false; sent.len()];
    let mut last_index: Option<usize> = None;
    let mut delivered = 0usize;
    for o in history.iter().filter(|o| o.node == 0) {
        let ObsKind::BitswapResponse { blocks, .. } = &o.kind else { continue };
        for (cid_bytes, data) in blocks {
            delivered += 1;
            let cid = Cid::read_bytes(&cid_bytes[..]).map_err(|e| CaseFail::new("C20/delivered-cid-does-not-parse", format!("{e:?}")))?;
            // (1) the identifier hashes the delivered bytes
            let digest = digest_for(cid.hash().code(), data);
            let d = cid.hash().digest();
            let hashes = digest.as_ref().map(|full| !d.is_empty() && d.len() <= full.len() && d == &full[..d.len()]).unwrap_or(false);
            ensure!(
                hashes,
                "C20/block-delivered-under-an-identifier-that-does-not-hash-to-it",
                "the user was handed {} bytes (starting {:?}) under {cid}, whose digest is not the hash of those bytes",
                data.len(),
                &data[..data.len().min(8)]
            );
            // (2) it is one of the blocks that arrived, each at most once, in arrival order
            let Some(j) = sent.iter().position(|(_, sd)| sd == data) else {
                fail!("C20/delivered-bytes-were-never-received", "{} bytes under {cid}", data.len());
            };
            ensure!(!used[j], "C20/block-delivered-twice", "block {j}");
            used[j] = true;
            if let Some(l) = last_index {
                ensure!(j > l, "C20/blocks-delivered-out-of-order", "block {j} after block {l}");
            }
            last_index = Some(j);
            // (3) a block whose prefix is malformed or uncomputable is dropped
            ensure!(expectation(&sent[j].0, &sent[j].1) != Some(false), "C20/uncomputable-prefix-delivered", "block {j} prefix {:?} delivered under {cid}", sent[j].0);
        }
    }
    // a canonical valid block must reach the user — judged only when the message it came in was demonstrably processed
    // (another block of the same message was delivered); a message of which nothing arrived within the wait says nothing
    // (the rogue's writes have timeouts of their own and the machine may be busy)
    let mut msg_of: Vec<usize> = Vec::new();
    for (mi, m) in c.messages.iter().enumerate() {
        msg_of.extend(std::iter::repeat(mi).take(m.len()));
    }
    let mut unprocessed = false;
    for (j, (p, d)) in sent.iter().enumerate() {
        if expectation(p, d) == Some(true) && !used[j] {
            let processed = (0..sent.len()).any(|k| k != j && msg_of[k] == msg_of[j] && used[k]);
            ensure!(!processed, "C20/valid-block-dropped", "block {j} of {} ({} bytes, prefix {:?}) never reached the user although other blocks of the same message did; {delivered} blocks delivered", sent.len(), d.len(), p);
            unprocessed = true;
        }
    }
    Ok(CaseOk::trivial()
        .nt(several_with_bad_in_front || tampered_any)
        .class_if(several_with_bad_in_front, "valid-block-behind-an-undeliverable-one-in-one-message")
        .class_if(tampered_any, "tampered")
        .class_if(delivered > 0, "some-delivered")
        .class_if(sent.len() > delivered, "some-dropped")
        .class_if(unprocessed, "a-message-with-a-valid-block-was-not-processed-in-time"))
}
