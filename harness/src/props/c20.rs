//! C20 — Bitswap blocks are verified against their content identifier; responses are split losslessly.

use crate::common::uvarint;
use crate::engine::{fill_bytes, CampaignCfg, CaseFail, CaseOk, CaseResult, Ctx};
use crate::{ensure, fail};
use cid::Cid;
use litep2p::protocol::libp2p::bitswap::verif as bs;
use litep2p::protocol::libp2p::bitswap::{BlockPresenceType, ResponseType};
use multihash_codetable::{Code, MultihashDigest};
use proptest::prelude::*;
use prost::Message;
use serde::{Deserialize, Serialize};
use sha2::{Digest, Sha256, Sha512};
use std::collections::VecDeque;

#[derive(Debug, Clone, Serialize, Deserialize)]
pub enum PrefixForm {
    Canonical,
    Trailing(u8),
    Truncated(u8),
    OverlongVersion,
    Empty,
    Raw(Vec<u8>),
}

#[derive(Debug, Clone, Serialize, Deserialize)]
pub struct BlockCase {
    pub version: u64,
    pub codec: u64,
    pub mh_code: u64,
    /// None = the true digest length of the hash function
    pub declared_len: Option<u64>,
    pub data_len: u32,
    pub data_seed: u64,
    /// flip one byte of the data after the honest sender computed its CID
    pub tamper_at: Option<u32>,
    pub form: PrefixForm,
    /// literal block bytes (byte-level entry); None = derived from `data_seed` / `data_len`
    #[serde(default)]
    pub raw_data: Option<Vec<u8>>,
}

pub fn block_strategy() -> impl Strategy<Value = BlockCase> {
    let version = prop_oneof![5 => Just(1u64), 3 => Just(0u64), 1 => Just(2u64), 1 => Just(3u64), 1 => any::<u64>()];
    let codec = prop_oneof![4 => Just(0x55u64), 4 => Just(0x70u64), 1 => Just(0x71u64), 1 => any::<u64>()];
    let mh = prop_oneof![
        6 => Just(0x12u64), 2 => Just(0x13u64), 1 => Just(0x14u64), 1 => Just(0x15u64), 1 => Just(0x16u64), 1 => Just(0x17u64),
        1 => Just(0x1au64), 1 => Just(0x1bu64), 1 => Just(0x1cu64), 1 => Just(0x1du64),
        2 => Just(0xb220u64), 2 => Just(0xb240u64), 1 => Just(0xb260u64),
        1 => Just(0x00u64), 1 => Just(0x11u64), 1 => Just(0x1eu64), 1 => Just(0xb250u64), 1 => any::<u64>(),
    ];
    let declared = prop_oneof![6 => Just(None), 1 => (0u64..70).prop_map(Some), 1 => Just(Some(255u64)), 1 => Just(Some(256u64)), 1 => any::<u64>().prop_map(Some)];
    let len = prop_oneof![4 => 0u32..64, 3 => 64u32..4096, 1 => 4096u32..300_000];
    let form = prop_oneof![
        12 => Just(PrefixForm::Canonical),
        1 => any::<u8>().prop_map(PrefixForm::Trailing),
        1 => (0u8..6).prop_map(PrefixForm::Truncated),
        1 => Just(PrefixForm::OverlongVersion),
        1 => Just(PrefixForm::Empty),
        1 => prop::collection::vec(any::<u8>(), 0..12).prop_map(PrefixForm::Raw),
    ];
    (version, codec, mh, declared, len, any::<u64>(), prop::option::weighted(0.3, any::<u32>()), form).prop_map(
        |(version, codec, mh_code, declared_len, data_len, data_seed, tamper_at, form)| BlockCase {
            version,
            codec,
            mh_code,
            declared_len,
            data_len,
            data_seed,
            tamper_at,
            form,
            raw_data: None,
        },
    )
}

/// Independent digest computation: sha2 crate for SHA2-256/512, the multihash code table for the rest.
pub fn digest_for(code: u64, data: &[u8]) -> Option<Vec<u8>> {
    match code {
        0x12 => Some(Sha256::digest(data).to_vec()),
        0x13 => Some(Sha512::digest(data).to_vec()),
        other => Code::try_from(other).ok().map(|c| c.digest(data).digest().to_vec()),
    }
}

/// Independent prefix parser following the statement of the wire format: four minimal-or-not varints, nothing else.
pub fn parse_prefix(b: &[u8]) -> Option<(u64, u64, u64, u64)> {
    fn rd(b: &[u8]) -> Option<(u64, &[u8])> {
        let mut v: u64 = 0;
        for (i, byte) in b.iter().enumerate() {
            if i >= 10 {
                return None;
            }
            let low = (byte & 0x7f) as u64;
            if i == 9 && low > 1 {
                return None;
            }
            v |= low << (7 * i);
            if byte & 0x80 == 0 {
                // unsigned-varint rejects non-minimal encodings (trailing zero byte)
                if i > 0 && *byte == 0 {
                    return None;
                }
                return Some((v, &b[i + 1..]));
            }
        }
        None
    }
    let (a, r) = rd(b)?;
    let (c, r) = rd(r)?;
    let (d, r) = rd(r)?;
    let (e, r) = rd(r)?;
    if !r.is_empty() {
        return None;
    }
    Some((a, c, d, e))
}

/// The (prefix, data) pair a case stands for, whether the data was altered after the honest sender computed its CID, and the
/// unaltered data.
pub fn build_block(c: &BlockCase) -> (Vec<u8>, Vec<u8>, bool, Vec<u8>) {
    let original = c.raw_data.clone().unwrap_or_else(|| fill_bytes(c.data_seed, c.data_len as usize));
    let true_len = digest_for(c.mh_code, &original).map(|d| d.len() as u64);
    let declared = c.declared_len.or(true_len).unwrap_or(32);
    let mut prefix = Vec::new();
    prefix.extend(uvarint(c.version));
    prefix.extend(uvarint(c.codec));
    prefix.extend(uvarint(c.mh_code));
    prefix.extend(uvarint(declared));
    let prefix = match &c.form {
        PrefixForm::Canonical => prefix,
        PrefixForm::Trailing(b) => {
            let mut p = prefix;
            p.push(*b);
            p
        }
        PrefixForm::Truncated(n) => {
            let keep = prefix.len().saturating_sub(1 + *n as usize);
            prefix[..keep].to_vec()
        }
        PrefixForm::OverlongVersion => {
            let mut p = crate::common::uvarint_overlong(c.version);
            p.extend(uvarint(c.codec));
            p.extend(uvarint(c.mh_code));
            p.extend(uvarint(declared));
            p
        }
        PrefixForm::Empty => vec![],
        PrefixForm::Raw(r) => r.clone(),
    };
    // the honest sender's CID, then tampering in transit
    let mut data = original.clone();
    let tampered = match c.tamper_at {
        Some(at) if !data.is_empty() => {
            let i = at as usize % data.len();
            data[i] ^= 0x01;
            true
        }
        _ => false,
    };
    (prefix, data, tampered, original)
}

/// Must a block with this (well-formed) prefix be delivered / dropped? (None = either is acceptable)
pub fn expectation(prefix: &[u8], data: &[u8]) -> Option<bool> {
    let Some((version, codec, code, declared_len)) = parse_prefix(prefix) else { return Some(false) };
    let digest = digest_for(code, data);
    let version_ok = version == 0 || version == 1;
    let computable = digest.as_ref().map(|d| d.len() <= 64).unwrap_or(false);
    let v0_ok = version != 0 || (codec == 0x70 && code == 0x12);
    if !version_ok || !computable || !v0_ok || declared_len > 255 {
        return Some(false);
    }
    if Some(declared_len) == digest.as_ref().map(|d| d.len() as u64) {
        return Some(true);
    }
    None
}

fn run_block(c: &BlockCase) -> CaseResult {
    let peer = crate::common::peer_from_seed(20);
    let (prefix, data, tampered, original) = build_block(c);
    let got = bs::block_to_response(&peer, prefix.clone(), data.clone());
    let parsed = parse_prefix(&prefix);
    let mut ok = CaseOk::trivial().class_if(tampered, "tampered");
    match (&got, parsed) {
        (None, None) => Ok(ok.nt(true).class("malformed-prefix-dropped")),
        (Some(_), None) => fail!("C20/malformed-prefix-accepted", "prefix {:?}", prefix),
        (got, Some((version, codec, code, declared_len))) => {
            let digest = digest_for(code, &data);
            let version_ok = version == 0 || version == 1;
            let computable = digest.as_ref().map(|d| d.len() <= 64).unwrap_or(false);
            let v0_ok = version != 0 || (codec == 0x70 && code == 0x12);
            let must_drop = !version_ok || !computable || !v0_ok || declared_len > 255;
            match got {
                None => {
                    // dropping is always safe for the first clause; demand delivery only for the canonical well-formed shape
                    let canonical = version_ok && computable && v0_ok && Some(declared_len) == digest.as_ref().map(|d| d.len() as u64);
                    ensure!(!canonical, "C20/valid-block-dropped", "version {version} codec {codec:#x} code {code:#x} len {}", data.len());
                    Ok(ok.nt(true).class("uncomputable-or-unsupported-dropped"))
                }
                Some(ResponseType::Block { cid, block }) => {
                    ensure!(!must_drop, "C20/uncomputable-prefix-delivered", "version {version} codec {codec:#x} code {code:#x} declared {declared_len} -> {cid}");
                    let digest = digest.unwrap();
                    ensure!(*block == data, "C20/delivered-bytes-differ-from-received", "len {} vs {}", block.len(), data.len());
                    ensure!(u64::from(cid.version()) == version, "C20/cid-version-differs-from-prefix", "{cid}");
                    ensure!(cid.codec() == codec, "C20/cid-codec-differs-from-prefix", "{cid}");
                    ensure!(cid.hash().code() == code, "C20/cid-hash-code-differs-from-prefix", "{cid}");
                    let d = cid.hash().digest();
                    // full digest of the received bytes (or its truncation to the declared length)
                    let full = d == &digest[..];
                    let truncated = (declared_len as usize) < digest.len() && d == &digest[..declared_len as usize] && !d.is_empty();
                    ensure!(full || truncated, "C20/cid-does-not-hash-received-bytes", "cid {cid} for {} bytes (tampered {tampered})", data.len());
                    if tampered {
                        let sender_digest = digest_for(code, &original).unwrap();
                        ensure!(d != &sender_digest[..], "C20/tampered-block-reported-under-sender-cid", "{cid}");
                    }
                    ok = ok.class("delivered").class_if(code != 0x12, "non-sha256").class_if(version == 0, "cidv0");
                    Ok(ok.nt(tampered || code != 0x12 || !matches!(c.form, PrefixForm::Canonical)))
                }
                Some(ResponseType::Presence { .. }) => fail!("C20/block-became-presence", "{:?}", prefix),
            }
        }
    }
}

#[derive(Debug, Clone, Serialize, Deserialize)]
pub enum Entry {
    Block { len: u32, seed: u64, v0: bool, #[serde(default)] hasher: u8 },
    Presence { seed: u64, have: bool },
    Run { count: u32, len: u32 },
}

#[derive(Debug, Clone, Serialize, Deserialize)]
pub struct BatchCase {
    pub entries: Vec<Entry>,
}

const MIB: u32 = 1024 * 1024;

fn batch_strategy(max_entries: usize, big: bool) -> impl Strategy<Value = BatchCase> {
    let len = if big {
        prop_oneof![
            4 => 0u32..2048,
            3 => 2048u32..300_000,
            2 => (MIB / 2)..(MIB + MIB / 2),
            2 => (2 * MIB - 3)..(2 * MIB + 3),
            1 => (2 * MIB + 3)..(3 * MIB),
            1 => (4 * MIB - 40)..(4 * MIB + 40),
            1 => Just(0u32),
        ]
        .boxed()
    } else {
        prop_oneof![6 => 0u32..2048, 2 => 2048u32..100_000, 1 => Just(0u32)].boxed()
    };
    let entry = prop_oneof![
        10 => (len, any::<u64>(), prop::bool::weighted(0.2), prop_oneof![3 => Just(0u8), 1 => 1u8..6]).prop_map(|(len, seed, v0, hasher)| Entry::Block { len, seed, v0, hasher }),
        2 => (any::<u64>(), any::<bool>()).prop_map(|(seed, have)| Entry::Presence { seed, have }),
        1 => (1u32..400, prop_oneof![Just(0u32), 0u32..64, 5000u32..6000]).prop_map(|(count, len)| Entry::Run { count, len }),
    ];
    prop::collection::vec(entry, 1..max_entries).prop_map(|entries| BatchCase { entries })
}

const HASHERS: [u64; 6] = [0x12, 0x13, 0xb220, 0x16, 0x1b, 0xb240];

fn cid_for_hasher(data: &[u8], v0: bool, hasher: u8) -> Cid {
    let code = HASHERS[hasher as usize % HASHERS.len()];
    if code == 0x12 {
        return cid_for(data, v0);
    }
    let d = digest_for(code, data).expect("compiled hasher");
    Cid::new_v1(0x55, cid::multihash::Multihash::<64>::wrap(code, &d).unwrap())
}

fn cid_for(data: &[u8], v0: bool) -> Cid {
    let mh = cid::multihash::Multihash::<64>::wrap(0x12, &Sha256::digest(data)).unwrap();
    if v0 {
        Cid::new_v0(mh).unwrap()
    } else {
        Cid::new_v1(0x55, mh)
    }
}

fn run_batch(c: &BatchCase) -> CaseResult {
    let peer = crate::common::peer_from_seed(20);
    // expand
    let mut blocks: Vec<(Cid, Vec<u8>)> = Vec::new();
    let mut presences: Vec<(Cid, BlockPresenceType)> = Vec::new();
    let mut total: usize = 0;
    for e in &c.entries {
        match e {
            Entry::Block { len, seed, v0, hasher } => {
                if total + *len as usize > 14 * MIB as usize {
                    continue;
                }
                let data = fill_bytes(*seed, *len as usize);
                total += data.len();
                blocks.push((cid_for_hasher(&data, *v0, *hasher), data));
            }
            Entry::Presence { seed, have } => {
                let data = fill_bytes(*seed, 8);
                presences.push((cid_for(&data, false), if *have { BlockPresenceType::Have } else { BlockPresenceType::DontHave }));
            }
            Entry::Run { count, len } => {
                for i in 0..*count {
                    if total + *len as usize > 14 * MIB as usize {
                        break;
                    }
                    let mut data = vec![0u8; *len as usize];
                    if data.len() >= 4 {
                        data[..4].copy_from_slice(&i.to_le_bytes());
                    }
                    total += data.len();
                    blocks.push((cid_for(&data, false), data));
                }
            }
        }
    }
    let input = blocks.clone();
    // what send_response does with the blocks
    let mut queue: VecDeque<(Cid, Vec<u8>)> = blocks.into();
    let mut sent: Vec<(Cid, Vec<u8>)> = Vec::new();
    let mut messages = 0usize;
    let mut skipped_messages = 0usize;
    let mut guard = 0usize;
    while let Some(batch) = bs::extract_next_batch(&mut queue, bs::MAX_BATCH_SIZE) {
        guard += 1;
        ensure!(guard <= input.len() + 2, "C20/batching-does-not-terminate", "{} iterations for {} blocks", guard, input.len());
        if batch.is_empty() {
            ensure!(queue.is_empty(), "C20/empty-batch-with-blocks-left", "{} left", queue.len());
            break;
        }
        let batch_bytes: usize = batch.iter().map(|b| b.1.len()).sum();
        ensure!(batch_bytes <= bs::MAX_BATCH_SIZE, "C20/batch-exceeds-batch-size", "{batch_bytes}");
        let Some((msg, count)) = bs::blocks_message(batch.clone()) else {
            fail!("C20/no-message-for-non-empty-batch", "{} blocks", batch.len());
        };
        ensure!(count == batch.len(), "C20/message-block-count-differs", "{count} vs {}", batch.len());
        if msg.len() > bs::MAX_MESSAGE_SIZE {
            // the sender logs and skips such a message: its blocks are *not sent*
            skipped_messages += 1;
            continue;
        }
        messages += 1;
        // receiver side: decode and verify every block
        let decoded = bs::SchemaMessage::decode(&msg[..]).map_err(|e| CaseFail::new("C20/own-message-does-not-decode", e.to_string()))?;
        ensure!(decoded.payload.len() == batch.len(), "C20/decoded-block-count-differs", "{} vs {}", decoded.payload.len(), batch.len());
        for (blk, (cid, data)) in decoded.payload.into_iter().zip(batch.iter()) {
            match bs::block_to_response(&peer, blk.prefix, blk.data) {
                Some(ResponseType::Block { cid: rc, block }) => {
                    ensure!(rc == *cid && block == *data, "C20/sender-receiver-roundtrip-differs", "sent {cid} got {rc}");
                }
                _ => fail!("C20/own-block-rejected-by-receiver", "{cid} ({} bytes)", data.len()),
            }
        }
        sent.extend(batch);
    }
    // in-order subsequence without repetition, containing every block that fits a batch
    let mut it = input.iter().enumerate();
    let mut used = vec![false; input.len()];
    for (cid, data) in &sent {
        let mut found = false;
        for (i, (icid, idata)) in it.by_ref() {
            if icid == cid && idata.len() == data.len() && idata == data {
                used[i] = true;
                found = true;
                break;
            }
        }
        ensure!(found, "C20/sent-blocks-not-an-in-order-subsequence", "block {cid} ({} bytes) duplicated, reordered or invented", data.len());
    }
    let mut oversized = 0usize;
    for (i, (cid, data)) in input.iter().enumerate() {
        if data.len() <= bs::MAX_BATCH_SIZE {
            ensure!(
                used[i],
                "C20/fitting-block-not-sent",
                "block #{i} {cid} of {} bytes was not sent ({} messages skipped for size)",
                data.len(),
                skipped_messages
            );
        } else {
            oversized += 1;
        }
    }
    // presences: one message, round trip
    if !presences.is_empty() {
        let Some((msg, count)) = bs::presences_message(presences.clone()) else {
            fail!("C20/no-message-for-presences", "{}", presences.len());
        };
        ensure!(count == presences.len(), "C20/presence-count-differs", "{count}");
        let decoded = bs::SchemaMessage::decode(&msg[..]).map_err(|e| CaseFail::new("C20/own-message-does-not-decode", e.to_string()))?;
        ensure!(decoded.block_presences.len() == presences.len() && decoded.payload.is_empty(), "C20/presence-roundtrip-differs", "");
        for (p, (cid, ty)) in decoded.block_presences.iter().zip(presences.iter()) {
            ensure!(Cid::read_bytes(&p.cid[..]).ok() == Some(*cid) && p.r#type == *ty as i32, "C20/presence-roundtrip-differs", "{cid}");
        }
    } else {
        ensure!(bs::presences_message(vec![]).is_none(), "C20/message-for-no-presences", "");
    }
    Ok(CaseOk::trivial()
        .nt(messages >= 2 || oversized > 0)
        .class_if(messages >= 2, "multi-message")
        .class_if(messages >= 4, "ge-4-messages")
        .class_if(oversized > 0, "oversized-block-present")
        .class_if(input.len() >= 200, "ge-200-blocks")
        .class_if(skipped_messages > 0, "message-over-limit-skipped"))
}

/// Byte-level entry (libFuzzer, thorough tier): byte 0 is the selector (one conversion only), byte 1 the prefix length
/// (0..23), then the literal prefix and the literal block; judged by the `blocks` oracle.
pub fn fuzz_bytes(data: &[u8]) -> Option<crate::engine::FuzzOutcome> {
    if data.len() < 2 {
        return None;
    }
    let plen = (data[1] as usize % 24).min(data.len() - 2);
    let c = BlockCase {
        version: 1,
        codec: 0x55,
        mh_code: 0x12,
        declared_len: None,
        data_len: 0,
        data_seed: 0,
        tamper_at: None,
        form: PrefixForm::Raw(data[2..2 + plen].to_vec()),
        raw_data: Some(data[2 + plen..].to_vec()),
    };
    Some(crate::engine::FuzzOutcome { sub: "blocks".into(), case: serde_json::to_value(&c).ok()?, result: crate::engine::guarded(|| run_block(&c)) })
}

pub fn fuzz_seed_corpus() -> Vec<Vec<u8>> {
    let mut out = Vec::new();
    for (k, (version, codec, code)) in [(1u64, 0x55u64, 0x12u64), (0, 0x70, 0x12), (1, 0x70, 0x13), (1, 0x71, 0xb220), (1, 0x55, 0x16), (1, 0x55, 0x1b), (1, 0x55, 0xb240), (1, 0x55, 0x00), (2, 0x55, 0x12)].iter().enumerate() {
        let data = fill_bytes(k as u64, 3 + 17 * k);
        let len = digest_for(*code, &data).map(|d| d.len() as u64).unwrap_or(32);
        let mut prefix = Vec::new();
        for v in [*version, *codec, *code, len] {
            prefix.extend(uvarint(v));
        }
        let mut v = vec![0u8, prefix.len() as u8];
        v.extend(prefix);
        v.extend(data);
        out.push(v);
    }
    out
}

pub fn run(ctx: &mut Ctx) {
    ctx.rule = "(blocks) prefix = (version in {0,1,2,3,any}, codec, multihash code over all compiled hashers + unsupported + identity, declared length right/wrong) in canonical / \
        trailing-byte / truncated / overlong-varint / empty / raw form, data 0..300 KB, optional single-byte tampering after the honest sender computed its CID; \
        (batching) response sets of 1..60 entries mixing blocks (0 B..3 MiB, around the 2 MiB batch and 4 MiB message limits), presences and runs of up to 400 tiny/empty \
        blocks, total <= 14 MiB. Non-trivial = tampered, or non-SHA-256 / non-canonical / dropped prefix (blocks); >= 2 messages or an oversized block in the set (batching); distinct by case hash."
        .into();
    ctx.assumptions = vec![
        "SHA2-256/512 recomputed with the sha2 crate; other hashers through multihash-codetable (same library as the code under test)".into(),
        "blocks between MAX_BATCH_SIZE and MAX_MESSAGE_SIZE are dropped by design (documented application limit): nothing asserted for them".into(),
        "a wrong declared digest length is not treated as malformed (the CID must still hash the received bytes, fully or truncated to the declared length)".into(),
        "the batching loop of send_response (3 lines: extract_next_batch, blocks_message, size check) is re-stated in the harness; its pieces are the real functions".into(),
    ];
    let t = ctx.tier;
    ctx.campaign("blocks", CampaignCfg::new(t.pick(40_000, 1_500_000)).shards(16), block_strategy, run_block);
    ctx.campaign("batching-small", CampaignCfg::new(t.pick(3_000, 100_000)).shards(16), || batch_strategy(60, false), run_batch);
    // tiny-block class: batch accounting ignores the per-block protobuf overhead
    let tiny: Vec<BatchCase> = t
        .pick(vec![(20_000u32, 0u32), (60_000, 3)], vec![(20_000, 0), (60_000, 3), (180_000, 0), (200_000, 11), (400_000, 1), (400_000, 0)])
        .into_iter()
        .map(|(count, len)| BatchCase { entries: vec![Entry::Run { count, len }] })
        .collect();
    ctx.enumerate("tiny-blocks", false, tiny, run_batch);
    ctx.campaign("batching-big", CampaignCfg::new(t.pick(320, 12_000)).shards(16).shrink_iters(300), || batch_strategy(14, true), run_batch);
    ctx.campaign("responses-between-nodes", CampaignCfg::new(t.pick(3_000, 60_000)).shards(16).shrink_iters(30), super::c20_responses::strategy, super::c20_responses::run_case);
    ctx.campaign("inbound-messages", CampaignCfg::new(t.pick(800, 20_000)).shards(16).shrink_iters(40), super::c20_nodes::strategy, super::c20_nodes::run_case);
}
