//! C11 against a misbehaving remote: the remote is a rogue node whose user protocol carries the notification protocol's
//! name and speaks raw bytes. The victim opens streams to it and is opened streams by it; the rogue answers the victim's
//! substream by closing it unread, reading and closing, a handshake frame of garbage length, a correct handshake, half a
//! frame and then silence, or nothing at all, and opens (or does not open) its own substream towards the victim with a
//! correct, oversized, truncated or absent handshake, before or after the victim's request.
//!
//! Oracle (the victim's user-visible history for the rogue peer): every open request issued on a fresh connection (and not
//! within 100 ms of a substream the rogue opens itself: then a negotiation may be in progress) is answered by exactly one of
//! opened / open-failure within 13 s (negotiation timeout 10 s, reverse-substream timer 5 s,
//! substream open timeout 1.5 s) unless the connection went away first; opened and closed alternate; no open-failure while
//! the stream is open; an inbound stream is opened only after the user accepted it; when the connection is cut an open
//! stream is reported closed; no panic; afterwards the victim still serves an honest peer.

use crate::common::uvarint;
use crate::engine::{CaseFail, CaseOk, CaseResult};
use crate::f4::{case_panics, full_address, new_case_id, wait_until, Cmd, Log, Node, NodeSetup, NotifSetup, Obs, ObsKind, ProbeCmd, RawReply, NOTIF_PROTOCOL};
use crate::{ensure, fail};
use litep2p::PeerId;
use proptest::prelude::*;
use serde::{Deserialize, Serialize};
use std::sync::Arc;
use std::time::{Duration, Instant};

/// What the rogue does with a substream the victim opened to it.
#[derive(Debug, Clone, Copy, PartialEq, Eq, Serialize, Deserialize)]
pub enum Reply {
    /// hold it, never read nor write
    Hold,
    CloseUnread,
    ReadAndClose,
    /// the correct handshake frame
    Handshake,
    /// a correct handshake frame, then the substream is dropped at once
    HandshakeAndClose,
    /// a frame announcing more than the maximum handshake size
    TooBig,
    /// a length prefix announcing 40 bytes followed by 3, then silence
    HalfFrame,
    /// an empty frame
    EmptyFrame,
    /// two handshake frames and a stray byte
    Twice,
}

/// What the rogue writes on a substream it opens to the victim (`None` = it opens none).
#[derive(Debug, Clone, Copy, PartialEq, Eq, Serialize, Deserialize)]
pub enum Hello {
    Handshake,
    /// handshake, then (60 ms later) a notification larger than the victim's maximum
    HandshakeThenOversizedNotification,
    /// handshake followed by two well-formed notifications in the same write
    HandshakeThenNotifications,
    TooBig,
    HalfFrame,
    /// opens the substream and writes nothing
    Nothing,
    /// opens the substream and drops it at once
    OpenAndDrop,
}

#[derive(Debug, Clone, Serialize, Deserialize)]
pub struct Step {
    /// the victim's user asks for a stream (after `victim_delay_ms`)
    pub victim_opens: bool,
    pub reply: Reply,
    /// the rogue opens a substream of its own, `Some(delay in ms)` after the step starts
    pub rogue_opens: Option<(u8, Hello)>,
    pub victim_delay_ms: u8,
    /// how the step ends: 0 the victim force-closes the connection, 1 the rogue does, 2 the rogue node is killed
    pub end: u8,
}

#[derive(Debug, Clone, Serialize, Deserialize)]
pub struct Case {
    pub seed: u64,
    pub auto_accept: bool,
    /// the victim's validation policy: 0 accept, 1 reject, 3 accept after 100 ms
    pub policy: u8,
    pub steps: Vec<Step>,
}

pub fn strategy() -> impl Strategy<Value = Case> {
    let reply = prop_oneof![
        2 => Just(Reply::Hold),
        2 => Just(Reply::CloseUnread),
        2 => Just(Reply::ReadAndClose),
        4 => Just(Reply::Handshake),
        2 => Just(Reply::HandshakeAndClose),
        1 => Just(Reply::TooBig),
        2 => Just(Reply::HalfFrame),
        1 => Just(Reply::EmptyFrame),
        1 => Just(Reply::Twice),
    ];
    let hello = prop_oneof![
        4 => Just(Hello::Handshake),
        2 => Just(Hello::HandshakeThenOversizedNotification),
        1 => Just(Hello::HandshakeThenNotifications),
        1 => Just(Hello::TooBig),
        2 => Just(Hello::HalfFrame),
        2 => Just(Hello::Nothing),
        2 => Just(Hello::OpenAndDrop),
    ];
    let step = (
        prop::bool::weighted(0.75),
        reply,
        prop::option::weighted(0.6, (prop_oneof![Just(0u8), Just(2), Just(30), Just(200)], hello)),
        prop_oneof![Just(0u8), Just(2), Just(30)],
        prop_oneof![3 => Just(0u8), 2 => Just(1), 1 => Just(2)],
    )
        .prop_map(|(victim_opens, reply, rogue_opens, victim_delay_ms, end)| Step { victim_opens, reply, rogue_opens, victim_delay_ms, end });
    (any::<u64>(), any::<bool>(), prop_oneof![3 => Just(0u8), 1 => Just(1), 1 => Just(3)], prop::collection::vec(step, 1..4))
        .prop_map(|(seed, auto_accept, policy, steps)| Case { seed, auto_accept, policy, steps })
}

const HANDSHAKE: [u8; 4] = [1, 2, 3, 4];
const MAX_NOTIFICATION: usize = 1024;

fn framed(body: &[u8]) -> Vec<u8> {
    let mut v = uvarint(body.len() as u64);
    v.extend_from_slice(body);
    v
}

fn connected(log: &[Obs], node: usize, peer: &PeerId) -> bool {
    let mut up = false;
    for o in log.iter().filter(|o| o.node == node) {
        match &o.kind {
            ObsKind::ConnEstablished { peer: p, .. } if p == peer => up = true,
            ObsKind::ConnClosed { peer: p } if p == peer => up = false,
            _ => {}
        }
    }
    up
}

fn reply_plan(r: Reply) -> Option<RawReply> {
    Some(match r {
        Reply::Hold => return None,
        Reply::CloseUnread => RawReply { read_first: false, chunks: vec![], hold_ms: 0 },
        Reply::ReadAndClose => RawReply { read_first: true, chunks: vec![], hold_ms: 0 },
        Reply::Handshake => RawReply { read_first: true, chunks: vec![framed(&HANDSHAKE)], hold_ms: 20_000 },
        Reply::HandshakeAndClose => RawReply { read_first: true, chunks: vec![framed(&HANDSHAKE)], hold_ms: 0 },
        Reply::TooBig => RawReply { read_first: true, chunks: vec![uvarint(1 << 30), vec![9u8; 32]], hold_ms: 3000 },
        Reply::HalfFrame => RawReply { read_first: true, chunks: vec![{ let mut v = uvarint(40); v.extend_from_slice(&[1, 2, 3]); v }], hold_ms: 20_000 },
        Reply::EmptyFrame => RawReply { read_first: true, chunks: vec![vec![0]], hold_ms: 3000 },
        Reply::Twice => RawReply { read_first: true, chunks: vec![{ let mut v = framed(&HANDSHAKE); v.extend(framed(&HANDSHAKE)); v.push(0x7f); v }], hold_ms: 3000 },
    })
}

fn hello_plan(h: Hello) -> (Vec<Vec<u8>>, u16, u16) {
    match h {
        Hello::Handshake => (vec![framed(&HANDSHAKE)], 0, 20_000),
        Hello::HandshakeThenOversizedNotification => (vec![framed(&HANDSHAKE), framed(&vec![5u8; MAX_NOTIFICATION + 1])], 60, 3000),
        Hello::HandshakeThenNotifications => (vec![{ let mut v = framed(&HANDSHAKE); v.extend(framed(&[7; 9])); v.extend(framed(&[8; 10])); v }], 0, 20_000),
        Hello::TooBig => (vec![uvarint(1 << 30), vec![9u8; 32]], 0, 3000),
        Hello::HalfFrame => (vec![{ let mut v = uvarint(40); v.extend_from_slice(&[1, 2, 3]); v }], 0, 20_000),
        Hello::Nothing => (vec![], 0, 20_000),
        Hello::OpenAndDrop => (vec![], 0, 0),
    }
}

pub fn run_case(c: &Case) -> CaseResult {
    let log: Log = Arc::new(parking_lot::Mutex::new(Vec::new()));
    let case_id = new_case_id();
    let notif = |auto_accept: bool, policy: u8| NotifSetup { auto_accept, sync_channel: 64, async_channel: 8, max_size: MAX_NOTIFICATION, handshake: HANDSHAKE.to_vec(), policy };
    let base = |seed: u64| NodeSetup {
        seed,
        keep_alive: Some(Duration::from_secs(30)),
        probes: 1,
        case_id,
        connection_open_timeout: Some(Duration::from_millis(1500)),
        substream_open_timeout: Some(Duration::from_millis(1500)),
        ..Default::default()
    };
    let victim = Node::spawn(0, NodeSetup { notif: Some(notif(c.auto_accept, c.policy)), ..base(c.seed % 300 + 111_000) }, log.clone()).map_err(|e| CaseFail::new("C11/harness-node-start-failed", e))?;
    let pv = victim.peer;
    let victim_addr = full_address(&victim);
    let mut rogue_seed = c.seed % 300 + 112_000;
    let spawn_rogue = |seed: u64| Node::spawn(1, NodeSetup { probe_names: vec![NOTIF_PROTOCOL.to_string()], ..base(seed) }, log.clone()).map_err(|e| CaseFail::new("C11/harness-node-start-failed", e));
    let mut rogue = spawn_rogue(rogue_seed)?;
    let mut victim = victim;

    let mut answered_opened = 0usize;
    let mut answered_failure = 0usize;
    let mut connection_lost_first = 0usize;
    let mut inbound_opened = 0usize;
    let mut closed_after_cut = 0usize;
    let mut faulty = 0usize;
    let mut remote_first = 0usize;
    let mut own_reject = 0usize;

    for (k, step) in c.steps.iter().enumerate() {
        let pr = rogue.peer;
        // a fresh connection: nothing is in progress for this peer
        rogue.send(Cmd::DialAddress(victim_addr.clone()));
        if !wait_until(&log, Duration::from_millis(3000), |l| connected(l, 0, &pr) && connected(l, 1, &pv)) {
            return Err(CaseFail::new("C11/harness-calibration-failed", "rogue and victim did not connect within 3 s"));
        }
        std::thread::sleep(Duration::from_millis(20));
        let mark = log.lock().len();
        let _ = rogue.probes[0].send(ProbeCmd::SetReply(reply_plan(step.reply)));
        std::thread::sleep(Duration::from_millis(5));
        if !matches!(step.reply, Reply::Handshake) || step.rogue_opens.map(|(_, h)| !matches!(h, Hello::Handshake | Hello::HandshakeThenNotifications)).unwrap_or(true) {
            faulty += 1;
        }
        // the two sides act after their delays
        let t0 = Instant::now();
        let mut todo: Vec<(u64, bool)> = Vec::new();
        if step.victim_opens {
            todo.push((step.victim_delay_ms as u64, true));
        }
        if let Some((d, _)) = step.rogue_opens {
            todo.push((d as u64, false));
        }
        todo.sort();
        for (at, is_victim) in todo {
            std::thread::sleep(Duration::from_millis(at).saturating_sub(t0.elapsed()));
            if is_victim {
                victim.send(Cmd::NotifOpen(pr));
            } else {
                let (chunks, gap_ms, hold_ms) = hello_plan(step.rogue_opens.unwrap().1);
                let _ = rogue.probes[0].send(ProbeCmd::RawOpen { peer: pv, chunks, gap_ms, hold_ms });
            }
        }
        // the victim's request: accepted by the handle?
        let mut requested = false;
        if step.victim_opens {
            if !wait_until(&log, Duration::from_millis(2000), |l| l[mark.min(l.len())..].iter().any(|o| o.node == 0 && matches!(&o.kind, ObsKind::NotifApi { what, .. } if what.starts_with("open")))) {
                return Err(CaseFail::new("C11/harness-node-not-responding", "open_substream did not return within 2 s"));
            }
            requested = log.lock()[mark..].iter().any(|o| o.node == 0 && matches!(&o.kind, ObsKind::NotifApi { what, ok: true } if what.starts_with("open")));
        }
        // "No negotiation in progress" when the request was made: the rogue opens no substream of its own, or calls for it
        // at least 100 ms after the victim's open_substream returned (a substream opened by the remote around the same
        // time may reach the protocol first, and then a negotiation is in progress: not judged).
        let judged = requested && {
            let l = log.lock();
            let api = l[mark..].iter().find(|o| o.node == 0 && matches!(&o.kind, ObsKind::NotifApi { what, .. } if what.starts_with("open"))).map(|o| o.t);
            let rogue_call = l[mark..].iter().find(|o| o.node == 1 && matches!(&o.kind, ObsKind::ProbeOpenCalled { .. })).map(|o| o.t);
            match (step.rogue_opens, api, rogue_call) {
                (None, _, _) => true,
                // the victim's own user would reject the validation of the reverse substream: the request is then discarded
                // silently (known finding of C11, pinned by the repository's tests): not judged here
                (Some(_), _, _) if c.policy == 1 && !c.auto_accept => {
                    own_reject += 1;
                    false
                }
                (Some(_), Some(a), Some(r)) => r >= a + Duration::from_millis(100),
                _ => false,
            }
        };
        let answers = |l: &[Obs]| l[mark.min(l.len())..].iter().filter(|o| o.node == 0 && matches!(&o.kind, ObsKind::NotifOpened { peer, .. } | ObsKind::NotifOpenFailure { peer, .. } if *peer == pr)).count();
        if requested {
            let got = wait_until(&log, Duration::from_secs(13), |l| answers(l) > 0 || !connected(l, 0, &pr));
            if !got && !judged {
                remote_first += 1;
            }
            if !got && judged {
                let l = log.lock();
                fail!(
                    "C11/clean-open-request-never-answered",
                    "step {k}: the victim asked for a stream on a fresh connection to a remote that answers its substream with {:?} and opens {:?}; neither opened nor open-failure within 13 s and the connection is still up; victim's events: {:?}",
                    step.reply,
                    step.rogue_opens,
                    l[mark..].iter().filter(|o| o.node == 0).map(|o| short(&o.kind)).collect::<Vec<_>>()
                );
            }
            if answers(&log.lock()) == 0 {
                connection_lost_first += 1;
            }
        } else {
            // let the rogue's own substream play out
            std::thread::sleep(Duration::from_millis(400));
        }
        std::thread::sleep(Duration::from_millis(120));
        let open_now = {
            let l = log.lock();
            let mut open = false;
            for o in l[mark..].iter().filter(|o| o.node == 0) {
                match &o.kind {
                    ObsKind::NotifOpened { peer, .. } if *peer == pr => open = true,
                    ObsKind::NotifClosed { peer } if *peer == pr => open = false,
                    _ => {}
                }
            }
            open
        };
        // the step ends with the connection going away
        let cut_mark = log.lock().len();
        match step.end % 3 {
            0 => {
                let _ = victim.probes[0].send(ProbeCmd::ForceClose(pr));
            }
            1 => {
                let _ = rogue.probes[0].send(ProbeCmd::ForceClose(pv));
            }
            _ => rogue.kill(),
        }
        if !wait_until(&log, Duration::from_millis(4000), |l| !connected(l, 0, &pr)) {
            // a force-close through a protocol that holds no handle any more (keep-alive) can be refused: kill instead
            rogue.kill();
            if !wait_until(&log, Duration::from_millis(4000), |l| !connected(l, 0, &pr)) {
                return Err(CaseFail::new("C11/harness-calibration-failed", "the victim did not see the connection to the killed rogue close within 4 s"));
            }
        }
        if open_now {
            let closed = wait_until(&log, Duration::from_millis(3000), |l| {
                l[cut_mark.min(l.len())..].iter().any(|o| o.node == 0 && matches!(&o.kind, ObsKind::NotifClosed { peer } if *peer == pr))
                    || l[mark..cut_mark.min(l.len())].iter().rev().find_map(|o| if o.node == 0 { match &o.kind { ObsKind::NotifClosed { peer } if *peer == pr => Some(true), ObsKind::NotifOpened { peer, .. } if *peer == pr => Some(false), _ => None } } else { None }).unwrap_or(false)
            });
            ensure!(closed, "C11/open-stream-not-reported-closed-after-connection-loss", "step {k}: the stream to the rogue was open when the connection went away; no stream-closed event within 3 s");
            closed_after_cut += 1;
        }
        std::thread::sleep(Duration::from_millis(60));
        // ---- the victim's history for this peer ----
        {
            let l = log.lock();
            let mut open = false;
            let mut accepted = c.auto_accept;
            let mut n_answers = 0usize;
            for o in l[mark..].iter().filter(|o| o.node == 0) {
                match &o.kind {
                    // policy 0 answers Accept inside the event handler (not logged separately); policy 3 logs its late answer
                    ObsKind::NotifValidate { peer } if *peer == pr && c.policy == 0 => accepted = true,
                    ObsKind::NotifApi { what, ok: true } if what.starts_with("answer") && what.ends_with("true") => accepted = true,
                    ObsKind::NotifOpened { peer, inbound } if *peer == pr => {
                        ensure!(!open, "C11/opened-twice-without-closed", "step {k}: {:?}", l[mark..].iter().filter(|o| o.node == 0).map(|o| short(&o.kind)).collect::<Vec<_>>());
                        if *inbound {
                            ensure!(accepted, "C11/inbound-stream-opened-without-acceptance", "step {k}: stream reported open (inbound) although the user never accepted it and auto-accept is off");
                            inbound_opened += 1;
                        }
                        open = true;
                        n_answers += 1;
                    }
                    ObsKind::NotifClosed { peer } if *peer == pr => {
                        ensure!(open, "C11/closed-without-opened", "step {k}: {:?}", l[mark..].iter().filter(|o| o.node == 0).map(|o| short(&o.kind)).collect::<Vec<_>>());
                        open = false;
                    }
                    ObsKind::NotifOpenFailure { peer, .. } if *peer == pr => {
                        ensure!(!open, "C11/open-failure-while-open", "step {k}: {:?}", l[mark..].iter().filter(|o| o.node == 0).map(|o| short(&o.kind)).collect::<Vec<_>>());
                        n_answers += 1;
                    }
                    ObsKind::NotifReceived { peer, data } if *peer == pr => {
                        ensure!(open, "C11/notification-outside-an-open-stream", "step {k}: {} bytes", data.len());
                        ensure!(data.len() <= MAX_NOTIFICATION, "C11/notification-larger-than-the-maximum-delivered", "step {k}: {} bytes", data.len());
                    }
                    _ => {}
                }
            }
            ensure!(!open, "C11/open-stream-not-reported-closed-after-connection-loss", "step {k}: the connection is gone and the stream still counts as open");
            if requested {
                // a substream opened by the rogue starts a negotiation of its own, whose failure may be reported as well
                ensure!(
                    n_answers <= if step.rogue_opens.is_some() { 2 } else { 1 },
                    "C11/open-request-answered-more-than-once",
                    "step {k}: one request, {n_answers} answers: {:?}",
                    l[mark..].iter().filter(|o| o.node == 0).map(|o| short(&o.kind)).collect::<Vec<_>>()
                );
                if l[mark..].iter().any(|o| o.node == 0 && matches!(&o.kind, ObsKind::NotifOpened { peer, .. } if *peer == pr)) {
                    answered_opened += 1;
                } else if n_answers == 1 {
                    answered_failure += 1;
                }
            }
        }
        if !rogue.is_alive() {
            rogue_seed += 1000;
            rogue = spawn_rogue(rogue_seed)?;
        }
    }
    // ---- the victim still serves an honest peer ----
    rogue.kill();
    victim.send(Cmd::NotifSetPolicy(0));
    let honest = Node::spawn(2, NodeSetup { notif: Some(notif(true, 0)), ..base(c.seed % 300 + 113_000) }, log.clone()).map_err(|e| CaseFail::new("C11/harness-node-start-failed", e))?;
    let ph = honest.peer;
    let mut served = false;
    for _ in 0..3 {
        if !connected(&log.lock(), 2, &pv) {
            honest.send(Cmd::DialAddress(victim_addr.clone()));
            if !wait_until(&log, Duration::from_millis(3000), |l| connected(l, 2, &pv) && connected(l, 0, &ph)) {
                continue;
            }
        }
        let mark = log.lock().len();
        honest.send(Cmd::NotifOpen(pv));
        if wait_until(&log, Duration::from_millis(5000), |l| {
            l[mark.min(l.len())..].iter().any(|o| o.node == 2 && matches!(&o.kind, ObsKind::NotifOpened { peer, .. } if *peer == pv)) && l.iter().any(|o| o.node == 0 && matches!(&o.kind, ObsKind::NotifOpened { peer, .. } if *peer == ph))
        }) {
            served = true;
            break;
        }
    }
    for p in case_panics(case_id) {
        if p.thread.ends_with("-node0") {
            fail!(format!("C11/panic@{}", p.location), "the victim panicked: {}", p.message);
        }
    }
    if !served {
        // distinguish a broken victim from a broken machine: a fresh pair must work
        if !crate::f4::control_pair_works(case_id, c.seed) {
            return Err(CaseFail::new("C11/harness-control-pair-failed", "two fresh honest nodes could not connect either"));
        }
        fail!("C11/stopped-serving-other-peers", "after the rogue's {} step(s) an honest node could not open a notification stream to the victim (3 attempts, 5 s each)", c.steps.len());
    }
    let mut ok = CaseOk::trivial();
    ok.excluded = own_reject > 0;
    Ok(ok
        .nt(faulty > 0)
        .class_if(answered_opened > 0, "request-to-rogue-answered-opened")
        .class_if(answered_failure > 0, "request-to-rogue-answered-open-failure")
        .class_if(connection_lost_first > 0, "connection-lost-before-the-answer")
        .class_if(remote_first > 0, "unanswered-but-a-remote-negotiation-may-have-been-in-progress")
        .class_if(inbound_opened > 0, "stream-opened-by-the-rogue")
        .class_if(closed_after_cut > 0, "open-stream-closed-by-connection-loss")
        .class_if(c.steps.iter().any(|s| s.victim_opens && s.rogue_opens.is_some()), "both-sides-open")
        .class_if(c.steps.iter().any(|s| matches!(s.rogue_opens, Some((_, Hello::HandshakeThenOversizedNotification)))), "oversized-notification-from-the-rogue"))
}

fn short(k: &ObsKind) -> String {
    let s = format!("{k:?}");
    s.chars().take(70).collect()
}
