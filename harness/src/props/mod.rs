use crate::engine::PropFn;

pub mod c01;
pub mod c01_nodes;
pub mod c02;
pub mod c03;
pub mod c04;
pub mod c05;
pub mod c05_nodes;
pub mod c06;
pub mod c06_nodes;
pub mod c07;
pub mod c07_rogue;
pub mod c08;
pub mod c08_nodes;
pub mod c08_slow;
pub mod c09;
pub mod c09_nodes;
pub mod c09_rogue;
pub mod c10;
pub mod c11;
pub mod c12;
pub mod c13;
pub mod c11_rogue;
pub mod c13_rogue;
pub mod c14;
pub mod c15;
pub mod c16;
pub mod c17;
pub mod c18;
pub mod c19;
pub mod c19_raw;
pub mod c19_rogue;
pub mod c20;
pub mod c20_nodes;
pub mod c20_responses;

pub fn lookup(id: &str) -> Option<PropFn> {
    Some(match id {
        "C01" => c01::run,
        "C02" => c02::run,
        "C03" => c03::run,
        "C04" => c04::run,
        "C05" => c05::run,
        "C06" => c06::run,
        "C07" => c07::run,
        "C08" => c08::run,
        "C09" => c09::run,
        "C10" => c10::run,
        "C11" => c11::run,
        "C12" => c12::run,
        "C13" => c13::run,
        "C14" => c14::run,
        "C15" => c15::run,
        "C16" => c16::run,
        "C17" => c17::run,
        "C18" => c18::run,
        "C19" => c19::run,
        "C20" => c20::run,
        _ => return None,
    })
}

/// Byte-level entries (libFuzzer targets, thorough tier) of the properties whose domain is a byte string.
pub fn fuzz_bytes(id: &str) -> Option<crate::engine::FuzzFn> {
    Some(match id {
        "C04" => c04::fuzz_bytes,
        "C18" => c18::fuzz_bytes,
        "C19" => c19::fuzz_bytes,
        "C20" => c20::fuzz_bytes,
        _ => return None,
    })
}

/// Number of decoders / conversions behind the selector byte of a property's byte-level entry.
pub fn fuzz_subs(id: &str) -> usize {
    match id {
        "C04" => 10,
        "C18" => 3,
        "C19" => 11,
        _ => 1,
    }
}

/// Starting corpora for the libFuzzer targets.
pub fn fuzz_seed_corpus(id: &str) -> Vec<Vec<u8>> {
    match id {
        "C04" => c04::fuzz_seed_corpus(),
        "C18" => c18::fuzz_seed_corpus(),
        "C19" => c19::fuzz_seed_corpus(),
        "C20" => c20::fuzz_seed_corpus(),
        _ => Vec::new(),
    }
}

/// SHA2-256 raw-codec CIDv1 of `data` (shared by C19/C20 generators).
pub fn c20_cid(data: &[u8]) -> cid::Cid {
    use sha2::Digest;
    cid::Cid::new_v1(0x55, cid::multihash::Multihash::<64>::wrap(0x12, &sha2::Sha256::digest(data)).unwrap())
}
