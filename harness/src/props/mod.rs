use crate::engine::PropFn;

pub mod c17;
pub mod c18;

pub fn lookup(id: &str) -> Option<PropFn> {
    Some(match id {
        "C17" => c17::run,
        "C18" => c18::run,
        _ => return None,
    })
}
