//! C09 against a remote that is busy without using any keep-alive protocol: a rogue peer (see `rogue_session`) holds an
//! established connection to a node with a generated keep-alive timeout and, for three timeouts, does nothing / sends
//! yamux pings / sends window updates for streams that do not exist / opens streams for a protocol the node does not run
//! and resets them / opens a ping-protocol stream and pings over it. None of that is activity of a keep-alive protocol.
//!
//! Oracle: the node closes the connection no earlier than the timeout after it was established (minus 15 ms of clock
//! skew between the two observers) and no later than the timeout plus the slack; it is reported closed exactly once.

use crate::engine::{CaseFail, CaseOk, CaseResult};
use crate::f4::{case_panics, full_address, new_case_id, wait_until, Log, Node, NodeSetup, Obs, ObsKind, RrSetup};
use crate::rogue_session::{substream_opening, yamux_frame, RogueSession, ACK, FIN, RST, SYN};
use crate::{ensure, fail};
use litep2p::PeerId;
use proptest::prelude::*;
use serde::{Deserialize, Serialize};
use std::sync::Arc;
use std::time::{Duration, Instant};

#[derive(Debug, Clone, Copy, PartialEq, Eq, Serialize, Deserialize)]
pub enum Noise {
    Nothing,
    YamuxPings,
    /// answers the node's own yamux pings and nothing else
    PingAcksOnly,
    WindowUpdatesForUnknownStreams,
    /// opens a stream, proposes a protocol the node does not run, resets the stream
    UnknownProtocolStreams,
    /// one stream of the ping protocol with a 32-byte ping every period
    PingProtocol,
    /// a new ping-protocol stream every period: one ping each, then FIN
    PingProtocolStreams,
}

#[derive(Debug, Clone, Serialize, Deserialize)]
pub struct Case {
    pub seed: u64,
    pub timeout_ms: u16,
    pub noise: Noise,
    pub period_ms: u8,
}

pub fn strategy() -> impl Strategy<Value = Case> {
    (
        any::<u64>(),
        prop_oneof![Just(250u16), Just(400), Just(700)],
        prop_oneof![
            1 => Just(Noise::Nothing),
            2 => Just(Noise::YamuxPings),
            1 => Just(Noise::PingAcksOnly),
            2 => Just(Noise::WindowUpdatesForUnknownStreams),
            2 => Just(Noise::UnknownProtocolStreams),
            3 => Just(Noise::PingProtocol),
            2 => Just(Noise::PingProtocolStreams),
        ],
        prop_oneof![Just(15u8), Just(40), Just(90)],
    )
        .prop_map(|(seed, timeout_ms, noise, period_ms)| Case { seed, timeout_ms, noise, period_ms })
}

const SLACK: Duration = Duration::from_millis(1500);

fn connected(log: &[Obs], node: usize, peer: &PeerId) -> bool {
    let mut up = false;
    for o in log.iter().filter(|o| o.node == node) {
        match &o.kind {
            ObsKind::ConnEstablished { peer: p, .. } if p == peer => up = true,
            ObsKind::ConnClosed { peer: p } if p == peer => up = false,
            _ => {}
        }
    }
    up
}

pub fn run_case(c: &Case) -> CaseResult {
    let log: Log = Arc::new(parking_lot::Mutex::new(Vec::new()));
    let case_id = new_case_id();
    let t_keep = Duration::from_millis(c.timeout_ms as u64);
    let victim = Node::spawn(
        0,
        NodeSetup {
            seed: c.seed % 300 + 131_000,
            keep_alive: Some(t_keep),
            rr: Some(RrSetup { timeout: Duration::from_millis(800), max_size: 1024, max_concurrent_inbound: None }),
            probes: 2,
            ping: true,
            ping_interval: Some(Duration::from_secs(30)),
            case_id,
            connection_open_timeout: Some(Duration::from_millis(1500)),
            substream_open_timeout: Some(Duration::from_millis(1500)),
            ..Default::default()
        },
        log.clone(),
    )
    .map_err(|e| CaseFail::new("C09/harness-node-start-failed", e))?;
    let addr_v = full_address(&victim);
    let port = addr_v.iter().find_map(|p| if let multiaddr::Protocol::Tcp(port) = p { Some(port) } else { None }).ok_or_else(|| CaseFail::new("C09/harness-no-port", "no tcp port"))?;
    let mut s = RogueSession::connect(([127, 0, 0, 1], port).into(), c.seed % 1000 + 132_000).map_err(|e| CaseFail::new("C09/harness-rogue-could-not-connect", e))?;
    let pr = s.peer;
    if !wait_until(&log, Duration::from_millis(3000), |l| connected(l, 0, &pr)) {
        return Err(CaseFail::new("C09/harness-calibration-failed", "the node did not report the rogue's (valid) connection as established within 3 s"));
    }
    let t_est = log.lock().iter().find(|o| o.node == 0 && matches!(&o.kind, ObsKind::ConnEstablished { peer, .. } if *peer == pr)).map(|o| o.t).unwrap();
    // ---- noise for up to three timeouts (or until the node closes) ----
    let period = Duration::from_millis(c.period_ms as u64);
    let mut next_id = 1u32;
    let mut ping_stream: Option<u32> = None;
    let mut sent = 0usize;
    let mut alive = true;
    let end = Instant::now() + t_keep * 3 + SLACK;
    while alive && Instant::now() < end && connected(&log.lock(), 0, &pr) {
        let r = match c.noise {
            Noise::Nothing | Noise::PingAcksOnly => Ok(()),
            Noise::YamuxPings => s.send(&yamux_frame(0, 2, SYN, 0, sent as u32, &[])),
            Noise::WindowUpdatesForUnknownStreams => s.send(&yamux_frame(0, 1, 0, 1001 + 2 * sent as u32, 1024, &[])),
            Noise::UnknownProtocolStreams => {
                let id = next_id;
                next_id += 2;
                let body = substream_opening("/not/installed/1");
                let mut v = yamux_frame(0, 0, SYN, id, body.len() as u32, &body);
                v.extend(yamux_frame(0, 1, RST, id, 0, &[]));
                s.send(&v)
            }
            Noise::PingProtocol => {
                let mut v = Vec::new();
                let id = match ping_stream {
                    Some(id) => id,
                    None => {
                        let id = next_id;
                        next_id += 2;
                        ping_stream = Some(id);
                        let body = substream_opening("/ipfs/ping/1.0.0");
                        v.extend(yamux_frame(0, 0, SYN, id, body.len() as u32, &body));
                        id
                    }
                };
                let ping = crate::engine::fill_bytes(sent as u64 + 9, 32);
                v.extend(yamux_frame(0, 0, 0, id, 32, &ping));
                s.send(&v)
            }
            Noise::PingProtocolStreams => {
                let id = next_id;
                next_id += 2;
                let mut body = substream_opening("/ipfs/ping/1.0.0");
                body.extend(crate::engine::fill_bytes(sent as u64 + 9, 32));
                let mut v = yamux_frame(0, 0, SYN, id, body.len() as u32, &body);
                v.extend(yamux_frame(0, 0, FIN, id, 0, &[]));
                s.send(&v)
            }
        };
        sent += 1;
        if r.is_err() {
            alive = false;
            break;
        }
        // read what the node sends; acknowledge its yamux pings (an honest peer would)
        let until = Instant::now() + period;
        while Instant::now() < until {
            if s.recv_some().is_err() {
                alive = false;
                break;
            }
            while s.inbox.len() >= 12 {
                let ty = s.inbox[1];
                let flags = u16::from_be_bytes([s.inbox[2], s.inbox[3]]);
                let len = u32::from_be_bytes([s.inbox[8], s.inbox[9], s.inbox[10], s.inbox[11]]);
                let body = if ty == 0 { len as usize } else { 0 };
                if s.inbox.len() < 12 + body {
                    break;
                }
                if ty == 2 && flags & SYN != 0 {
                    let _ = s.send(&yamux_frame(0, 2, ACK, 0, len, &[]));
                }
                s.inbox.drain(..12 + body);
            }
        }
    }
    // ---- when did the node close? ----
    let closed = wait_until(&log, Duration::from_millis(200), |l| !connected(l, 0, &pr));
    if !closed {
        for p in case_panics(case_id) {
            if p.thread.ends_with("-node0") {
                fail!(format!("C09/panic@{}", p.location), "the node panicked: {}", p.message);
            }
        }
        let l = log.lock();
        fail!(
            "C09/idle-connection-never-released",
            "keep-alive timeout {} ms; the remote only produced {:?} every {} ms ({} rounds; no keep-alive protocol involved) and the connection is still up {} ms after it was established; substream events at the node: {}",
            c.timeout_ms,
            c.noise,
            c.period_ms,
            sent,
            t_est.elapsed().as_millis(),
            l.iter().filter(|o| o.node == 0 && matches!(&o.kind, ObsKind::ProbeSubstream { .. })).count()
        );
    }
    s.shutdown();
    std::thread::sleep(Duration::from_millis(100));
    let l = log.lock();
    let t_closed = l.iter().find(|o| o.node == 0 && matches!(&o.kind, ObsKind::ConnClosed { peer } if *peer == pr)).map(|o| o.t).unwrap();
    let lived = t_closed.duration_since(t_est);
    // the node's own trackers start when its protocols are told, which is before the user event we measure from
    ensure!(
        !alive || lived + Duration::from_millis(15) >= t_keep,
        "C09/released-before-the-idle-window-elapsed",
        "keep-alive timeout {} ms, remote noise {:?}: the connection was closed {} ms after it was reported established",
        c.timeout_ms,
        c.noise,
        lived.as_millis()
    );
    ensure!(
        lived <= t_keep + SLACK,
        "C09/idle-connection-released-late",
        "keep-alive timeout {} ms, remote noise {:?} every {} ms: the connection was closed only {} ms after it was established",
        c.timeout_ms,
        c.noise,
        c.period_ms,
        lived.as_millis()
    );
    let n_closed = l.iter().filter(|o| o.node == 0 && matches!(&o.kind, ObsKind::ConnClosed { peer } if *peer == pr)).count();
    ensure!(n_closed == 1, "C09/closed-reported-more-than-once", "{n_closed} closed events");
    drop(l);
    for p in case_panics(case_id) {
        if p.thread.ends_with("-node0") {
            fail!(format!("C09/panic@{}", p.location), "the node panicked: {}", p.message);
        }
    }
    Ok(CaseOk::nontrivial()
        .class(match c.noise {
            Noise::Nothing => "silent-remote",
            Noise::YamuxPings => "yamux-pings",
            Noise::PingAcksOnly => "ping-acks-only",
            Noise::WindowUpdatesForUnknownStreams => "window-updates-for-unknown-streams",
            Noise::UnknownProtocolStreams => "streams-for-an-unknown-protocol",
            Noise::PingProtocol => "ping-protocol-traffic",
            Noise::PingProtocolStreams => "ping-protocol-streams",
        })
        .class_if(!alive, "remote-saw-the-socket-close"))
}
