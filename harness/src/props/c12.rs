//! C12 — notifications are delivered in order without loss or duplication, and flow control never blocks the caller.
//!
//! Two real nodes over loopback TCP with an open notification stream. Generated scripts send single
//! notifications and bursts (up to 6000, so that the receiver's shared inbound queue of 4096 plus the
//! yamux window fill up) through the synchronous and asynchronous mode in both directions, stall the
//! receiving user, close / cut / reopen the stream, and send notifications of exactly the maximum size
//! and larger. Every payload carries a per-(direction, mode) sequence tag and a filler derived from it.
//!
//! Oracle over the two user-level histories: per (direction, mode) the received tags are strictly
//! increasing (at most once, in order); a delivered tag implies that every earlier tag accepted in the
//! same open period of the sender (no stream-closed event seen by the sender in between) was delivered;
//! payloads are byte-identical; nothing longer than the receiver's configured maximum is ever delivered;
//! a synchronous send never takes longer than 1 s and only answers ok / clogged / no-connection; an
//! asynchronous send is never answered "clogged".

use crate::engine::{CampaignCfg, CaseFail, CaseOk, CaseResult, Ctx};
use crate::f4::{case_panics, full_address, new_case_id, notif_payload, wait_until, Cmd, Log, Node, NodeSetup, NotifSetup, Obs, ObsKind, ProbeCmd};
use crate::{ensure, fail};
use litep2p::PeerId;
use proptest::prelude::*;
use serde::{Deserialize, Serialize};
use std::collections::{HashMap, HashSet};
use std::sync::Arc;
use std::time::Duration;

#[derive(Debug, Clone, Serialize, Deserialize)]
pub enum Op {
    /// `count` notifications; size class 0: 8 bytes, 1: 64, 2: 300, 3: 2000 (capped at the sender's maximum), 4: exactly the receiver's maximum
    Send { node: u8, sync: bool, count: u16, size: u8 },
    /// one notification longer than the configured maximum (by 1, or by a lot)
    Oversize { node: u8, sync: bool, far: bool },
    /// the node's user stops reading its notification handle for this long
    Stall { node: u8, ms: u16 },
    /// slow consumer: the node's user spends this many microseconds on every notification it receives (0 = full speed again)
    Throttle { node: u8, us: u16 },
    Close { node: u8 },
    /// the node's probe protocol force-closes the connection
    CutConn { node: u8 },
    /// connect and open the stream again unless open
    Reopen,
    Sleep { ms: u16 },
    /// the stream is closed, then `opener` opens it again while the other side's user accepts and at once stops reading its
    /// handle for 300 ms; the opener sends `count` notifications the moment it sees the stream open (they queue up behind the
    /// other side's unread stream-opened event), and a few more after the stall
    OpenBehindStall { opener: u8, sync: bool, count: u8 },
    /// the receiver's user stalls with `count` notifications queued, the connection is cut and re-established, and a new
    /// stream is opened (auto-accept) and used before the user reads on
    ReconnectBehindStall { opener: u8, sync: bool, count: u8 },
}

#[derive(Debug, Clone, Serialize, Deserialize)]
pub struct Case {
    pub sync_channel: u16,
    pub async_channel: u8,
    pub max_size: [u16; 2],
    pub ops: Vec<Op>,
    pub seed: u64,
    /// both nodes accept inbound streams without asking the user
    #[serde(default)]
    pub auto_accept: bool,
}

pub const SIG_STALE: &str = "C12/backlog-of-a-closed-stream-delivered-after-the-reopen-behind-a-gap";

fn size_of(class: u8, max_sender: usize, max_receiver: usize) -> usize {
    match class {
        0 => 8,
        1 => 64,
        2 => 300,
        3 => 2000.min(max_sender).min(max_receiver),
        _ => max_receiver.min(max_sender),
    }
}

fn op_strategy() -> impl Strategy<Value = Op> {
    let node = 0u8..2;
    prop_oneof![
        8 => (node.clone(), any::<bool>(), prop_oneof![4 => 1u16..6, 3 => 6u16..60, 1 => 100u16..600], 0u8..5).prop_map(|(node, sync, count, size)| Op::Send { node, sync, count, size }),
        3 => (node.clone(), any::<bool>(), prop_oneof![Just(4200u16), Just(5200), Just(6500)], 0u8..4).prop_map(|(node, sync, count, size)| Op::Send { node, sync, count, size }),
        2 => (node.clone(), any::<bool>(), any::<bool>()).prop_map(|(node, sync, far)| Op::Oversize { node, sync, far }),
        4 => (node.clone(), prop_oneof![Just(30u16), Just(150), Just(400), Just(800)]).prop_map(|(node, ms)| Op::Stall { node, ms }),
        2 => (node.clone(), prop_oneof![Just(0u16), Just(15), Just(60), Just(200)]).prop_map(|(node, us)| Op::Throttle { node, us }),
        1 => node.clone().prop_map(|node| Op::Close { node }),
        1 => node.clone().prop_map(|node| Op::CutConn { node }),
        3 => Just(Op::Reopen),
        3 => prop_oneof![Just(0u16), Just(2), Just(20), Just(100), Just(300)].prop_map(|ms| Op::Sleep { ms }),
        1 => (0u8..2, any::<bool>(), prop_oneof![Just(1u8), Just(5), Just(40)]).prop_map(|(opener, sync, count)| Op::OpenBehindStall { opener, sync, count }),
    ]
}

fn config_strategy() -> impl Strategy<Value = (u16, u8, [u16; 2])> {
    (
        prop_oneof![Just(1u16), Just(16), Just(256), Just(2048)],
        prop_oneof![Just(1u8), Just(8)],
        prop_oneof![
            5 => prop_oneof![Just(1024u16), Just(4096)].prop_map(|m| [m, m]),
            1 => Just([4096u16, 1024]),
            1 => Just([1024u16, 4096]),
        ],
    )
}

fn strategy() -> impl Strategy<Value = Case> {
    (config_strategy(), prop::collection::vec(op_strategy(), 2..12), any::<u64>())
        .prop_map(|((sync_channel, async_channel, max_size), ops, seed)| Case { sync_channel, async_channel, max_size, ops, seed, auto_accept: false })
}

/// The receiver's user stalls, then the sender pushes more than the receiver can buffer: the sender's connection task has
/// to park a notification and wait. Random extra operations around it.
fn backpressure_strategy() -> impl Strategy<Value = Case> {
    (
        config_strategy(),
        0u8..2,
        prop_oneof![Just(400u16), Just(800), Just(1200), Just(15), Just(40), Just(100)],
        prop::collection::vec((prop::bool::weighted(0.3), prop_oneof![Just(4300u16), Just(5200), Just(6500)], 1u8..4), 1..3),
        prop::collection::vec(op_strategy(), 0..4),
        prop::collection::vec(op_strategy(), 0..3),
        any::<u64>(),
    )
        .prop_map(|((sync_channel, async_channel, max_size), sender, stall, bursts, pre, post, seed)| {
            let mut ops = pre;
            ops.push(Op::Reopen);
            if stall >= 400 {
                ops.push(Op::Stall { node: 1 - sender, ms: stall });
            } else {
                // a slow consumer instead of a stalled one: it keeps reading, so whatever arrives is delivered
                ops.push(Op::Throttle { node: 1 - sender, us: stall });
            }
            for (sync, count, size) in bursts {
                // behind a slow consumer the sender has to outrun 4096 queue slots plus the stream window before it blocks:
                // make those bursts about twice as long
                let count = if stall < 400 { count.saturating_mul(2).min(13_000) } else { count };
                ops.push(Op::Send { node: sender, sync, count, size });
            }
            ops.extend(post);
            Case { sync_channel, async_channel, max_size, ops, seed, auto_accept: false }
        })
}

/// Large notifications (up to exactly the maximum) in bursts of a few hundred to a few thousand towards a reader that keeps
/// reading: the sender repeatedly exhausts the 256 KiB stream window in the middle of a frame while the receive queue is short,
/// so whatever a partial write does to the byte stream reaches the user.
fn window_cycles_strategy() -> impl Strategy<Value = Case> {
    (
        prop_oneof![Just(256u16), Just(2048)],
        prop_oneof![Just(1u8), Just(8)],
        prop_oneof![Just([1024u16, 1024]), Just([4096u16, 4096])],
        prop::collection::vec(
            prop_oneof![
                6 => (0u8..2, prop::bool::weighted(0.15), prop_oneof![Just(300u16), Just(900), Just(2500)], 3u8..5).prop_map(|(node, sync, count, size)| Op::Send { node, sync, count, size }),
                1 => (0u8..2, prop_oneof![Just(0u16), Just(15), Just(60)]).prop_map(|(node, us)| Op::Throttle { node, us }),
                1 => prop_oneof![Just(0u16), Just(20), Just(100)].prop_map(|ms| Op::Sleep { ms }),
            ],
            1..5,
        ),
        any::<u64>(),
    )
        .prop_map(|(sync_channel, async_channel, max_size, ops, seed)| Case { sync_channel, async_channel, max_size, ops, seed, auto_accept: false })
}

/// Streams opened towards a user that does not read its handle at that moment, with traffic right behind the open.
fn open_behind_stall_strategy() -> impl Strategy<Value = Case> {
    let item = prop_oneof![
        4 => (0u8..2, any::<bool>(), prop_oneof![Just(1u8), Just(5), Just(40)]).prop_map(|(opener, sync, count)| Op::OpenBehindStall { opener, sync, count }),
        1 => op_strategy(),
    ];
    (config_strategy(), prop::collection::vec(item, 1..4), any::<u64>()).prop_map(|((sync_channel, async_channel, max_size), ops, seed)| Case { sync_channel, async_channel, max_size, ops, seed, auto_accept: false })
}

/// Auto-accepting nodes; the receiver's user stalls with a backlog, the connection is cut and re-established and the new
/// stream is in use before the user reads on. Random extra operations around it.
fn reconnect_behind_stall_strategy() -> impl Strategy<Value = Case> {
    let item = prop_oneof![
        4 => (0u8..2, any::<bool>(), prop_oneof![Just(1u8), Just(5), Just(40)]).prop_map(|(opener, sync, count)| Op::ReconnectBehindStall { opener, sync, count }),
        1 => op_strategy(),
    ];
    (config_strategy(), prop::collection::vec(item, 1..4), any::<u64>())
        .prop_map(|((sync_channel, async_channel, max_size), ops, seed)| Case { sync_channel, async_channel, max_size, ops, seed, auto_accept: true })
}

fn connected(log: &[Obs], node: usize, peer: &PeerId) -> bool {
    let e = log.iter().filter(|o| o.node == node && matches!(&o.kind, ObsKind::ConnEstablished { peer: p, .. } if p == peer)).count();
    let c = log.iter().filter(|o| o.node == node && matches!(&o.kind, ObsKind::ConnClosed { peer: p } if p == peer)).count();
    e > c
}

fn stream_open(log: &[Obs], node: usize, peer: &PeerId) -> bool {
    let mut open = false;
    for o in log.iter().filter(|o| o.node == node) {
        match &o.kind {
            ObsKind::NotifOpened { peer: p, .. } if p == peer => open = true,
            ObsKind::NotifClosed { peer: p } if p == peer => open = false,
            _ => {}
        }
    }
    open
}

fn tag_base(node: usize, sync: bool) -> u64 {
    ((node as u64 + 1) << 56) | ((sync as u64) << 48)
}

fn run_case(c: &Case) -> CaseResult {
    let case_id = new_case_id();
    let log: Log = Arc::new(parking_lot::Mutex::new(Vec::new()));
    let mut nodes: Vec<Node> = Vec::new();
    let max = [c.max_size[0] as usize, c.max_size[1] as usize];
    for i in 0..2usize {
        nodes.push(
            Node::spawn(
                i,
                NodeSetup {
                    seed: c.seed % 500 + 50_000 + i as u64,
                    keep_alive: Some(Duration::from_secs(20)),
                    notif: Some(NotifSetup {
                        auto_accept: c.auto_accept,
                        sync_channel: c.sync_channel as usize,
                        async_channel: c.async_channel as usize,
                        max_size: max[i],
                        handshake: vec![7, 7],
                        policy: 0,
                    }),
                    probes: 1,
                    case_id,
                    connection_open_timeout: Some(Duration::from_millis(1500)),
                    substream_open_timeout: Some(Duration::from_millis(1500)),
                    ..Default::default()
                },
                log.clone(),
            )
            .map_err(|e| CaseFail::new("C12/harness-node-start-failed", e))?,
        );
    }
    let peers: Vec<PeerId> = nodes.iter().map(|n| n.peer).collect();
    let addr1 = full_address(&nodes[1]);
    let (p0, p1) = (peers[0], peers[1]);
    let reopen = |nodes: &Vec<Node>, log: &Log| -> bool {
        if !(connected(&log.lock(), 0, &p1) && connected(&log.lock(), 1, &p0)) {
            let mut ok = false;
            for _ in 0..5 {
                nodes[0].send(Cmd::DialAddress(addr1.clone()));
                if wait_until(log, Duration::from_millis(900), |l| connected(l, 0, &p1) && connected(l, 1, &p0)) {
                    ok = true;
                    break;
                }
            }
            if !ok {
                return false;
            }
            std::thread::sleep(Duration::from_millis(15));
        }
        if stream_open(&log.lock(), 0, &p1) && stream_open(&log.lock(), 1, &p0) {
            return true;
        }
        // wait for a half-closed state to settle, then open from node 0
        std::thread::sleep(Duration::from_millis(60));
        for _ in 0..3 {
            if !stream_open(&log.lock(), 0, &p1) {
                nodes[0].send(Cmd::NotifOpen(p1));
            }
            if wait_until(log, Duration::from_millis(1500), |l| stream_open(l, 0, &p1) && stream_open(l, 1, &p0)) {
                return true;
            }
        }
        false
    };
    if !reopen(&nodes, &log) {
        let panics = case_panics(case_id);
        if let Some(p) = panics.first() {
            fail!(format!("C12/panic@{}", p.location), "{} (thread {})", p.message, p.thread);
        }
        return Err(CaseFail::new("C12/harness-calibration-failed", "two healthy nodes could not open a notification stream"));
    }

    let mut next_tag: HashMap<(usize, bool), u64> = HashMap::new();
    let mut stall_until: [Option<std::time::Instant>; 2] = [None, None];
    let mut big_under_stall = false;
    let mut oversize_sent = false;
    let mut traffic_then_close = false;
    let mut sent_any = false;
    let mut longest_stall = 0u64;
    let mut throttled = false;
    let mut opened_behind_stall = false;
    let mut reconnected_behind_stall = false;

    let send = |nodes: &Vec<Node>, next_tag: &mut HashMap<(usize, bool), u64>, n: usize, sync: bool, count: u32, size: usize| {
        let e = next_tag.entry((n, sync)).or_insert(1);
        let first = tag_base(n, sync) + *e;
        *e += count as u64;
        nodes[n].send(Cmd::NotifBurst { peer: peers[1 - n], sync, first_tag: first, count, size: size as u32 });
    };

    for op in &c.ops {
        match op {
            Op::Send { node, sync, count, size } => {
                let n = *node as usize % 2;
                let sz = size_of(*size, max[n], max[1 - n]);
                if *count >= 4200 && stall_until[1 - n].map(|u| u > std::time::Instant::now() + Duration::from_millis(100)).unwrap_or(false) && stream_open(&log.lock(), n, &peers[1 - n]) {
                    big_under_stall = true;
                }
                sent_any = true;
                send(&nodes, &mut next_tag, n, *sync, *count as u32, sz);
            }
            Op::Oversize { node, sync, far } => {
                let n = *node as usize % 2;
                let limit = max[1 - n];
                let sz = if *far { limit * 3 + 17 } else { limit + 1 };
                if stream_open(&log.lock(), n, &peers[1 - n]) {
                    oversize_sent = true;
                }
                send(&nodes, &mut next_tag, n, *sync, 1, sz);
            }
            Op::Stall { node, ms } => {
                let n = *node as usize % 2;
                nodes[n].send(Cmd::NotifStall(Duration::from_millis(*ms as u64)));
                stall_until[n] = Some(std::time::Instant::now() + Duration::from_millis(*ms as u64));
                longest_stall = longest_stall.max(*ms as u64);
            }
            Op::Throttle { node, us } => {
                let n = *node as usize % 2;
                nodes[n].send(Cmd::NotifThrottle(Duration::from_micros(*us as u64)));
                if *us > 0 {
                    throttled = true;
                }
            }
            Op::Close { node } => {
                let n = *node as usize % 2;
                if sent_any {
                    traffic_then_close = true;
                }
                nodes[n].send(Cmd::NotifClose(peers[1 - n]));
            }
            Op::CutConn { node } => {
                let n = *node as usize % 2;
                if sent_any {
                    traffic_then_close = true;
                }
                let _ = nodes[n].probes[0].send(ProbeCmd::ForceClose(peers[1 - n]));
                std::thread::sleep(Duration::from_millis(30));
            }
            Op::Reopen => {
                let _ = reopen(&nodes, &log);
            }
            Op::Sleep { ms } => std::thread::sleep(Duration::from_millis(*ms as u64)),
            Op::ReconnectBehindStall { opener, sync, count } => {
                if !c.auto_accept {
                    continue;
                }
                let u = *opener as usize % 2;
                let v = 1 - u;
                if !reopen(&nodes, &log) {
                    continue;
                }
                if let Some(until) = stall_until[v] {
                    std::thread::sleep(until.saturating_duration_since(std::time::Instant::now()));
                }
                // the receiver's user: stalled now; when it reads on it is told the old stream closed, asks for a new one at once
                // (its side auto-accepts the reverse substream) and pauses again before reading anything else
                nodes[v].send(Cmd::NotifReopenOnClosed(true));
                nodes[v].send(Cmd::NotifStallAfterClosed(Duration::from_millis(500)));
                nodes[v].send(Cmd::NotifStall(Duration::from_millis(700)));
                stall_until[v] = Some(std::time::Instant::now() + Duration::from_millis(1200));
                longest_stall = longest_stall.max(1200);
                std::thread::sleep(Duration::from_millis(5));
                send(&nodes, &mut next_tag, u, *sync, *count as u32, 8);
                sent_any = true;
                std::thread::sleep(Duration::from_millis(40));
                let _ = nodes[u].probes[0].send(ProbeCmd::ForceClose(peers[v]));
                let mark = log.lock().len();
                let mut up = false;
                if wait_until(&log, Duration::from_millis(2000), |l| !connected(l, 0, &p1) && !connected(l, 1, &p0)) {
                    // back up while the receiver's user is still stalled
                    for _ in 0..3 {
                        nodes[0].send(Cmd::DialAddress(addr1.clone()));
                        if wait_until(&log, Duration::from_millis(600), |l| connected(l, 0, &p1) && connected(l, 1, &p0)) {
                            up = true;
                            break;
                        }
                    }
                }
                if up {
                    // the receiver's own request (made the moment it reads the closed event) opens the stream while its user
                    // pauses: the sender sees it open and uses it; the backlog of the old stream is still in the receiver's queue
                    let opened = wait_until(&log, Duration::from_millis(1500), |l| l[mark.min(l.len())..].iter().any(|o| o.node == u && matches!(&o.kind, ObsKind::NotifOpened { peer, .. } if *peer == peers[v])));
                    if opened && stall_until[v].map(|t| t > std::time::Instant::now() + Duration::from_millis(100)).unwrap_or(false) {
                        reconnected_behind_stall = true;
                        send(&nodes, &mut next_tag, u, *sync, 2, 8);
                    }
                }
                nodes[v].send(Cmd::NotifReopenOnClosed(false));
                nodes[v].send(Cmd::NotifStallAfterClosed(Duration::ZERO));
                if let Some(until) = stall_until[v] {
                    std::thread::sleep(until.saturating_duration_since(std::time::Instant::now()) + Duration::from_millis(80));
                }
            }
            Op::OpenBehindStall { opener, sync, count } => {
                let u = *opener as usize % 2;
                let v = 1 - u;
                // start from a closed stream on a live connection
                if !(connected(&log.lock(), 0, &p1) && connected(&log.lock(), 1, &p0)) && !reopen(&nodes, &log) {
                    continue;
                }
                if stream_open(&log.lock(), u, &peers[v]) || stream_open(&log.lock(), v, &peers[u]) {
                    nodes[u].send(Cmd::NotifClose(peers[v]));
                    if !wait_until(&log, Duration::from_millis(2000), |l| !stream_open(l, u, &peers[v]) && !stream_open(l, v, &peers[u])) {
                        continue;
                    }
                    std::thread::sleep(Duration::from_millis(60));
                }
                if let Some(until) = stall_until[v] {
                    std::thread::sleep(until.saturating_duration_since(std::time::Instant::now()));
                }
                nodes[v].send(Cmd::NotifSetPolicy(4));
                std::thread::sleep(Duration::from_millis(5));
                nodes[u].send(Cmd::NotifOpen(peers[v]));
                let opened = wait_until(&log, Duration::from_millis(1500), |l| stream_open(l, u, &peers[v]));
                stall_until[v] = Some(std::time::Instant::now() + Duration::from_millis(300));
                longest_stall = longest_stall.max(300);
                if opened {
                    sent_any = true;
                    opened_behind_stall = true;
                    send(&nodes, &mut next_tag, u, *sync, *count as u32, 8);
                    std::thread::sleep(Duration::from_millis(380));
                    send(&nodes, &mut next_tag, u, *sync, 2, 8);
                } else {
                    std::thread::sleep(Duration::from_millis(320));
                }
                nodes[v].send(Cmd::NotifSetPolicy(0));
            }
        }
    }

    // settle: let stalls expire and queues drain, then send one marker per direction and mode on a stream that is open
    for n in 0..2usize {
        nodes[n].send(Cmd::NotifThrottle(Duration::ZERO));
    }
    let settle_deadline = std::time::Instant::now() + Duration::from_millis(longest_stall + 200);
    while std::time::Instant::now() < settle_deadline && stall_until.iter().flatten().any(|u| *u > std::time::Instant::now()) {
        std::thread::sleep(Duration::from_millis(20));
    }
    // wait for the actors to finish their queued bursts (a ping is answered only after everything before it)
    for n in 0..2usize {
        let (tx, rx) = tokio::sync::oneshot::channel();
        nodes[n].send(Cmd::Ping(tx));
        let start = std::time::Instant::now();
        let mut rx = rx;
        loop {
            match rx.try_recv() {
                Ok(()) => break,
                Err(tokio::sync::oneshot::error::TryRecvError::Closed) => break,
                Err(tokio::sync::oneshot::error::TryRecvError::Empty) => {
                    if start.elapsed() > Duration::from_secs(20) {
                        return Err(CaseFail::new("C12/harness-node-actor-stuck", format!("node {n} did not finish its queued sends within 20 s")));
                    }
                    std::thread::sleep(Duration::from_millis(10));
                }
            }
        }
    }
    std::thread::sleep(Duration::from_millis(80));
    let mut markers: Vec<(usize, u64)> = Vec::new();
    if stream_open(&log.lock(), 0, &p1) && stream_open(&log.lock(), 1, &p0) {
        for n in 0..2usize {
            for sync in [false, true] {
                let e = next_tag.entry((n, sync)).or_insert(1);
                markers.push((1 - n, tag_base(n, sync) + *e));
                send(&nodes, &mut next_tag, n, sync, 1, 8);
            }
        }
    }
    let mk = markers.clone();
    let markers_delivered = !markers.is_empty()
        && wait_until(&log, Duration::from_secs(4), |l| {
            mk.iter().all(|(r, tag)| l.iter().any(|o| o.node == *r && matches!(&o.kind, ObsKind::NotifReceived { data, .. } if data.len() >= 8 && u64::from_le_bytes(data[0..8].try_into().unwrap()) == *tag)))
        });
    std::thread::sleep(Duration::from_millis(40));
    let history: Vec<Obs> = log.lock().clone();
    drop(nodes);
    std::thread::sleep(Duration::from_millis(5));

    if std::env::var("C12_DEBUG").is_ok() {
        for n in 0..2usize {
            let rec = history.iter().filter(|o| o.node == n && matches!(o.kind, ObsKind::NotifReceived { .. })).count();
            let ev: Vec<String> = history
                .iter()
                .filter(|o| o.node == n && !matches!(o.kind, ObsKind::NotifReceived { .. }))
                .map(|o| format!("{:?}", o.kind).chars().take(110).collect::<String>())
                .collect();
            eprintln!("node {n}: received {rec}; events {ev:?}");
        }
    }
    // ---- oracle ----
    let panics = case_panics(case_id);
    if let Some(p) = panics.first() {
        fail!(format!("C12/panic@{}", p.location), "{} (thread {}); ops {:?}", p.message, p.thread, c.ops);
    }
    let mut clog_seen = false;
    let mut delivered_total = 0usize;
    let mut delivered_bytes = 0usize;
    let mut lost_at_close = 0usize;
    for s in 0..2usize {
        let r = 1 - s;
        // sender side: accepted tags with the sender's "closed epoch"
        let mut open = false;
        let mut epoch = 0u32;
        let mut accepted: HashMap<bool, Vec<(u64, u32)>> = HashMap::new();
        // sync sends answered NoConnection: (tag, epoch) — nothing sent later through the sync mode in that epoch may arrive
        let mut no_connection: Vec<(u64, u32)> = Vec::new();
        // when the burst a tag belongs to had been handed to the sending API completely
        let mut burst_done: HashMap<u64, std::time::Instant> = HashMap::new();
        for o in history.iter().filter(|o| o.node == s) {
            match &o.kind {
                ObsKind::NotifOpened { peer, .. } if *peer == peers[r] => open = true,
                ObsKind::NotifClosed { peer } if *peer == peers[r] => {
                    open = false;
                    epoch += 1;
                }
                ObsKind::NotifBurst { peer, sync, accepted: acc, refused, max_call_us } if *peer == peers[r] => {
                    if *sync {
                        ensure!(*max_call_us < 1_000_000, "C12/synchronous-send-blocked", "node {s}: one send_sync_notification call took {max_call_us} us");
                        for (tag, why) in refused {
                            if why == "clogged" {
                                clog_seen = true;
                            }
                            ensure!(why == "clogged" || why == "NoConnection", "C12/synchronous-send-unexpected-answer", "node {s} tag {tag:#x}: {why}");
                            if why == "NoConnection" && open {
                                no_connection.push((*tag, epoch));
                            }
                        }
                    } else {
                        for (tag, why) in refused {
                            ensure!(!why.to_lowercase().contains("clog"), "C12/asynchronous-send-reported-clogged", "node {s} tag {tag:#x}: {why}");
                        }
                    }
                    if open {
                        let v = accepted.entry(*sync).or_default();
                        for t in acc {
                            v.push((*t, epoch));
                        }
                    }
                    for t in acc {
                        burst_done.insert(*t, o.t);
                    }
                }
                _ => {}
            }
        }
        // receiver side
        let mut received: HashMap<bool, Vec<u64>> = HashMap::new();
        // the receiver's own count of closed streams with this peer at the moment each tag was delivered
        let mut delivered_in_epoch: HashMap<u64, u32> = HashMap::new();
        let mut r_epoch = 0u32;
        let mut r_closes: Vec<std::time::Instant> = Vec::new();
        let mut r_last_open: Option<std::time::Instant> = None;
        for o in history.iter().filter(|o| o.node == r) {
            if let ObsKind::NotifClosed { peer } = &o.kind {
                if *peer == peers[s] {
                    r_epoch += 1;
                    r_closes.push(o.t);
                }
            }
            if let ObsKind::NotifOpened { peer, .. } = &o.kind {
                if *peer == peers[s] {
                    r_last_open = Some(o.t);
                }
            }
            if let ObsKind::NotifReceived { peer, data } = &o.kind {
                if *peer != peers[s] {
                    continue;
                }
                ensure!(
                    data.len() <= max[r],
                    "C12/oversized-notification-delivered",
                    "node {r} (maximum {}) was handed a notification of {} bytes",
                    max[r],
                    data.len()
                );
                ensure!(data.len() >= 8, "C12/notification-corrupted", "node {r} received {} bytes", data.len());
                let tag = u64::from_le_bytes(data[0..8].try_into().unwrap());
                ensure!(
                    *data == notif_payload(tag, data.len()),
                    "C12/notification-corrupted",
                    "node {r} received tag {tag:#x} ({} bytes) with a body that differs from what was sent",
                    data.len()
                );
                let sync = (tag >> 48) & 1 == 1;
                ensure!(tag >> 56 == s as u64 + 1, "C12/notification-corrupted", "node {r} received tag {tag:#x} that node {s} never sent");
                // A stream can only come about after the receiver's user has read the closed event of the previous one (it has to
                // validate it or to ask for it, and its handle refuses while it still shows the old stream). So a notification that
                // had been handed to the sending API before the receiver's user was told of a close cannot belong to a stream the
                // receiver's user was told of after that close: it is backlog of the closed stream.
                if let Some(done) = burst_done.get(&tag) {
                    if let Some(c_min) = r_closes.iter().find(|c| **c > *done) {
                        if r_last_open.map(|op| op > *c_min).unwrap_or(false) {
                            fail!(
                                "C12/notification-of-a-closed-stream-delivered-under-the-next-stream",
                                "node {s} -> {r}: tag {tag:#x} had been accepted for sending {} ms before node {r}'s user was told that the stream closed; the user was then told of a new stream and handed that notification under it",
                                c_min.duration_since(*done).as_millis()
                            );
                        }
                    }
                }
                received.entry(sync).or_default().push(tag);
                delivered_in_epoch.insert(tag, r_epoch);
                delivered_total += 1;
                delivered_bytes += data.len();
            }
        }
        for sync in [false, true] {
            let mode = if sync { "sync" } else { "async" };
            let rv = received.get(&sync).cloned().unwrap_or_default();
            for w in rv.windows(2) {
                ensure!(w[1] != w[0], "C12/notification-delivered-twice", "node {s} -> {r} {mode}: tag {:#x} delivered twice", w[0]);
                ensure!(w[1] > w[0], "C12/notifications-delivered-out-of-order", "node {s} -> {r} {mode}: tag {:#x} delivered after {:#x}", w[1], w[0]);
            }
            let got: HashSet<u64> = rv.iter().cloned().collect();
            ensure!(got.len() == rv.len(), "C12/notification-delivered-twice", "node {s} -> {r} {mode}");
            let acc = accepted.get(&sync).cloned().unwrap_or_default();
            if sync {
                for (bad, e) in &no_connection {
                    if let Some((t, _)) = acc.iter().find(|(t, e2)| e2 == e && t > bad && got.contains(t)) {
                        fail!(
                            "C12/synchronous-send-answered-no-connection-on-a-live-stream",
                            "node {s} -> {r}: tag {bad:#x} was refused with NoConnection, yet the later tag {t:#x} of the same open period was delivered"
                        );
                    }
                }
            }
            // last delivered tag per epoch
            let mut last_delivered: HashMap<u32, u64> = HashMap::new();
            for (t, e) in &acc {
                if got.contains(t) {
                    let x = last_delivered.entry(*e).or_insert(0);
                    *x = (*x).max(*t);
                }
            }
            for (t, e) in &acc {
                if !got.contains(t) {
                    if let Some(last) = last_delivered.get(e) {
                        // a later notification of the same (sender-side) open period that the receiver's user was handed only
                        // after it had seen that stream closed: backlog of the closed stream delivered under the reopened one
                        let stale = delivered_in_epoch.get(last).map(|re| *re > *e).unwrap_or(false);
                        ensure!(
                            *t > *last,
                            if stale { SIG_STALE } else { "C12/notification-skipped-within-open-period" },
                            "node {s} -> {r} {mode}: tag {:#x} was accepted and never delivered although the later tag {:#x}, accepted in the same open period, was ({} accepted, {} delivered); config sync_channel {} async_channel {}",
                            t,
                            last,
                            acc.len(),
                            rv.len(),
                            c.sync_channel,
                            c.async_channel
                        );
                    }
                    lost_at_close += 1;
                }
            }
        }
    }
    Ok(CaseOk::trivial()
        .nt(big_under_stall || clog_seen || oversize_sent || (traffic_then_close && delivered_total > 0) || delivered_bytes > 1 << 20)
        .class_if(big_under_stall, "burst-over-4096-while-receiver-stalled")
        .nt(opened_behind_stall)
        .class_if(reconnected_behind_stall, "new-stream-after-reconnect-used-while-the-receiver-still-holds-a-backlog")
        .class_if(opened_behind_stall, "stream-opened-towards-a-stalled-reader-with-traffic-behind")
        .class_if(throttled, "slow-consumer")
        .class_if(throttled && delivered_total > 4200, "slow-consumer-received-more-than-4200")
        .class_if(clog_seen, "sync-send-answered-clogged")
        .class_if(oversize_sent, "oversize-sent-on-open-stream")
        .class_if(traffic_then_close, "close-or-cut-after-traffic")
        .class_if(lost_at_close > 0, "accepted-tail-lost-at-close")
        .class_if(markers_delivered, "final-markers-delivered")
        .class_if(delivered_total > 4096, "more-than-4096-delivered")
        .class_if(delivered_bytes > 1 << 20, "more-than-1MiB-delivered")
        .class_if(c.max_size[0] != c.max_size[1], "different-maximum-sizes"))
}

pub fn run(ctx: &mut Ctx) {
    ctx.rule = "two real nodes over loopback TCP with an open notification stream (sync channel 1/16/256/2048, async channel 1/8, maximum size 1024/4096, sometimes different on the two ends); \
        script of 2..11 ops: sends of 1..600 or 4200..6500 notifications (8 bytes .. exactly the maximum) through the sync or async mode from either end, oversize sends (max+1, 3*max+17), \
        receiver-user stalls of 30..1200 ms, close, connection cut, reopen, sleeps; a second campaign always stalls the receiver and then pushes more than its 4096-slot inbound queue plus the \
        stream window can hold. Payload = tag + filler derived from the tag. Oracle: per (direction, mode) received tags strictly increase; a delivered tag implies every earlier tag accepted in the same sender-side \
        open period was delivered; payloads byte-identical; nothing above the receiver's maximum delivered; sync send < 1 s and answers only ok/clogged/no-connection; async send never answers clogged. \
        A third campaign sends bursts of 300..2500 notifications of 1000 B .. exactly the maximum to a reader that keeps reading (the sender exhausts the 256 KiB stream window mid-frame again and again), \
        and slow consumers (15..200 us per notification) appear in all campaigns. Non-trivial = a burst above 4096 while the receiver was stalled, or a clogged answer, or an oversize send on an open stream, or a close/cut after traffic with deliveries, or more than 1 MiB delivered; distinct by case hash."
        .into();
    ctx.assumptions = vec![
        "thread and socket schedules are sampled, not owned".into(),
        "'accepted' is judged from the sender's own event history: a send counts only while the sender's user has seen the stream opened and not yet closed (send_sync_notification answers Ok for a peer without a stream)".into(),
        "delivery is not required (a closed stream delivers a prefix): only gaps, duplicates, reordering, corruption and oversize deliveries are violations".into(),
    ];
    let t = ctx.tier;
    ctx.campaign("scripts", CampaignCfg::new(t.pick(320, 6_000)).shards(16).shrink_iters(6), strategy, run_case);
    ctx.campaign("window-cycles", CampaignCfg::new(t.pick(160, 3_000)).shards(16).shrink_iters(6), window_cycles_strategy, run_case);
    ctx.campaign("reconnect-behind-stall", CampaignCfg::new(t.pick(96, 2_000)).shards(16).shrink_iters(6), reconnect_behind_stall_strategy, run_case);
    ctx.campaign("open-behind-stall", CampaignCfg::new(t.pick(96, 2_000)).shards(16).shrink_iters(6), open_behind_stall_strategy, run_case);
    ctx.campaign("backpressure", CampaignCfg::new(t.pick(160, 3_000)).shards(16).shrink_iters(6), backpressure_strategy, run_case);
}
