//! C07 when the remote ends the connection by breaking the rules: a rogue peer completes the whole opening of a
//! connection (multistream-select, a valid Noise session with a valid identity, yamux agreed) so that the node reports the
//! connection established, and then writes a generated sequence of yamux frames — streams opened for installed and unknown
//! protocols, data for streams that do not exist, data beyond the window, window updates that overflow, pings, go-away,
//! wrong versions and types, headers cut in half, bytes that are not yamux, bytes that are not Noise — and finally drops
//! the socket (possibly in the middle of a frame).
//!
//! Oracle: the node's user and each of its protocols are told of the connection exactly once and of its end exactly once,
//! the end within 3 s of the socket being dropped; no panic; afterwards an honest node connects and is served.

use crate::engine::{CaseFail, CaseOk, CaseResult};
use crate::f4::{case_panics, full_address, new_case_id, rr_request, wait_until, Cmd, Log, Node, NodeSetup, Obs, ObsKind, RrSetup, RR_PROTOCOL};
use crate::rogue_session::{substream_opening, yamux_frame, RogueSession, ACK, FIN, RST, SYN};
use crate::{ensure, fail};
use litep2p::PeerId;
use proptest::prelude::*;
use serde::{Deserialize, Serialize};
use std::sync::Arc;
use std::time::Duration;

#[derive(Debug, Clone, Serialize, Deserialize)]
pub enum Frame {
    /// open the next stream (odd ids, as a dialer must) and write the multistream opening for: 0/1 the node's probe
    /// protocols, 2 its request-response protocol, 3 a protocol it does not run, 4 bytes that are no opening at all;
    /// `syn_on_data`: SYN travels on the first data frame instead of a window update
    Open { proto: u8, syn_on_data: bool },
    /// a data frame on the `stream`-th opened stream (or on stream id `stream` itself when fewer were opened)
    Data { stream: u8, len: u16, flags: u8, declared_delta: i8 },
    WindowUpdate { stream: u8, delta: u32, flags: u8 },
    Ping { ack: bool, opaque: u32 },
    GoAway { code: u32 },
    BadVersion,
    BadType { ty: u8 },
    /// more data than the stream's receive window (256 KiB) in one frame, all of it sent
    OverWindow { stream: u8 },
    /// a header announcing a huge body (16 MiB / 4 GiB - 1) followed by 100 bytes
    DeclaredHuge { stream: u8, max: bool },
    /// SYN for an even stream id (the listener's parity) or for an id already used
    WrongParity { reuse: bool },
    /// bytes inside the encrypted channel that are not a yamux frame
    Garbage(Vec<u8>),
    /// bytes on the socket that are not a Noise message
    NotNoise(Vec<u8>),
    /// the first 5 bytes of a header and nothing else for a while
    HalfHeader,
    Sleep { ms: u8 },
}

#[derive(Debug, Clone, Serialize, Deserialize)]
pub struct Case {
    pub seed: u64,
    pub frames: Vec<Frame>,
    /// 0 drop the socket, 1 stall 300 ms then drop, 2 write half a frame then drop
    pub end: u8,
}

pub fn strategy() -> impl Strategy<Value = Case> {
    let flags = prop_oneof![4 => Just(0u8), 1 => Just(1), 1 => Just(2), 2 => Just(4), 2 => Just(8), 1 => Just(12), 1 => Just(15)];
    let frame = prop_oneof![
        6 => (0u8..5, any::<bool>()).prop_map(|(proto, syn_on_data)| Frame::Open { proto, syn_on_data }),
        5 => (0u8..6, prop_oneof![Just(0u16), Just(1), Just(40), Just(5000), Just(60_000)], flags.clone(), prop_oneof![4 => Just(0i8), 1 => Just(1), 1 => Just(-1), 1 => Just(100)])
            .prop_map(|(stream, len, flags, declared_delta)| Frame::Data { stream, len, flags, declared_delta }),
        3 => (0u8..6, prop_oneof![Just(0u32), Just(1), Just(1 << 20), Just(u32::MAX - 1), Just(u32::MAX)], flags).prop_map(|(stream, delta, flags)| Frame::WindowUpdate { stream, delta, flags }),
        2 => (any::<bool>(), any::<u32>()).prop_map(|(ack, opaque)| Frame::Ping { ack, opaque }),
        1 => prop_oneof![Just(0u32), Just(1), Just(2), Just(77)].prop_map(|code| Frame::GoAway { code }),
        1 => Just(Frame::BadVersion),
        1 => (4u8..=255).prop_map(|ty| Frame::BadType { ty }),
        1 => (0u8..6).prop_map(|stream| Frame::OverWindow { stream }),
        1 => (0u8..6, any::<bool>()).prop_map(|(stream, max)| Frame::DeclaredHuge { stream, max }),
        1 => any::<bool>().prop_map(|reuse| Frame::WrongParity { reuse }),
        1 => prop::collection::vec(any::<u8>(), 1..40).prop_map(Frame::Garbage),
        1 => prop::collection::vec(any::<u8>(), 1..40).prop_map(Frame::NotNoise),
        1 => Just(Frame::HalfHeader),
        2 => prop_oneof![Just(0u8), Just(3), Just(40)].prop_map(|ms| Frame::Sleep { ms }),
    ];
    (any::<u64>(), prop::collection::vec(frame, 0..8), 0u8..3).prop_map(|(seed, frames, end)| Case { seed, frames, end })
}

fn connected(log: &[Obs], node: usize, peer: &PeerId) -> bool {
    let mut up = false;
    for o in log.iter().filter(|o| o.node == node) {
        match &o.kind {
            ObsKind::ConnEstablished { peer: p, .. } if p == peer => up = true,
            ObsKind::ConnClosed { peer: p } if p == peer => up = false,
            _ => {}
        }
    }
    up
}

/// The yamux dependency (0.13.10) adds the credit of a stream-opening window update to the default window without a
/// check: with overflow checks compiled in (debug / test builds) a credit above 2^32 - 256 KiB panics inside the connection
/// task, which then never reports the connection closed. Known finding; excluded from generation while listed.
pub const SIG_YAMUX_CREDIT: &str = "C07/panic@src/connection.rs:730";

pub fn run_case(c: &Case) -> CaseResult {
    run_case_with(c, false)
}

pub fn run_case_with(c: &Case, avoid_credit_overflow: bool) -> CaseResult {
    run_case_for(c, avoid_credit_overflow, "C07")
}

/// `prop` prefixes the signatures; for C08 the substream events of the rogue's streams are judged as well: every one of them
/// lies between the protocol's established and closed events for the peer.
pub fn run_case_for(c: &Case, avoid_credit_overflow: bool, prop: &'static str) -> CaseResult {
    let log: Log = Arc::new(parking_lot::Mutex::new(Vec::new()));
    let case_id = new_case_id();
    let setup = |seed: u64| NodeSetup {
        seed,
        keep_alive: Some(Duration::from_secs(30)),
        rr: Some(RrSetup { timeout: Duration::from_millis(800), max_size: 1024, max_concurrent_inbound: None }),
        probes: 2,
        case_id,
        connection_open_timeout: Some(Duration::from_millis(1500)),
        substream_open_timeout: Some(Duration::from_millis(1500)),
        ..Default::default()
    };
    let victim = Node::spawn(0, setup(c.seed % 300 + 121_000), log.clone()).map_err(|e| CaseFail::new(format!("{prop}/harness-node-start-failed"), e))?;
    let pv = victim.peer;
    let addr_v = full_address(&victim);
    let port = addr_v.iter().find_map(|p| if let multiaddr::Protocol::Tcp(port) = p { Some(port) } else { None }).ok_or_else(|| CaseFail::new(format!("{prop}/harness-no-port"), "no tcp port"))?;
    let mut s = RogueSession::connect(([127, 0, 0, 1], port).into(), c.seed % 1000 + 122_000).map_err(|e| CaseFail::new(format!("{prop}/harness-rogue-could-not-connect"), e))?;
    let pr = s.peer;
    if !wait_until(&log, Duration::from_millis(3000), |l| connected(l, 0, &pr)) {
        return Err(CaseFail::new(format!("{prop}/harness-calibration-failed"), "the node did not report the rogue's (valid) connection as established within 3 s"));
    }
    // ---- the rogue's frames ----
    let mut opened: Vec<u32> = Vec::new();
    let mut next_id = 1u32;
    let mut alive = true;
    let mut violations = 0usize;
    let mut steered = false;
    let mut streams_for_installed = 0usize;
    let stream_id = |opened: &Vec<u32>, k: u8| opened.get(k as usize).copied().unwrap_or(k as u32);
    for f in &c.frames {
        if !alive {
            break;
        }
        let r = match f {
            Frame::Open { proto, syn_on_data } => {
                let id = next_id;
                next_id += 2;
                opened.push(id);
                let body = match proto % 5 {
                    0 => substream_opening("/vh/probe/0"),
                    1 => substream_opening("/vh/probe/1"),
                    2 => substream_opening(RR_PROTOCOL),
                    3 => substream_opening("/not/installed/1"),
                    _ => vec![0xff, 0x00, 0x13, b'x', b'\n'],
                };
                if proto % 5 < 3 {
                    streams_for_installed += 1;
                }
                if *syn_on_data {
                    s.send(&yamux_frame(0, 0, SYN, id, body.len() as u32, &body))
                } else {
                    let mut v = yamux_frame(0, 1, SYN, id, 0, &[]);
                    v.extend(yamux_frame(0, 0, 0, id, body.len() as u32, &body));
                    s.send(&v)
                }
            }
            Frame::Data { stream, len, flags, declared_delta } => {
                let id = stream_id(&opened, *stream);
                let body = crate::engine::fill_bytes(*len as u64 + 3, *len as usize);
                let declared = (*len as i64 + *declared_delta as i64).max(0) as u32;
                if *declared_delta != 0 || !opened.contains(&id) || flags & 0x3 != 0 {
                    violations += 1;
                }
                s.send(&yamux_frame(0, 0, *flags as u16, id, declared, &body))
            }
            Frame::WindowUpdate { stream, delta, flags } => {
                let id = stream_id(&opened, *stream);
                let delta = &if avoid_credit_overflow && flags & 1 != 0 && *delta > u32::MAX - (256 << 10) {
                    steered = true;
                    1u32 << 20
                } else {
                    *delta
                };
                if *delta > 1 << 20 || !opened.contains(&id) {
                    violations += 1;
                }
                s.send(&yamux_frame(0, 1, *flags as u16, id, *delta, &[]))
            }
            Frame::Ping { ack, opaque } => s.send(&yamux_frame(0, 2, if *ack { ACK } else { SYN }, 0, *opaque, &[])),
            Frame::GoAway { code } => s.send(&yamux_frame(0, 3, 0, 0, *code, &[])),
            Frame::BadVersion => {
                violations += 1;
                s.send(&yamux_frame(1, 0, 0, 1, 0, &[]))
            }
            Frame::BadType { ty } => {
                violations += 1;
                s.send(&yamux_frame(0, *ty, 0, 1, 0, &[]))
            }
            Frame::OverWindow { stream } => {
                violations += 1;
                let id = stream_id(&opened, *stream);
                let body = vec![0x5au8; 300 << 10];
                s.send(&yamux_frame(0, 0, 0, id, body.len() as u32, &body))
            }
            Frame::DeclaredHuge { stream, max } => {
                violations += 1;
                let id = stream_id(&opened, *stream);
                s.send(&yamux_frame(0, 0, 0, id, if *max { u32::MAX } else { 16 << 20 }, &[7u8; 100]))
            }
            Frame::WrongParity { reuse } => {
                violations += 1;
                let id = if *reuse { opened.first().copied().unwrap_or(2) } else { 2 };
                s.send(&yamux_frame(0, 1, SYN, id, 0, &[]))
            }
            Frame::Garbage(g) => {
                violations += 1;
                s.send(g)
            }
            Frame::NotNoise(g) => {
                violations += 1;
                s.send_raw(g)
            }
            Frame::HalfHeader => {
                violations += 1;
                let r = s.send(&[0, 0, 0, 0, 0]);
                s.drain(60);
                r
            }
            Frame::Sleep { ms } => {
                alive = s.drain(*ms as u64);
                Ok(())
            }
        };
        if r.is_err() || !s.drain(4) {
            alive = false;
        }
    }
    let _ = (FIN, RST);
    // ---- the end: the socket goes away ----
    match c.end % 3 {
        1 => {
            s.drain(300);
        }
        2 => {
            let _ = s.send(&yamux_frame(0, 0, 0, 1, 50, &[1, 2, 3]));
        }
        _ => {}
    }
    s.shutdown();
    let closed = wait_until(&log, Duration::from_millis(3000), |l| !connected(l, 0, &pr));
    if !closed {
        for p in case_panics(case_id) {
            if p.thread.ends_with("-node0") {
                fail!(format!("{prop}/panic@{}", p.location), "the node panicked: {} (frames {:?}); the connection was never reported closed", p.message, c.frames);
            }
        }
        let l = log.lock();
        fail!(
            format!("{prop}/connection-never-reported-closed"),
            "the rogue's socket was dropped after {:?}; 3 s later the node's user has not been told that the connection closed; events about it: {:?}",
            c.frames,
            l.iter().filter(|o| o.node == 0).filter_map(|o| about(&o.kind, &pr)).collect::<Vec<_>>()
        );
    }
    // everybody is told, exactly once (protocols are told before the user; give stragglers a moment)
    let complete = |l: &[Obs]| (0..2).all(|k| l.iter().any(|o| o.node == 0 && matches!(&o.kind, ObsKind::ProbeClosed { probe, peer } if *probe == k && *peer == pr)));
    wait_until(&log, Duration::from_millis(1500), |l| complete(l));
    std::thread::sleep(Duration::from_millis(150));
    {
        let l = log.lock();
        let count = |f: &dyn Fn(&ObsKind) -> bool| l.iter().filter(|o| o.node == 0 && f(&o.kind)).count();
        let est = count(&|k| matches!(k, ObsKind::ConnEstablished { peer, .. } if *peer == pr));
        let cls = count(&|k| matches!(k, ObsKind::ConnClosed { peer } if *peer == pr));
        ensure!(est == 1 && cls == 1, format!("{prop}/user-told-other-than-once"), "one connection: the user saw {est} established and {cls} closed events");
        for k in 0..2usize {
            let e = count(&|x| matches!(x, ObsKind::ProbeEstablished { probe, peer } if *probe == k && *peer == pr));
            let cl = count(&|x| matches!(x, ObsKind::ProbeClosed { probe, peer } if *probe == k && *peer == pr));
            ensure!(
                e == 1 && cl == 1,
                format!("{prop}/protocol-told-other-than-once"),
                "one connection: protocol {k} saw {e} established and {cl} closed events (frames {:?}); events: {:?}",
                c.frames,
                l.iter().filter(|o| o.node == 0).filter_map(|o| about(&o.kind, &pr)).collect::<Vec<_>>()
            );
        }
    }
    if prop == "C08" {
        let l = log.lock();
        for k in 0..2usize {
            let mut up = false;
            for o in l.iter().filter(|o| o.node == 0) {
                match &o.kind {
                    ObsKind::ProbeEstablished { probe, peer } if *probe == k && *peer == pr => up = true,
                    ObsKind::ProbeClosed { probe, peer } if *probe == k && *peer == pr => up = false,
                    ObsKind::ProbeSubstream { probe, peer, .. } if *probe == k && *peer == pr => {
                        ensure!(up, "C08/substream-event-outside-the-connection", "protocol {k} got a substream of the rogue while it does not count as connected (frames {:?})", c.frames);
                    }
                    _ => {}
                }
            }
        }
    }
    for p in case_panics(case_id) {
        if p.thread.ends_with("-node0") {
            fail!(format!("{prop}/panic@{}", p.location), "the node panicked: {} (frames {:?})", p.message, c.frames);
        }
    }
    // ---- an honest node is still served ----
    let honest = Node::spawn(1, setup(c.seed % 300 + 123_000), log.clone()).map_err(|e| CaseFail::new(format!("{prop}/harness-node-start-failed"), e))?;
    let ph = honest.peer;
    let mut served = false;
    for attempt in 0..3u64 {
        if !connected(&log.lock(), 1, &pv) {
            honest.send(Cmd::DialAddress(addr_v.clone()));
            if !wait_until(&log, Duration::from_millis(3000), |l| connected(l, 1, &pv) && connected(l, 0, &ph)) {
                continue;
            }
        }
        let mark = log.lock().len();
        honest.send(Cmd::RrSend { peer: pv, payload: rr_request(900 + attempt, 0, 0, 20, 15), dial: false });
        if wait_until(&log, Duration::from_millis(2500), |l| l[mark.min(l.len())..].iter().any(|o| o.node == 1 && matches!(&o.kind, ObsKind::RrResponse { .. }))) {
            served = true;
            break;
        }
    }
    if !served {
        if !crate::f4::control_pair_works(case_id, c.seed) {
            return Err(CaseFail::new(format!("{prop}/harness-control-pair-failed"), "two fresh honest nodes could not connect either"));
        }
        fail!(format!("{prop}/stopped-serving-after-rogue-connection"), "after the rogue's connection an honest node could not connect and get a response (3 attempts); frames {:?}", c.frames);
    }
    let reached = log.lock().iter().any(|o| o.node == 0 && matches!(&o.kind, ObsKind::ProbeSubstream { peer, inbound: true, .. } if *peer == pr));
    let mut ok = CaseOk::trivial();
    ok.excluded = steered;
    Ok(ok
        .nt(!c.frames.is_empty())
        .class_if(reached, "substream-of-the-rogue-reached-a-protocol")
        .class_if(violations > 0, "protocol-violation-by-the-remote")
        .class_if(violations == 0, "well-behaved-until-the-drop")
        .class_if(streams_for_installed > 0, "substreams-for-installed-protocols")
        .class_if(!alive, "node-ended-the-connection-first")
        .class_if(c.end % 3 == 2, "dropped-in-the-middle-of-a-frame"))
}

fn about(k: &ObsKind, peer: &PeerId) -> Option<String> {
    match k {
        ObsKind::ConnEstablished { peer: p, .. } | ObsKind::ConnClosed { peer: p } | ObsKind::ProbeEstablished { peer: p, .. } | ObsKind::ProbeClosed { peer: p, .. } | ObsKind::ProbeSubstream { peer: p, .. }
            if p == peer =>
        {
            Some(format!("{k:?}").chars().take(60).collect())
        }
        _ => None,
    }
}
