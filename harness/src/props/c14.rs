//! C14 — Kademlia routing table places and returns peers by XOR distance.
//!
//! Histories of add/connect/dial-failure/disconnect/lookups against the real `RoutingTable` with a
//! crafted local key and peers mined from a deterministic pool so that high buckets overflow;
//! oracle = bucket invariants over the dump + brute-force closest over the dump.

use crate::engine::{pick_idx, CampaignCfg, CaseFail, CaseOk, CaseResult, Ctx, SplitMix};
use crate::{ensure, fail};
use litep2p::protocol::libp2p::kademlia::verif::{ConnectionType, KBucketEntry, Key, RoutingTable};
use litep2p::transport::Endpoint;
use litep2p::types::ConnectionId;
use litep2p::PeerId;
use multiaddr::Multiaddr;
use proptest::prelude::*;
use serde::{Deserialize, Serialize};
use sha2::{Digest, Sha256};
use std::collections::{BTreeMap, BTreeSet};
use std::sync::OnceLock;

const POOL_BITS: u32 = 18;
const POOL_SEED: u64 = 0xC14_5EED;

pub struct Pool {
    /// sorted by key
    pub sorted: Vec<([u8; 32], u32)>,
    pub peers: Vec<PeerId>,
    pub keys: Vec<[u8; 32]>,
}

pub fn peer_of_index(i: u32) -> PeerId {
    let mut b = vec![0x00u8, 0x20];
    b.extend(SplitMix(POOL_SEED ^ ((i as u64) << 20)).bytes(32));
    PeerId::from_bytes(&b).expect("identity multihash of 32 bytes")
}

pub fn key_of_peer(p: &PeerId) -> [u8; 32] {
    let d = Sha256::digest(p.to_bytes());
    let mut out = [0u8; 32];
    out.copy_from_slice(&d);
    out
}

pub fn pool() -> &'static Pool {
    static POOL: OnceLock<Pool> = OnceLock::new();
    POOL.get_or_init(|| {
        let n = 1u32 << POOL_BITS;
        let peers: Vec<PeerId> = (0..n).map(peer_of_index).collect();
        let keys: Vec<[u8; 32]> = peers.iter().map(key_of_peer).collect();
        let mut sorted: Vec<([u8; 32], u32)> = keys.iter().cloned().zip(0..n).collect();
        sorted.sort();
        Pool { sorted, peers, keys }
    })
}

fn xor(a: &[u8; 32], b: &[u8; 32]) -> [u8; 32] {
    let mut out = [0u8; 32];
    for i in 0..32 {
        out[i] = a[i] ^ b[i];
    }
    out
}

/// floor(log2(d)) of a 256-bit big-endian integer; None for zero.
fn ilog2(d: &[u8; 32]) -> Option<usize> {
    for (i, b) in d.iter().enumerate() {
        if *b != 0 {
            return Some(255 - (i * 8 + b.leading_zeros() as usize));
        }
    }
    None
}

fn flip_bit(k: &[u8; 32], bit_from_lsb: u8) -> [u8; 32] {
    let mut out = *k;
    let bit = bit_from_lsb as usize;
    out[31 - bit / 8] ^= 1 << (bit % 8);
    out
}

#[derive(Debug, Clone, Serialize, Deserialize)]
pub enum LocalSel {
    AnchorExact,
    AnchorFlip(u8),
    AnchorLow(u64),
}

#[derive(Debug, Clone, Serialize, Deserialize)]
pub enum PeerSel {
    /// pool peer sharing exactly `bits` leading key bits with the anchor
    Shared { bits: u8, idx: u16 },
    Any(u32),
    Anchor,
}

#[derive(Debug, Clone, Serialize, Deserialize)]
pub enum Op {
    Add { peer: PeerSel, addrs: u8, conn: u8 },
    Established { peer: PeerSel, dialer: bool },
    DialFailure { peer: PeerSel },
    SetConn { peer: PeerSel, conn: u8 },
    Lookup { peer: PeerSel },
}

#[derive(Debug, Clone, Serialize, Deserialize)]
pub enum TargetSel {
    Local,
    LocalFlip(u8),
    LocalLow(u64),
    Peer(PeerSel),
    Raw(u64),
}

#[derive(Debug, Clone, Serialize, Deserialize)]
pub struct Case {
    pub anchor: u32,
    pub local: LocalSel,
    pub ops: Vec<Op>,
    pub probes: Vec<(TargetSel, u16)>,
}

fn conn_of(c: u8) -> ConnectionType {
    match c % 4 {
        0 => ConnectionType::NotConnected,
        1 => ConnectionType::Connected,
        2 => ConnectionType::CanConnect,
        _ => ConnectionType::CannotConnect,
    }
}

fn peer_sel(fill_heavy: bool) -> impl Strategy<Value = PeerSel> {
    let bits = if fill_heavy {
        prop_oneof![6 => 0u8..6, 2 => 6u8..13, 1 => 13u8..18].boxed()
    } else {
        prop_oneof![2 => 0u8..6, 2 => 6u8..13, 2 => 13u8..18].boxed()
    };
    prop_oneof![
        8 => (bits, 0u16..48).prop_map(|(bits, idx)| PeerSel::Shared { bits, idx }),
        2 => (0u32..(1 << POOL_BITS)).prop_map(PeerSel::Any),
        1 => Just(PeerSel::Anchor),
    ]
}

fn strategy(max_ops: usize, fill_heavy: bool) -> impl Strategy<Value = Case> {
    let op = prop_oneof![
        10 => (peer_sel(fill_heavy), prop_oneof![1 => Just(0u8), 6 => 1u8..4], 0u8..4).prop_map(|(peer, addrs, conn)| Op::Add { peer, addrs, conn }),
        2 => (peer_sel(fill_heavy), any::<bool>()).prop_map(|(peer, dialer)| Op::Established { peer, dialer }),
        1 => peer_sel(fill_heavy).prop_map(|peer| Op::DialFailure { peer }),
        2 => (peer_sel(fill_heavy), 0u8..4).prop_map(|(peer, conn)| Op::SetConn { peer, conn }),
        1 => peer_sel(fill_heavy).prop_map(|peer| Op::Lookup { peer }),
    ];
    let target = prop_oneof![
        1 => Just(TargetSel::Local),
        4 => any::<u8>().prop_map(TargetSel::LocalFlip),
        2 => any::<u64>().prop_map(TargetSel::LocalLow),
        3 => peer_sel(false).prop_map(TargetSel::Peer),
        3 => any::<u64>().prop_map(TargetSel::Raw),
    ];
    let k = prop_oneof![Just(0u16), Just(1), Just(2), Just(3), Just(19), Just(20), Just(21), Just(1000)];
    (
        0u32..(1 << POOL_BITS),
        prop_oneof![
            2 => Just(LocalSel::AnchorExact),
            3 => any::<u8>().prop_map(LocalSel::AnchorFlip),
            2 => any::<u64>().prop_map(LocalSel::AnchorLow),
        ],
        prop::collection::vec(op, 1..max_ops),
        prop::collection::vec((target, k), 1..24),
    )
        .prop_map(|(anchor, local, ops, probes)| Case { anchor, local, ops, probes })
}

fn resolve(sel: &PeerSel, anchor: u32) -> u32 {
    let p = pool();
    match sel {
        PeerSel::Anchor => anchor,
        PeerSel::Any(i) => *i % (1 << POOL_BITS),
        PeerSel::Shared { bits, idx } => {
            // keys with the anchor's first `bits` bits, then the opposite bit, then anything
            let ak = p.keys[anchor as usize];
            let bits = (*bits as usize).min(255);
            let mut lo = [0u8; 32];
            let mut hi = [0xffu8; 32];
            for i in 0..=bits {
                let byte = i / 8;
                let mask = 0x80u8 >> (i % 8);
                let mut bit = ak[byte] & mask != 0;
                if i == bits {
                    bit = !bit;
                }
                if bit {
                    lo[byte] |= mask;
                } else {
                    hi[byte] &= !mask;
                }
            }
            let start = p.sorted.partition_point(|(k, _)| *k < lo);
            let end = p.sorted.partition_point(|(k, _)| *k <= hi);
            if end > start {
                p.sorted[start + (*idx as usize % (end - start))].1
            } else {
                // class empty in the pool: fall back to a deterministic arbitrary peer
                ((*idx as u32).wrapping_mul(2654435761)) % (1 << POOL_BITS)
            }
        }
    }
}

type Dump = Vec<(usize, PeerId, [u8; 32], ConnectionType, Vec<Multiaddr>)>;

fn check_invariants(dump: &Dump, local_key: &[u8; 32], step: usize) -> Result<(), CaseFail> {
    let mut per_bucket: BTreeMap<usize, usize> = BTreeMap::new();
    let mut seen: BTreeSet<Vec<u8>> = BTreeSet::new();
    for (bucket, peer, key, _conn, addrs) in dump {
        *per_bucket.entry(*bucket).or_default() += 1;
        if addrs.is_empty() {
            continue; // placeholder created by `entry()` and never filled: outside the property
        }
        ensure!(*key == key_of_peer(peer), "C14/entry-key-is-not-hash-of-peer", "step {step}: peer {peer}");
        let d = xor(local_key, key);
        match ilog2(&d) {
            None => fail!("C14/local-node-stored", "step {step}: entry with the local key in bucket {bucket}"),
            Some(i) => ensure!(i == *bucket, "C14/peer-in-wrong-bucket", "step {step}: peer {peer} in bucket {bucket}, distance says {i}"),
        }
        ensure!(seen.insert(peer.to_bytes()), "C14/peer-stored-twice", "step {step}: peer {peer}");
    }
    for (b, n) in per_bucket {
        ensure!(n <= 20, "C14/bucket-over-capacity", "step {step}: bucket {b} holds {n}");
    }
    Ok(())
}

fn run_case(c: &Case) -> CaseResult {
    let p = pool();
    let anchor_key = p.keys[c.anchor as usize];
    // Bucket 0 (a stored peer at XOR distance exactly 1 from the local key) is never populated: it needs two SHA-256
    // images differing only in the least significant bit, and the repository documents (test
    // `closest_buckets_iterator_set_lsb`) that the bucket iterator visits bucket 0 twice for that reason. The crafted
    // local key is therefore never placed at distance 1 from the anchor (the only pool peer it is crafted from).
    let mut excluded = false;
    let local_key = match &c.local {
        LocalSel::AnchorExact => anchor_key,
        LocalSel::AnchorFlip(b) => {
            if *b == 0 {
                excluded = true;
            }
            flip_bit(&anchor_key, (*b).max(1))
        }
        LocalSel::AnchorLow(x) => {
            let x = if *x == 1 {
                excluded = true;
                2u64
            } else {
                *x
            };
            let mut k = anchor_key;
            for (i, b) in x.to_be_bytes().iter().enumerate() {
                k[24 + i] ^= b;
            }
            k
        }
    };
    let local_peer = p.peers[c.anchor as usize];
    let mut table = RoutingTable::new(Key::verif_from_bytes(local_key, local_peer));
    let mut full_bucket_seen = false;
    let mut replaced_seen = false;
    // the harness's own record of which stored peers are connected: only a connection-state change (add with a type,
    // connection established, disconnect) alters it — a dial failure does not disconnect a peer
    let mut model_connected: BTreeMap<Vec<u8>, (PeerId, usize)> = BTreeMap::new();

    for (step, op) in c.ops.iter().enumerate() {
        let before: Dump = table.verif_dump();
        let protected: Vec<(PeerId, usize)> = before
            .iter()
            .filter(|e| matches!(e.3, ConnectionType::Connected | ConnectionType::CanConnect) && !e.4.is_empty())
            .map(|e| (e.1, e.0))
            .collect();
        let mut touched: Option<PeerId> = None;
        match op {
            Op::Add { peer, addrs, conn } => {
                let idx = resolve(peer, c.anchor);
                let pid = p.peers[idx as usize];
                let key = p.keys[idx as usize];
                let addresses: Vec<Multiaddr> = (0..*addrs)
                    .map(|i| format!("/ip4/10.0.{}.{}/tcp/{}", idx % 250, i, 1000 + (idx % 60000)).parse().unwrap())
                    .collect();
                let n_addrs = addresses.len();
                table.add_known_peer(pid, addresses, conn_of(*conn));
                touched = Some(pid);
                // floor: a non-local peer with addresses whose bucket has room (or a replaceable entry) is stored
                if n_addrs > 0 && key != local_key {
                    let bucket = ilog2(&xor(&local_key, &key)).unwrap();
                    let in_bucket: Vec<_> = before.iter().filter(|e| e.0 == bucket).collect();
                    let already = in_bucket.iter().any(|e| e.1 == pid);
                    let room = in_bucket.len() < 20;
                    let replaceable = in_bucket.iter().any(|e| matches!(e.3, ConnectionType::NotConnected | ConnectionType::CannotConnect));
                    if in_bucket.len() >= 20 {
                        full_bucket_seen = true;
                    }
                    if !already && !room && replaceable {
                        replaced_seen = true;
                    }
                    if already || room || replaceable {
                        let after = table.verif_dump();
                        let e = after.iter().find(|e| e.1 == pid && !e.4.is_empty());
                        match e {
                            None => fail!("C14/known-peer-not-stored", "step {step}: peer {pid} bucket {bucket} (room {room}, replaceable {replaceable})"),
                            Some(e) => {
                                ensure!(e.0 == bucket, "C14/peer-in-wrong-bucket", "step {step}: peer {pid} stored in {} expected {bucket}", e.0);
                                ensure!(e.3 == conn_of(*conn), "C14/connection-type-not-recorded", "step {step}: peer {pid}");
                            }
                        }
                    }
                }
            }
            Op::Established { peer, dialer } => {
                let idx = resolve(peer, c.anchor);
                let pid = p.peers[idx as usize];
                let address: Multiaddr = format!("/ip4/10.1.{}.1/tcp/{}/p2p/{}", idx % 250, 1000 + (idx % 60000), pid).parse().unwrap();
                let endpoint = if *dialer {
                    Endpoint::Dialer { address, connection_id: ConnectionId::from(step) }
                } else {
                    Endpoint::Listener { address, connection_id: ConnectionId::from(step) }
                };
                table.on_connection_established(Key::from(pid), endpoint);
                // a peer that was stored becomes Connected — it is not "touched" for the protection rule
            }
            Op::DialFailure { peer } => {
                let idx = resolve(peer, c.anchor);
                let pid = p.peers[idx as usize];
                let address: Multiaddr = format!("/ip4/10.2.{}.1/tcp/{}/p2p/{}", idx % 250, 1000 + (idx % 60000), pid).parse().unwrap();
                table.on_dial_failure(Key::from(pid), &[address]);
            }
            Op::SetConn { peer, conn } => {
                let idx = resolve(peer, c.anchor);
                let pid = p.peers[idx as usize];
                if let KBucketEntry::Occupied(entry) = table.entry(Key::from(pid)) {
                    entry.verif_set_connection(conn_of(*conn));
                    touched = Some(pid);
                }
            }
            Op::Lookup { peer } => {
                let idx = resolve(peer, c.anchor);
                let pid = p.peers[idx as usize];
                let _ = table.entry(Key::from(pid));
            }
        }
        let after: Dump = table.verif_dump();
        check_invariants(&after, &local_key, step)?;
        // update the connectedness model from the operation itself
        match op {
            Op::Add { peer, addrs, conn } if *addrs > 0 => {
                let pid = p.peers[resolve(peer, c.anchor) as usize];
                if let Some(e) = after.iter().find(|e| e.1 == pid && !e.4.is_empty()) {
                    if matches!(conn_of(*conn), ConnectionType::Connected) {
                        model_connected.insert(pid.to_bytes(), (pid, e.0));
                    } else {
                        model_connected.remove(&pid.to_bytes());
                    }
                }
            }
            Op::Established { peer, .. } => {
                let pid = p.peers[resolve(peer, c.anchor) as usize];
                if let Some(e) = after.iter().find(|e| e.1 == pid && !e.4.is_empty()) {
                    model_connected.insert(pid.to_bytes(), (pid, e.0));
                }
            }
            Op::SetConn { peer, conn } => {
                let pid = p.peers[resolve(peer, c.anchor) as usize];
                if let Some(e) = after.iter().find(|e| e.1 == pid) {
                    if matches!(conn_of(*conn), ConnectionType::Connected) && !e.4.is_empty() {
                        model_connected.insert(pid.to_bytes(), (pid, e.0));
                    } else {
                        model_connected.remove(&pid.to_bytes());
                    }
                }
            }
            _ => {}
        }
        for (pid, bucket) in model_connected.values() {
            let still = after.iter().any(|e| e.1 == *pid && e.0 == *bucket && !e.4.is_empty());
            ensure!(still, "C14/connected-peer-displaced", "step {step}: connected peer {pid} (bucket {bucket}) is gone after {:?}", op);
        }
        for (pid, bucket) in protected {
            if Some(pid) == touched {
                continue;
            }
            let still = after.iter().any(|e| e.1 == pid && e.0 == bucket && !e.4.is_empty());
            ensure!(still, "C14/connected-peer-displaced", "step {step}: {pid} (bucket {bucket}) disappeared after {:?}", op);
        }
    }

    // probes
    let dump: Dump = table.verif_dump();
    let stored: Vec<(PeerId, [u8; 32])> = dump.iter().filter(|e| !e.4.is_empty()).map(|e| (e.1, e.2)).collect();
    let occupied: BTreeSet<usize> = dump.iter().filter(|e| !e.4.is_empty()).map(|e| e.0).collect();
    let mut near_local_target = false;
    for (tsel, k) in &c.probes {
        let target: [u8; 32] = match tsel {
            TargetSel::Local => local_key,
            TargetSel::LocalFlip(b) => flip_bit(&local_key, *b),
            TargetSel::LocalLow(x) => {
                near_local_target = true;
                let mut t = local_key;
                for (i, b) in x.to_be_bytes().iter().enumerate() {
                    t[24 + i] ^= b;
                }
                t
            }
            TargetSel::Peer(sel) => p.keys[resolve(sel, c.anchor) as usize],
            TargetSel::Raw(seed) => {
                let mut t = [0u8; 32];
                SplitMix(*seed).fill(&mut t);
                t
            }
        };
        let tkey = Key::verif_from_bytes(target, Vec::<u8>::new());
        let got: Vec<PeerId> = table.closest(&tkey, *k as usize).iter().map(|kp| kp.verif_parts().0).collect();
        let mut expect: Vec<(PeerId, [u8; 32])> = stored.clone();
        expect.sort_by_key(|(_, key)| xor(&target, key));
        let expect: Vec<PeerId> = expect.into_iter().take(*k as usize).map(|(p, _)| p).collect();
        if got != expect {
            let gset: BTreeSet<_> = got.iter().map(|p| p.to_bytes()).collect();
            let sig = if gset.len() != got.len() {
                "C14/closest-returns-duplicates"
            } else if got.len() != expect.len() {
                "C14/closest-wrong-count"
            } else if got.iter().map(|p| p.to_bytes()).collect::<BTreeSet<_>>() == expect.iter().map(|p| p.to_bytes()).collect::<BTreeSet<_>>() {
                "C14/closest-not-sorted-by-distance"
            } else {
                "C14/closest-not-the-k-closest"
            };
            fail!(sig, "target {:?} k {k}: got {} peers, expected {}; first difference at {:?}", tsel, got.len(), expect.len(),
                got.iter().zip(expect.iter()).position(|(a, b)| a != b));
        }
    }
    // closest() must not have changed the table
    let after: Dump = table.verif_dump();
    ensure!(after.len() == dump.len(), "C14/closest-mutated-table", "{} -> {}", dump.len(), after.len());

    let mut ok = CaseOk::trivial();
    ok.excluded = excluded;
    Ok(ok
        .nt(full_bucket_seen || occupied.len() >= 6 || near_local_target)
        .class_if(full_bucket_seen, "bucket-at-capacity")
        .class_if(replaced_seen, "replacement-of-unconnected")
        .class_if(occupied.len() >= 6, "ge-6-occupied-buckets")
        .class_if(occupied.iter().any(|b| *b < 128), "entry-in-low-bucket")
        .class_if(near_local_target, "target-near-local"))
}

/// Exhaustive sub-campaign: all 256 single-bit targets (+ local itself) against a filled table.
#[derive(Debug, Clone, Serialize, Deserialize)]
pub struct BitSweep {
    pub table_seed: u64,
    pub k: u16,
}

fn run_sweep(c: &BitSweep) -> CaseResult {
    let mut rng = SplitMix(c.table_seed);
    let anchor = (rng.next() % (1 << POOL_BITS)) as u32;
    let mut ops = Vec::new();
    for _ in 0..300 {
        let bits = (rng.next() % 16) as u8;
        ops.push(Op::Add {
            peer: PeerSel::Shared { bits, idx: (rng.next() % 48) as u16 },
            addrs: 1,
            conn: (rng.next() % 4) as u8,
        });
    }
    let flip = (rng.next() % 256) as u8;
    let mut probes: Vec<(TargetSel, u16)> = (0..=255u8).map(|b| (TargetSel::LocalFlip(b), c.k)).collect();
    probes.push((TargetSel::Local, c.k));
    let case = Case {
        anchor,
        local: if rng.next() % 2 == 0 { LocalSel::AnchorExact } else { LocalSel::AnchorFlip(flip) },
        ops,
        probes,
    };
    run_case(&case).map(|ok| ok.nt(true).class("bit-sweep"))
}

pub fn run(ctx: &mut Ctx) {
    ctx.rule = "case = local key crafted from a pool peer's key (exact / one bit flipped / low 64 bits altered) + history of add_known_peer (0..3 addresses, all \
        connection types), on_connection_established, on_dial_failure, connection-type changes and bare entry() lookups over peers mined from a fixed pool of 2^18 ids \
        by shared key prefix with the anchor (so buckets 255..243 overflow) + 1..24 closest() probes (targets: local, local with one bit flipped (all 256 bit \
        positions), local with low 64 bits altered, stored/pool peer keys, random; k in {0,1,2,3,19,20,21,1000}). Non-trivial = a bucket at capacity was hit, or >= 6 \
        distinct occupied buckets, or a target within 2^64 of local; distinct by case hash. The bit-sweep campaign enumerates all 256 single-bit targets per table."
        .into();
    ctx.assumptions = vec![
        "peer keys are SHA-256 hashes, so only the ~13 highest buckets can be filled beyond capacity (mined pool); lower buckets hold single crafted placements".into(),
        "placeholder entries that KBucket::entry creates and nobody fills have no addresses and are outside the property".into(),
        "bucket 0 is never populated (needs two SHA-256 images differing only in the last bit; the repository's own test documents the double visit of bucket 0 as accepted): crafted local keys at distance 1 from the anchor are remapped and counted as excluded".into(),
    ];
    let _ = pool();
    let t = ctx.tier;
    ctx.campaign("history", CampaignCfg::new(t.pick(4_000, 300_000)).shards(16), || strategy(120, false), run_case);
    ctx.campaign("fill-heavy", CampaignCfg::new(t.pick(1_500, 100_000)).shards(16), || strategy(500, true), run_case);
    let sweeps: Vec<BitSweep> = (0..t.pick(24u64, 400))
        .map(|i| BitSweep {
            table_seed: crate::engine::mix(ctx.seed, i),
            k: [1u16, 3, 20, 1000][(i % 4) as usize],
        })
        .collect();
    ctx.enumerate("bit-sweep", false, sweeps, run_sweep);
    let _ = pick_idx;
}
