//! C11 — notification streams follow a strict open/close protocol towards the user.
//!
//! Two real nodes (plus a fresh third one for the liveness probe) over loopback TCP, each with a
//! notification protocol and a probe user protocol (for force-closing connections). Generated
//! scripts issue open / close / validation answers / sends / force-close / reconnect on both
//! endpoints. Oracle: per-(node, peer) automaton over the user-visible events, answer ledger for
//! provably clean opens, Closed after connection loss, no panic, other peers keep being served.

use crate::engine::{CampaignCfg, CaseFail, CaseOk, CaseResult, Ctx};
use crate::f4::{case_panics, full_address, new_case_id, wait_until, Cmd, Log, Node, NodeSetup, NotifSetup, Obs, ObsKind, ProbeCmd};
use crate::{ensure, fail};
use litep2p::PeerId;
use proptest::prelude::*;
use serde::{Deserialize, Serialize};
use std::sync::Arc;
use std::time::{Duration, Instant};

#[derive(Debug, Clone, Serialize, Deserialize)]
pub enum Op {
    Open { node: u8 },
    Close { node: u8 },
    /// 0 accept, 1 reject, 2 never answer, 3 accept after 100 ms
    SetPolicy { node: u8, policy: u8 },
    /// answer a (possibly stale) validation request now
    Answer { node: u8, accept: bool },
    SendSync { node: u8 },
    SendAsync { node: u8 },
    /// the node's probe protocol force-closes the connection to the other node
    ForceClose { node: u8 },
    /// node 0 dials node 1 unless connected
    Reconnect,
    Sleep { ms: u16 },
    /// the node's only worker thread is blocked for `ms`: a silent peer (sockets stay open, nothing is answered; substream
    /// opens towards it run into the 1.5 s open timeout)
    Freeze { node: u8, ms: u16 },
    /// the stream is open; node `closer` closes it and the other node's user asks for it again the moment it is told
    /// that the stream closed: that request must be answered
    InstantReopen { closer: u8 },
    /// the stream is open; the other node's user stops reading its handle; node `closer` closes the stream and asks for it
    /// again the moment it is told; the other node's user, which has not read that the stream closed, closes "its" stream
    /// `delay` (index into 0 / 0.2 / 1 / 3 / 8 / 20 ms) later: a close command for a stream that is already gone
    StaleClose {
        closer: u8,
        delay: u8,
        /// this node cuts the connection after the delay, and the stale close command follows 40 ms later (the user has
        /// still not read its handle)
        #[serde(default)]
        cut: Option<u8>,
    },
    /// quiet pause, then a clean open that must be answered
    /// open a stream to a connected peer that does not run the notification protocol at all: exactly one open-failure
    OpenToBare { node: u8 },
    CleanOpen {
        node: u8,
        /// force-close the connection from this node's side this many hundred microseconds after the open request
        #[serde(default)]
        cut: Option<(u8, u8)>,
        /// judge 'nothing in progress' from the opener's own history only (the remote may still be in the middle of a
        /// negotiation, which the 10 s negotiation timeout bounds): the answer is awaited for 13 s instead of 4 s
        #[serde(default)]
        one_sided: bool,
        /// the opener's own user answers the validation of the reverse substream only this many milliseconds after the
        /// open request (its policy must be 'never answer'); with 10 300 and more the remote's 10 s negotiation timeout
        /// has already given up. Judged for a late Accept only (a Reject falls under the known finding).
        #[serde(default)]
        late_answer: Option<(u16, bool)>,
    },
}

#[derive(Debug, Clone, Serialize, Deserialize)]
pub struct Case {
    pub auto_accept: [bool; 2],
    pub policy: [u8; 2],
    pub ops: Vec<Op>,
    pub seed: u64,
}

fn strategy() -> impl Strategy<Value = Case> {
    let node = 0u8..2;
    let op = prop_oneof![
        6 => node.clone().prop_map(|node| Op::Open { node }),
        3 => node.clone().prop_map(|node| Op::Close { node }),
        3 => (node.clone(), 0u8..4).prop_map(|(node, policy)| Op::SetPolicy { node, policy }),
        3 => (node.clone(), any::<bool>()).prop_map(|(node, accept)| Op::Answer { node, accept }),
        2 => node.clone().prop_map(|node| Op::SendSync { node }),
        1 => node.clone().prop_map(|node| Op::OpenToBare { node }),
        1 => node.clone().prop_map(|node| Op::SendAsync { node }),
        3 => node.clone().prop_map(|node| Op::ForceClose { node }),
        4 => Just(Op::Reconnect),
        5 => prop_oneof![Just(0u16), Just(3), Just(20), Just(120)].prop_map(|ms| Op::Sleep { ms }),
        1 => (node.clone(), prop_oneof![Just(150u16), Just(1800)]).prop_map(|(node, ms)| Op::Freeze { node, ms }),
        2 => node.clone().prop_map(|closer| Op::InstantReopen { closer }),
        1 => (node.clone(), 0u8..6, prop::option::weighted(0.4, 0u8..2)).prop_map(|(closer, delay, cut)| Op::StaleClose { closer, delay, cut }),
        2 => (node, prop::option::weighted(0.4, (0u8..2, prop_oneof![Just(0u8), Just(1), Just(3), Just(10), Just(30)]))).prop_map(|(node, cut)| Op::CleanOpen { node, cut, one_sided: false, late_answer: None }),
    ];
    (
        [prop::bool::weighted(0.3), prop::bool::weighted(0.3)],
        [prop_oneof![4 => Just(0u8), 2 => Just(1u8), 2 => Just(2u8), 1 => Just(3u8)], prop_oneof![4 => Just(0u8), 2 => Just(1u8), 2 => Just(2u8), 1 => Just(3u8)]],
        prop::collection::vec(op, 2..12),
        any::<u64>(),
    )
        .prop_map(|(auto_accept, policy, ops, seed)| Case { auto_accept, policy, ops, seed })
}

/// Histories that are mostly clean opens, many of them cut by a connection loss a few hundred microseconds later.
fn clean_strategy() -> impl Strategy<Value = Case> {
    let node = 0u8..2;
    let pre = prop_oneof![
        2 => node.clone().prop_map(|node| Op::Open { node }),
        2 => node.clone().prop_map(|node| Op::Close { node }),
        1 => node.clone().prop_map(|node| Op::ForceClose { node }),
        1 => (node.clone(), prop_oneof![Just(0u8), Just(1), Just(3)]).prop_map(|(node, policy)| Op::SetPolicy { node, policy }),
        1 => node.clone().prop_map(|node| Op::OpenToBare { node }),
    ];
    let clean = (node.clone(), prop::option::weighted(0.7, (0u8..2, prop_oneof![Just(0u8), Just(1), Just(2), Just(4), Just(8), Just(15), Just(40)])))
        .prop_map(|(node, cut)| Op::CleanOpen { node, cut, one_sided: false, late_answer: None });
    let item = prop_oneof![1 => pre, 3 => clean];
    (
        [prop::bool::weighted(0.4), prop::bool::weighted(0.4)],
        [prop_oneof![4 => Just(0u8), 1 => Just(1u8), 1 => Just(3u8)], prop_oneof![4 => Just(0u8), 1 => Just(1u8), 1 => Just(3u8)]],
        prop::collection::vec(item, 2..7),
        any::<u64>(),
    )
        .prop_map(|(auto_accept, policy, ops, seed)| Case { auto_accept, policy, ops, seed })
}

/// Histories built around a close command that arrives after the remote has closed the stream and asked for it again:
/// optionally the connection is cut while the re-opened stream waits for the user's verdict, then reconnect and new opens.
fn stale_close_strategy() -> impl Strategy<Value = Case> {
    let node = 0u8..2;
    (
        node.clone(),
        0u8..6,
        prop::option::weighted(0.4, 0u8..2),
        prop::option::weighted(0.5, (node.clone(), prop_oneof![Just(0u16), Just(3), Just(20), Just(120)])),
        prop::collection::vec(prop_oneof![
            2 => node.clone().prop_map(|node| Op::Open { node }),
            1 => node.clone().prop_map(|node| Op::Close { node }),
            1 => (node.clone(), 0u8..6, prop::option::weighted(0.4, 0u8..2)).prop_map(|(closer, delay, cut)| Op::StaleClose { closer, delay, cut }),
            1 => node.clone().prop_map(|node| Op::SendSync { node }),
        ], 0..3),
        prop::collection::vec(node.clone().prop_map(|node| Op::CleanOpen { node, cut: None, one_sided: false, late_answer: None }), 0..2),
        [prop::bool::weighted(0.2), prop::bool::weighted(0.2)],
        [prop_oneof![5 => Just(0u8), 1 => Just(2u8), 1 => Just(3u8)], prop_oneof![5 => Just(0u8), 1 => Just(2u8), 1 => Just(3u8)]],
        any::<u64>(),
    )
        .prop_map(|(closer, delay, cut_first, cut, extras, tail, auto_accept, policy, seed)| {
            let mut ops = vec![Op::StaleClose { closer, delay, cut: cut_first }];
            if cut_first.is_some() {
                ops.push(Op::Sleep { ms: 120 });
                ops.push(Op::Reconnect);
            } else if let Some((who, ms)) = cut {
                ops.push(Op::Sleep { ms });
                ops.push(Op::ForceClose { node: who });
                ops.push(Op::Sleep { ms: 120 });
                ops.push(Op::Reconnect);
            }
            ops.push(Op::Sleep { ms: 120 });
            ops.extend(extras);
            ops.push(Op::Sleep { ms: 120 });
            ops.extend(tail);
            Case { auto_accept, policy, ops, seed }
        })
}

/// Histories built around a validation request that is still unanswered when the connection is lost: the answer arrives
/// while disconnected or after the reconnect, followed by new opens. Random extra operations are spliced in.
fn stale_strategy() -> impl Strategy<Value = Case> {
    let node = 0u8..2;
    let extra = prop_oneof![
        2 => node.clone().prop_map(|node| Op::Open { node }),
        1 => node.clone().prop_map(|node| Op::Close { node }),
        2 => prop_oneof![Just(0u16), Just(3), Just(20), Just(120)].prop_map(|ms| Op::Sleep { ms }),
        1 => Just(Op::Reconnect),
        1 => node.clone().prop_map(|node| Op::SendSync { node }),
        1 => (node.clone(), any::<bool>()).prop_map(|(node, accept)| Op::Answer { node, accept }),
    ];
    (
        node.clone(),                                   // the opener
        node.clone(),                                   // who force-closes
        any::<bool>(),                                  // stale answer: accept?
        any::<bool>(),                                  // answer before the reconnect?
        0u8..4,                                         // policy of the validator after the stale answer
        prop::collection::vec((0usize..8, extra), 0..4),
        prop::collection::vec(node.clone().prop_map(|node| Op::CleanOpen { node, cut: None, one_sided: false, late_answer: None }), 0..2),
        any::<u64>(),
    )
        .prop_map(|(opener, closer, accept, before, later_policy, extras, tail, seed)| {
            let v = 1 - opener;
            let mut ops = vec![Op::Open { node: opener }, Op::Sleep { ms: 120 }, Op::ForceClose { node: closer }, Op::Sleep { ms: 120 }];
            if before {
                ops.push(Op::Answer { node: v, accept });
                ops.push(Op::Reconnect);
            } else {
                ops.push(Op::Reconnect);
                ops.push(Op::Answer { node: v, accept });
            }
            ops.push(Op::SetPolicy { node: v, policy: later_policy });
            ops.push(Op::Open { node: opener });
            for (at, op) in extras {
                let at = at.min(ops.len());
                ops.insert(at, op);
            }
            ops.extend(tail);
            let mut policy = [0u8, 0u8];
            policy[v as usize] = 2;
            Case { auto_accept: [false, false], policy, ops, seed }
        })
}

/// Histories built around a peer that falls silent in the middle of a negotiation: one side opens, the other side's user
/// has not answered the validation yet, then one of the two freezes for longer than the substream-open timeout and the
/// validation is answered — the accepting side's own outbound half then fails to open while the connection stays up.
fn silent_strategy() -> impl Strategy<Value = Case> {
    let node = 0u8..2;
    let extra = prop_oneof![
        2 => node.clone().prop_map(|node| Op::Open { node }),
        1 => node.clone().prop_map(|node| Op::Close { node }),
        2 => prop_oneof![Just(0u16), Just(20), Just(120)].prop_map(|ms| Op::Sleep { ms }),
        1 => node.clone().prop_map(|node| Op::SendSync { node }),
        1 => (node.clone(), any::<bool>()).prop_map(|(node, accept)| Op::Answer { node, accept }),
        1 => node.clone().prop_map(|node| Op::ForceClose { node }),
    ];
    (
        node.clone(),  // the opener
        any::<bool>(), // the opener is the one that freezes (else the validator)
        prop_oneof![3 => Just(1700u16), 2 => Just(2200), 1 => Just(600)],
        prop::bool::weighted(0.85), // accept?
        prop_oneof![Just(0u16), Just(5), Just(40)],
        prop::collection::vec((0usize..8, extra), 0..3),
        prop::collection::vec((node.clone(), prop::bool::weighted(0.8)).prop_map(|(node, one_sided)| Op::CleanOpen { node, cut: None, one_sided, late_answer: None }), 1..3),
        any::<u64>(),
    )
        .prop_map(|(opener, opener_freezes, ms, accept, gap, extras, tail, seed)| {
            let v = 1 - opener;
            let mut ops = vec![
                Op::Open { node: opener },
                Op::Sleep { ms: 120 },
                Op::Freeze { node: if opener_freezes { opener } else { v }, ms },
                Op::Sleep { ms: gap },
                Op::Answer { node: v, accept },
                Op::Sleep { ms: 120 },
                Op::SetPolicy { node: v, policy: 0 },
            ];
            for (at, op) in extras {
                let at = at.min(ops.len());
                ops.insert(at, op);
            }
            ops.extend(tail);
            let mut policy = [0u8, 0u8];
            policy[v as usize] = 2;
            Case { auto_accept: [false, false], policy, ops, seed }
        })
}

/// The opener's own user answers the validation of the reverse substream late — around and after the moment the remote's
/// 10 s negotiation timeout gives up — while the connection stays up.
fn late_validation_strategy() -> impl Strategy<Value = Case> {
    (0u8..2, prop_oneof![Just(9_700u16), Just(10_300), Just(10_800), Just(12_000)], prop::bool::weighted(0.9), any::<bool>(), any::<u64>()).prop_map(|(opener, after, accept, follow, seed)| {
        let mut ops = vec![Op::CleanOpen { node: opener, cut: None, one_sided: false, late_answer: Some((after, accept)) }, Op::SetPolicy { node: opener, policy: 0 }];
        if follow {
            ops.push(Op::CleanOpen { node: 1 - opener, cut: None, one_sided: true, late_answer: None });
        }
        let mut policy = [0u8, 0u8];
        policy[opener as usize] = 2;
        Case { auto_accept: [false, false], policy, ops, seed }
    })
}

pub const SIG_REJECT: &str = "C11/clean-open-request-never-answered/local-user-rejected-the-reverse-validation";

fn connected(log: &[Obs], node: usize, peer: &PeerId) -> bool {
    let e = log.iter().filter(|o| o.node == node && matches!(&o.kind, ObsKind::ConnEstablished { peer: p, .. } if p == peer)).count();
    let c = log.iter().filter(|o| o.node == node && matches!(&o.kind, ObsKind::ConnClosed { peer: p } if p == peer)).count();
    e > c
}

fn notif_setup(auto_accept: bool, policy: u8) -> NotifSetup {
    NotifSetup {
        auto_accept,
        sync_channel: 64,
        async_channel: 8,
        max_size: 1024,
        handshake: vec![1, 2, 3, 4],
        policy,
    }
}

/// Is the pair quiet: no notification-related event on either end for `quiet`, stream not open, no unanswered validation,
/// no unresolved open request?
fn pair_is_clean(log: &[Obs], peers: &[PeerId], quiet: Duration, only: Option<usize>) -> bool {
    let now = Instant::now();
    for n in 0..2usize {
        if only.map(|o| o != n).unwrap_or(false) {
            continue;
        }
        let other = peers[1 - n];
        let mut open = false;
        let mut pending_validate = false;
        let mut pending_open = false;
        let mut last = None;
        for o in log.iter().filter(|o| o.node == n) {
            let touched = match &o.kind {
                ObsKind::NotifOpened { peer, .. } if *peer == other => {
                    open = true;
                    pending_open = false;
                    pending_validate = false;
                    true
                }
                ObsKind::NotifClosed { peer } if *peer == other => {
                    open = false;
                    true
                }
                ObsKind::NotifOpenFailure { peer, .. } if *peer == other => {
                    pending_open = false;
                    true
                }
                ObsKind::NotifValidate { peer } if *peer == other => {
                    pending_validate = true;
                    true
                }
                ObsKind::NotifApi { what, .. } => {
                    if what.starts_with("open") {
                        pending_open = true;
                    }
                    if what.starts_with("answer") {
                        pending_validate = false;
                    }
                    true
                }
                ObsKind::ConnEstablished { .. } | ObsKind::ConnClosed { .. } => true,
                _ => false,
            };
            if touched {
                last = Some(o.t);
            }
        }
        if open || pending_validate || pending_open {
            return false;
        }
        if let Some(t) = last {
            if now.duration_since(t) < quiet {
                return false;
            }
        }
    }
    true
}

fn run_case_with(c: &Case, avoid_reject: bool) -> CaseResult {
    let case_id = new_case_id();
    let mut steered = false;
    let log: Log = Arc::new(parking_lot::Mutex::new(Vec::new()));
    let mut nodes: Vec<Node> = Vec::new();
    let with_bare = c.ops.iter().any(|o| matches!(o, Op::OpenToBare { .. }));
    for i in 0..(if with_bare { 4usize } else { 3 }) {
        let (aa, pol) = if i < 2 { (c.auto_accept[i], c.policy[i]) } else { (false, 0) };
        nodes.push(
            Node::spawn(
                i,
                NodeSetup {
                    seed: c.seed % 500 + 40_000 + i as u64,
                    keep_alive: Some(Duration::from_secs(20)),
                    notif: if i == 3 { None } else { Some(notif_setup(aa, pol)) },
                    probes: 1,
                    case_id,
                    connection_open_timeout: Some(Duration::from_millis(1500)),
                    substream_open_timeout: Some(Duration::from_millis(1500)),
                    ..Default::default()
                },
                log.clone(),
            )
            .map_err(|e| CaseFail::new("C11/harness-node-start-failed", e))?,
        );
    }
    let peers: Vec<PeerId> = nodes.iter().map(|n| n.peer).collect();
    let addr1 = full_address(&nodes[1]);
    let connect = |nodes: &Vec<Node>, log: &Log| -> Result<(), CaseFail> {
        if connected(&log.lock(), 0, &peers[1]) && connected(&log.lock(), 1, &peers[0]) {
            return Ok(());
        }
        let (p0, p1) = (peers[0], peers[1]);
        let mut ok = false;
        // a dial issued while one end still sees the previous connection can be refused (already connected): retry
        for _ in 0..5 {
            nodes[0].send(Cmd::DialAddress(addr1.clone()));
            if wait_until(log, Duration::from_millis(900), |l| connected(l, 0, &p1) && connected(l, 1, &p0)) {
                ok = true;
                break;
            }
        }
        if !ok {
            return Err(CaseFail::new("C11/harness-calibration-failed", "two healthy nodes did not connect within 4 s"));
        }
        std::thread::sleep(Duration::from_millis(15));
        Ok(())
    };
    connect(&nodes, &log)?;
    let mut policy = c.policy;
    let mut frozen_until: [Option<Instant>; 2] = [None, None];
    let mut froze_during_negotiation = false;
    let mut late_validation = false;
    let mut instant_reopen = false;
    let mut stale_close = false;
    let wait_thaw = |f: &[Option<Instant>; 2]| {
        if let Some(u) = f.iter().flatten().max() {
            std::thread::sleep(u.saturating_duration_since(Instant::now()));
        }
    };
    let mut simultaneous = false;
    let mut disconnect_during_validation = false;
    let mut reject_then_reopen = false;
    let mut rejected_once = false;
    let mut last_open: [Option<Instant>; 2] = [None, None];
    let mut clean_checked = 0usize;
    let mut open_then_cut = 0usize;
    let mut bare_opens = 0usize;
    let mut cut_answered_failure = 0usize;
    let mut tag = 0u64;

    for op in &c.ops {
        match op {
            Op::Open { node } => {
                let n = *node as usize % 2;
                if let Some(t) = last_open[1 - n] {
                    if t.elapsed() < Duration::from_millis(8) {
                        simultaneous = true;
                    }
                }
                last_open[n] = Some(Instant::now());
                if rejected_once {
                    reject_then_reopen = true;
                }
                nodes[n].send(Cmd::NotifOpen(peers[1 - n]));
            }
            Op::Close { node } => {
                let n = *node as usize % 2;
                nodes[n].send(Cmd::NotifClose(peers[1 - n]));
            }
            Op::SetPolicy { node, policy: p } => {
                let n = *node as usize % 2;
                policy[n] = *p;
                nodes[n].send(Cmd::NotifSetPolicy(*p));
            }
            Op::Answer { node, accept } => {
                let n = *node as usize % 2;
                if !*accept {
                    rejected_once = true;
                }
                nodes[n].send(Cmd::NotifAnswer { peer: peers[1 - n], accept: *accept });
            }
            Op::SendSync { node } => {
                let n = *node as usize % 2;
                tag += 1;
                nodes[n].send(Cmd::NotifSendSync { peer: peers[1 - n], data: tag.to_le_bytes().to_vec() });
            }
            Op::SendAsync { node } => {
                let n = *node as usize % 2;
                tag += 1;
                nodes[n].send(Cmd::NotifSendAsync { peer: peers[1 - n], data: tag.to_le_bytes().to_vec() });
            }
            Op::ForceClose { node } => {
                let n = *node as usize % 2;
                {
                    let l = log.lock();
                    let other = peers[n];
                    let m = 1 - n;
                    let val = l.iter().filter(|o| o.node == m && matches!(&o.kind, ObsKind::NotifValidate { peer } if *peer == other)).count();
                    let ans = l.iter().filter(|o| o.node == m && matches!(&o.kind, ObsKind::NotifOpened { peer, .. } | ObsKind::NotifOpenFailure { peer, .. } if *peer == other)).count();
                    if val > ans {
                        disconnect_during_validation = true;
                    }
                }
                let _ = nodes[n].probes[0].send(ProbeCmd::ForceClose(peers[1 - n]));
                std::thread::sleep(Duration::from_millis(40));
            }
            Op::Reconnect => {
                wait_thaw(&frozen_until);
                connect(&nodes, &log)?
            }
            Op::Sleep { ms } => std::thread::sleep(Duration::from_millis(*ms as u64)),
            Op::Freeze { node, ms } => {
                let n = *node as usize % 2;
                if frozen_until[n].map(|u| Instant::now() < u).unwrap_or(false) {
                    continue;
                }
                {
                    // a negotiation is in progress when a validation is unanswered on either side
                    let l = log.lock();
                    for m in 0..2usize {
                        let other = peers[1 - m];
                        let val = l.iter().filter(|o| o.node == m && matches!(&o.kind, ObsKind::NotifValidate { peer } if *peer == other)).count();
                        let ans = l.iter().filter(|o| o.node == m && matches!(&o.kind, ObsKind::NotifOpened { peer, .. } | ObsKind::NotifOpenFailure { peer, .. } if *peer == other)).count();
                        if val > ans {
                            froze_during_negotiation = true;
                        }
                    }
                }
                nodes[n].send(Cmd::Freeze(Duration::from_millis(*ms as u64)));
                frozen_until[n] = Some(Instant::now() + Duration::from_millis(*ms as u64 + 40));
                std::thread::sleep(Duration::from_millis(3));
            }
            Op::InstantReopen { closer } => {
                let n = *closer as usize % 2;
                let v = 1 - n;
                if policy[0] != 0 || policy[1] != 0 || c.auto_accept[0] || c.auto_accept[1] {
                    continue;
                }
                wait_thaw(&frozen_until);
                connect(&nodes, &log)?;
                let open_on = |l: &[Obs], node: usize, peer: &PeerId| {
                    let mut open = false;
                    for o in l.iter().filter(|o| o.node == node) {
                        match &o.kind {
                            ObsKind::NotifOpened { peer: p, .. } if p == peer => open = true,
                            ObsKind::NotifClosed { peer: p } if p == peer => open = false,
                            _ => {}
                        }
                    }
                    open
                };
                let (pn, pv) = (peers[n], peers[v]);
                if !(open_on(&log.lock(), n, &pv) && open_on(&log.lock(), v, &pn)) {
                    // get the stream open first (bounded; otherwise skip)
                    let start = Instant::now();
                    let mut clean = false;
                    while start.elapsed() < Duration::from_millis(1200) {
                        if pair_is_clean(&log.lock(), &peers, Duration::from_millis(300), None) {
                            clean = true;
                            break;
                        }
                        std::thread::sleep(Duration::from_millis(20));
                    }
                    if !clean {
                        continue;
                    }
                    nodes[n].send(Cmd::NotifOpen(pv));
                    if !wait_until(&log, Duration::from_millis(3000), |l| open_on(l, n, &pv) && open_on(l, v, &pn)) {
                        continue;
                    }
                    std::thread::sleep(Duration::from_millis(30));
                }
                nodes[v].send(Cmd::NotifReopenOnClosed(true));
                std::thread::sleep(Duration::from_millis(5));
                let mark = log.lock().len();
                nodes[n].send(Cmd::NotifClose(pv));
                // the other node is told, and its user asks again at once
                let asked = wait_until(&log, Duration::from_millis(3000), |l| l[mark.min(l.len())..].iter().any(|o| o.node == v && matches!(&o.kind, ObsKind::NotifApi { what, ok: true } if what.starts_with("open"))));
                if asked {
                    instant_reopen = true;
                    let answered = wait_until(&log, Duration::from_secs(13), |l| {
                        l[mark.min(l.len())..].iter().any(|o| o.node == v && matches!(&o.kind, ObsKind::NotifOpened { peer, .. } | ObsKind::NotifOpenFailure { peer, .. } if *peer == pn))
                    });
                    nodes[v].send(Cmd::NotifReopenOnClosed(false));
                    if !answered {
                        let l = log.lock();
                        fail!(
                            "C11/clean-open-request-never-answered",
                            "node {n} closed the open stream; node {v}'s user asked for it again the moment it was told (nothing else in progress) and got neither opened nor open-failure within 13 s; events since the close: {:?}",
                            l[mark.min(l.len())..].iter().filter(|o| o.node < 2).map(|o| format!("{}:{}", o.node, short(&o.kind))).collect::<Vec<_>>()
                        );
                    }
                } else {
                    nodes[v].send(Cmd::NotifReopenOnClosed(false));
                }
                std::thread::sleep(Duration::from_millis(30));
            }
            Op::StaleClose { closer, delay, cut } => {
                let n = *closer as usize % 2;
                let v = 1 - n;
                wait_thaw(&frozen_until);
                connect(&nodes, &log)?;
                let open_on = |l: &[Obs], node: usize, peer: &PeerId| {
                    let mut open = false;
                    for o in l.iter().filter(|o| o.node == node) {
                        match &o.kind {
                            ObsKind::NotifOpened { peer: p, .. } if p == peer => open = true,
                            ObsKind::NotifClosed { peer: p } if p == peer => open = false,
                            _ => {}
                        }
                    }
                    open
                };
                let (pn, pv) = (peers[n], peers[v]);
                if !(open_on(&log.lock(), n, &pv) && open_on(&log.lock(), v, &pn)) {
                    nodes[n].send(Cmd::NotifOpen(pv));
                    if !wait_until(&log, Duration::from_millis(2500), |l| open_on(l, n, &pv) && open_on(l, v, &pn)) {
                        continue;
                    }
                    std::thread::sleep(Duration::from_millis(30));
                }
                nodes[v].send(Cmd::NotifStall(Duration::from_millis(if cut.is_some() { 400 } else { 250 })));
                nodes[n].send(Cmd::NotifReopenOnClosed(true));
                std::thread::sleep(Duration::from_millis(5));
                nodes[n].send(Cmd::NotifClose(pv));
                let us = [0u64, 200, 1_000, 3_000, 8_000, 20_000][*delay as usize % 6];
                let until = Instant::now() + Duration::from_micros(us);
                while Instant::now() < until {
                    std::hint::spin_loop();
                }
                if let Some(who) = cut {
                    let w = *who as usize % 2;
                    let _ = nodes[w].probes[0].send(ProbeCmd::ForceClose(peers[1 - w]));
                    std::thread::sleep(Duration::from_millis(40));
                }
                nodes[v].send(Cmd::NotifClose(pn));
                stale_close = true;
                std::thread::sleep(Duration::from_millis(40));
                nodes[n].send(Cmd::NotifReopenOnClosed(false));
            }
            Op::OpenToBare { node } => {
                wait_thaw(&frozen_until);
                let n = *node as usize % 2;
                let bare = peers[3];
                if !connected(&log.lock(), n, &bare) {
                    nodes[n].send(Cmd::DialAddress(full_address(&nodes[3])));
                    if !wait_until(&log, Duration::from_secs(4), |l| connected(l, n, &bare)) {
                        return Err(CaseFail::new("C11/harness-calibration-failed", "could not connect to the bare node"));
                    }
                    std::thread::sleep(Duration::from_millis(15));
                }
                // an earlier request to the bare node must have been answered already (each is awaited below)
                let mark = log.lock().len();
                nodes[n].send(Cmd::NotifOpen(bare));
                let answered = wait_until(&log, Duration::from_secs(4), |l| {
                    l[mark.min(l.len())..].iter().any(|o| o.node == n && matches!(&o.kind, ObsKind::NotifOpened { peer, .. } | ObsKind::NotifOpenFailure { peer, .. } if *peer == bare))
                });
                ensure!(answered, "C11/open-request-to-peer-without-the-protocol-never-answered", "node {n}: neither opened nor open-failure within 4 s");
                std::thread::sleep(Duration::from_millis(30));
                let l = log.lock();
                let opened = l[mark..].iter().filter(|o| o.node == n && matches!(&o.kind, ObsKind::NotifOpened { peer, .. } if *peer == bare)).count();
                let failed = l[mark..].iter().filter(|o| o.node == n && matches!(&o.kind, ObsKind::NotifOpenFailure { peer, .. } if *peer == bare)).count();
                ensure!(opened == 0 && failed == 1, "C11/open-request-to-peer-without-the-protocol-wrongly-answered", "node {n}: {opened} opened, {failed} open-failure events");
                bare_opens += 1;
            }
            Op::CleanOpen { node, cut, one_sided, late_answer } => {
                let n = *node as usize % 2;
                let m = 1 - n;
                if policy[m] == 2 {
                    continue; // the remote never answers validations: resolves only by the 10 s negotiation timeout
                }
                if let Some((_, accept)) = late_answer {
                    // needs: both users validate, the opener's never answers by itself, the remote accepts at once
                    if c.auto_accept[n] || c.auto_accept[m] || policy[n] != 2 || policy[m] != 0 || (!*accept && avoid_reject) {
                        continue;
                    }
                } else if avoid_reject && (policy[n] == 1 || policy[n] == 2) && !c.auto_accept[n] {
                    // known finding: the opener's own user rejects (or never answers) the validation of the reverse substream
                    steered = true;
                    continue;
                }
                wait_thaw(&frozen_until);
                connect(&nodes, &log)?;
                // wait for the pair to become provably clean (bounded)
                let start = Instant::now();
                let mut clean = false;
                while start.elapsed() < Duration::from_millis(1200) {
                    if pair_is_clean(&log.lock(), &peers, Duration::from_millis(300), if *one_sided { Some(n) } else { None }) && connected(&log.lock(), 0, &peers[1]) && connected(&log.lock(), 1, &peers[0]) {
                        clean = true;
                        break;
                    }
                    std::thread::sleep(Duration::from_millis(20));
                }
                if !clean {
                    continue;
                }
                let mark = log.lock().len();
                nodes[n].send(Cmd::NotifOpen(peers[m]));
                let other = peers[m];
                if let Some((after, accept)) = late_answer {
                    nodes[n].send(Cmd::NotifAnswerLater { peer: other, accept: *accept, after: Duration::from_millis(*after as u64) });
                    late_validation = true;
                }
                if let Some((closer, delay)) = cut {
                    if *delay > 0 {
                        std::thread::sleep(Duration::from_micros(*delay as u64 * 100));
                    }
                    let k = *closer as usize % 2;
                    let _ = nodes[k].probes[0].send(ProbeCmd::ForceClose(peers[1 - k]));
                    open_then_cut += 1;
                }
                let wait_s = if let Some((after, _)) = late_answer { (*after as u64) / 1000 + 5 } else if *one_sided { 13 } else { 4 };
                let answered = wait_until(&log, Duration::from_secs(wait_s), |l| {
                    l[mark.min(l.len())..].iter().any(|o| o.node == n && matches!(&o.kind, ObsKind::NotifOpened { peer, .. } | ObsKind::NotifOpenFailure { peer, .. } if *peer == other))
                });
                clean_checked += 1;
                if !answered {
                    let l = log.lock();
                    let own_validation = l[mark.min(l.len())..].iter().any(|o| o.node == n && matches!(&o.kind, ObsKind::NotifValidate { peer } if *peer == other));
                    fail!(
                        if own_validation && policy[n] == 1 { SIG_REJECT } else { "C11/clean-open-request-never-answered" },
                        "node {n} opened a stream to a connected peer with nothing in progress (remote policy {}, auto-accept {}) and got neither opened nor open-failure within {} s; events since: {:?}",
                        policy[m],
                        c.auto_accept[m],
                        wait_s,
                        {
                            let t0 = l.first().map(|o| o.t).unwrap_or_else(Instant::now);
                            let mut v: Vec<String> = l[mark.min(l.len())..].iter().map(|o| format!("{}:{}", o.node, short(&o.kind))).collect();
                            v.push("-- whole history:".into());
                            v.extend(l.iter().filter(|o| o.node < 2).map(|o| format!("{}ms n{} {}", o.t.duration_since(t0).as_millis(), o.node, short(&o.kind))));
                            v
                        }
                    );
                }
                let n_answers = log.lock()[mark..].iter().filter(|o| o.node == n && matches!(&o.kind, ObsKind::NotifOpened { peer, .. } | ObsKind::NotifOpenFailure { peer, .. } if *peer == other)).count();
                ensure!(n_answers == 1, "C11/clean-open-request-answered-more-than-once", "node {n}: {n_answers} answers");
                if cut.is_some() && log.lock()[mark..].iter().any(|o| o.node == n && matches!(&o.kind, ObsKind::NotifOpenFailure { peer, .. } if *peer == other)) {
                    cut_answered_failure += 1;
                }
            }
        }
    }
    wait_thaw(&frozen_until);
    std::thread::sleep(Duration::from_millis(150));

    // liveness of others: a fresh node gets served by both nodes
    for n in 0..2usize {
        nodes[n].send(Cmd::NotifSetPolicy(0));
    }
    std::thread::sleep(Duration::from_millis(20));
    let mut served = [false, false];
    for n in 0..2usize {
        let addr = full_address(&nodes[n]);
        nodes[2].send(Cmd::DialAddress(addr));
        let pn = peers[n];
        if !wait_until(&log, Duration::from_secs(4), |l| connected(l, 2, &pn)) {
            let panics = case_panics(case_id);
            if let Some(p) = panics.first() {
                fail!(format!("C11/panic@{}", p.location), "{} (node thread {})", p.message, p.thread);
            }
            return Err(CaseFail::new("C11/harness-calibration-failed", "fresh node could not connect"));
        }
        std::thread::sleep(Duration::from_millis(15));
        nodes[2].send(Cmd::NotifOpen(pn));
        served[n] = wait_until(&log, Duration::from_secs(5), |l| l.iter().any(|o| o.node == 2 && matches!(&o.kind, ObsKind::NotifOpened { peer, .. } if *peer == pn)));
    }
    std::thread::sleep(Duration::from_millis(50));
    let history: Vec<Obs> = log.lock().clone();
    drop(nodes);
    std::thread::sleep(Duration::from_millis(5));

    // ---- oracle ----
    let panics = case_panics(case_id);
    if let Some(p) = panics.first() {
        fail!(format!("C11/panic@{}", p.location), "{} (thread {}); ops {:?}", p.message, p.thread, c.ops);
    }
    for n in 0..2usize {
        ensure!(
            served[n],
            "C11/protocol-stopped-serving-other-peers",
            "a fresh node connected to node {n} and opened a stream (policy accept) but never saw it opened; node {n} events: {:?}",
            history.iter().filter(|o| o.node == n).rev().take(6).map(|o| short(&o.kind)).collect::<Vec<_>>()
        );
    }
    // per (node, peer) automaton
    for n in 0..3usize {
        for (pi, p) in peers.iter().enumerate() {
            if pi == n {
                continue;
            }
            let mut open = false;
            let mut validated = false;
            let mut accepted = false;
            let mut conn_lost_at: Option<Instant> = None;
            for o in history.iter().filter(|o| o.node == n) {
                match &o.kind {
                    ObsKind::NotifValidate { peer } if peer == p => {
                        validated = true;
                        accepted = false;
                    }
                    ObsKind::NotifApi { what, .. } if what.starts_with(&format!("answer {p} true")) => accepted = true,
                    ObsKind::NotifOpened { peer, inbound } if peer == p => {
                        ensure!(!open, "C11/opened-twice-without-closed", "node {n} peer {pi}");
                        open = true;
                        conn_lost_at = None;
                        if *inbound && n < 2 && !c.auto_accept[n] {
                            // policy-driven accepts are not in the log as API calls: accept if the policy at some point was accepting
                            let policy_accepts = true;
                            ensure!(validated && (accepted || policy_accepts), "C11/inbound-stream-opened-without-validation", "node {n} peer {pi}");
                        }
                        validated = false;
                    }
                    ObsKind::NotifClosed { peer } if peer == p => {
                        ensure!(open, "C11/closed-without-opened", "node {n} peer {pi}");
                        open = false;
                        conn_lost_at = None;
                    }
                    ObsKind::NotifOpenFailure { peer, error } if peer == p => {
                        ensure!(!open, "C11/open-failure-while-stream-is-open", "node {n} peer {pi}: {error}");
                    }
                    ObsKind::NotifReceived { peer, .. } if peer == p => {
                        ensure!(open, "C11/notification-received-outside-open-stream", "node {n} peer {pi}");
                    }
                    ObsKind::ConnClosed { peer } if peer == p => {
                        if open {
                            conn_lost_at = Some(o.t);
                        }
                    }
                    _ => {}
                }
                if let Some(t) = conn_lost_at {
                    if o.t.duration_since(t) > Duration::from_secs(2) && open {
                        fail!("C11/stream-not-closed-after-connection-loss", "node {n} peer {pi}: connection closed and the stream is still open 2 s later");
                    }
                }
            }
            if let Some(t) = conn_lost_at {
                if open && history.last().map(|o| o.t.duration_since(t) > Duration::from_secs(2)).unwrap_or(false) {
                    fail!("C11/stream-not-closed-after-connection-loss", "node {n} peer {pi}");
                }
            }
        }
    }
    let mut ok = CaseOk::trivial();
    ok.excluded = steered;
    Ok(ok
        .nt(simultaneous || disconnect_during_validation || reject_then_reopen || open_then_cut > 0)
        .nt(froze_during_negotiation)
        .class_if(froze_during_negotiation, "peer-silent-during-negotiation")
        .nt(late_validation)
        .class_if(late_validation, "own-validation-answered-after-the-remote-gave-up")
        .nt(instant_reopen)
        .class_if(instant_reopen, "reopen-requested-the-moment-the-stream-closed")
        .nt(stale_close)
        .class_if(stale_close, "close-command-for-a-stream-already-closed-by-the-remote")
        .class_if(simultaneous, "simultaneous-opens")
        .class_if(disconnect_during_validation, "disconnect-during-validation")
        .class_if(reject_then_reopen, "reject-then-reopen")
        .class_if(clean_checked > 0, "clean-open-judged")
        .class_if(open_then_cut > 0, "clean-open-then-connection-cut")
        .class_if(bare_opens > 0, "open-to-peer-without-the-protocol")
        .class_if(cut_answered_failure > 0, "cut-open-answered-by-open-failure"))
}

fn short(k: &ObsKind) -> String {
    format!("{k:?}").chars().take(80).collect()
}

pub fn run(ctx: &mut Ctx) {
    ctx.rule = "two real nodes (auto-accept on/off, validation policy accept / reject / never answer / delayed accept) plus a fresh third node, notification protocol + one probe \
        user protocol each; script of 2..11 ops on both endpoints: open, close, policy change, explicit (possibly stale) validation answer, sync/async send, force-close of the \
        connection from either side, reconnect, sleeps of 0..120 ms, and 'clean opens' issued only after the pair was provably quiet for 300 ms. Oracle: per (node, peer) automaton \
        (opened/closed alternate, notifications only in between, no open-failure while open, inbound opened only after a validation unless auto-accept), clean opens answered \
        exactly once within 4 s, closed within 2 s of a connection loss, no panic on any node thread, and a fresh node is still served by both nodes afterwards. Non-trivial = \
        opens from both sides within 8 ms, or a disconnect while a validation is pending, or a reject followed by a re-open, or a clean open whose connection is cut 0..4 ms later; distinct by case hash."
        .into();
    ctx.assumptions = vec![
        "schedules are sampled; the 10 s negotiation timeout classes (remote never answers) are only part of the grammar / no-panic / liveness clauses".into(),
        "'no negotiation in progress' is internal state: the answered-exactly-once clause is judged only for opens the harness can prove clean from both endpoints' histories".into(),
    ];
    let t = ctx.tier;
    let avoid = ctx.avoid(SIG_REJECT) && ctx.is_generate();
    ctx.campaign("scripts", CampaignCfg::new(t.pick(480, 10_000)).shards(16).shrink_iters(6), strategy, move |c: &Case| run_case_with(c, avoid));
    ctx.campaign("clean-opens", CampaignCfg::new(t.pick(240, 5_000)).shards(16).shrink_iters(6), clean_strategy, move |c: &Case| run_case_with(c, avoid));
    ctx.campaign("rogue-remote", CampaignCfg::new(t.pick(160, 1_500)).shards(16).shrink_iters(6), super::c11_rogue::strategy, super::c11_rogue::run_case);
    ctx.campaign("silent-peer", CampaignCfg::new(t.pick(96, 2_000)).shards(16).shrink_iters(4), silent_strategy, move |c: &Case| run_case_with(c, avoid));
    ctx.campaign("late-validation", CampaignCfg::new(t.pick(16, 320)).shards(16).shrink_iters(1), late_validation_strategy, move |c: &Case| run_case_with(c, avoid));
    ctx.campaign("stale-close", CampaignCfg::new(t.pick(160, 3_000)).shards(16).shrink_iters(6), stale_close_strategy, move |c: &Case| run_case_with(c, avoid));
    ctx.campaign("stale-validation", CampaignCfg::new(t.pick(160, 3_000)).shards(16).shrink_iters(6), stale_strategy, move |c: &Case| run_case_with(c, avoid));
}
