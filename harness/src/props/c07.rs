//! C07 — a terminated connection is reported closed to everyone exactly once.
//!
//! (a) real nodes over loopback TCP with probe user protocols that record every TransportEvent:
//!     termination causes x moments x reconnect cycles, incl. the shutdown of one local protocol;
//! (b) per-connection accounting of `report_connection_established` / `report_connection_closed`
//!     over raw protocol channels (closed / full channels), with the manager notified last.

use crate::engine::{CampaignCfg, CaseFail, CaseOk, CaseResult, Ctx};
use crate::f4::{full_address, rr_request, wait_until, Cmd, Log, Node, NodeSetup, Obs, ObsKind, ProbeCmd, RrSetup};
use crate::{ensure, fail};
use litep2p::verif::scripted::{ProtoEvent, RawConnectionFixture};
use litep2p::PeerId;
use proptest::prelude::*;
use serde::{Deserialize, Serialize};
use std::collections::BTreeMap;
use std::sync::Arc;
use std::time::{Duration, Instant};

#[derive(Debug, Clone, Serialize, Deserialize)]
pub enum Op {
    /// node 0 dials node 1 (no-op while connected)
    Connect,
    /// a probe opens a substream to the other node and holds it
    ProbeOpen { node: u8, probe: u8 },
    DropHeld { node: u8, probe: u8 },
    /// node 0 sends a request to node 1 (exercises the request-response protocol of node 1)
    Request,
    Sleep { ms: u16 },
    // termination causes
    KillRemote,
    ForceClose { node: u8, probe: u8 },
    /// wait for the keep-alive timeout to expire (nothing held)
    IdleExpiry,
    /// node 1 drops its request-response handle (that protocol shuts down)
    DropRrHandle,
    /// probe `probe` of node 1 returns from `run`
    ProbeExit { probe: u8 },
    /// a fresh third node dials node 1
    FreshConnect,
}

#[derive(Debug, Clone, Serialize, Deserialize)]
pub struct Case {
    pub ops: Vec<Op>,
    pub seed: u64,
}

fn strategy() -> impl Strategy<Value = Case> {
    let op = prop_oneof![
        6 => Just(Op::Connect),
        4 => (0u8..2, 0u8..2).prop_map(|(node, probe)| Op::ProbeOpen { node, probe }),
        2 => (0u8..2, 0u8..2).prop_map(|(node, probe)| Op::DropHeld { node, probe }),
        3 => Just(Op::Request),
        3 => prop_oneof![Just(5u16), Just(30), Just(120)].prop_map(|ms| Op::Sleep { ms }),
        1 => Just(Op::KillRemote),
        3 => (0u8..2, 0u8..2).prop_map(|(node, probe)| Op::ForceClose { node, probe }),
        2 => Just(Op::IdleExpiry),
        2 => Just(Op::DropRrHandle),
        2 => (0u8..2).prop_map(|probe| Op::ProbeExit { probe }),
        2 => Just(Op::FreshConnect),
    ];
    (prop::collection::vec(op, 2..10), any::<u64>()).prop_map(|(ops, seed)| Case { ops, seed })
}

pub const SIG_B: &str = "C07/new-connection-not-established-after-a-local-protocol-shut-down";
pub const SIG_H: &str = "C07/connection-ended-without-closed-report-after-a-local-protocol-shut-down";

const KEEP_ALIVE: Duration = Duration::from_millis(400);

fn connected(log: &[Obs], node: usize, peer: &PeerId) -> bool {
    let e = log.iter().filter(|o| o.node == node && matches!(&o.kind, ObsKind::ConnEstablished { peer: p, .. } if p == peer)).count();
    let c = log.iter().filter(|o| o.node == node && matches!(&o.kind, ObsKind::ConnClosed { peer: p } if p == peer)).count();
    e > c
}

fn run_case_with(c: &Case, avoid_shutdown: bool) -> CaseResult {
    let log: Log = Arc::new(parking_lot::Mutex::new(Vec::new()));
    let setup = |seed: u64| NodeSetup {
        seed,
        keep_alive: Some(KEEP_ALIVE),
        rr: Some(RrSetup { timeout: Duration::from_millis(400), max_size: 1024, max_concurrent_inbound: None }),
        probes: 2,
        connection_open_timeout: Some(Duration::from_millis(1000)),
        substream_open_timeout: Some(Duration::from_millis(1000)),
        ..Default::default()
    };
    let mut nodes: Vec<Node> = Vec::new();
    for i in 0..3usize {
        nodes.push(Node::spawn(i, setup(c.seed % 500 + 30_000 + i as u64), log.clone()).map_err(|e| CaseFail::new("C07/harness-node-start-failed", e))?);
    }
    let peers: Vec<PeerId> = nodes.iter().map(|n| n.peer).collect();
    let addr1 = full_address(&nodes[1]);
    let mut remote_alive = true;
    let mut protocol_shut_down = false; // on node 1
    let mut exited_probes: Vec<usize> = Vec::new();
    let mut rr_dropped = false;
    let mut steered = false;
    let mut cycles = 0usize;
    let mut terminated_with_pending_open = false;
    let mut fresh_connected_after_shutdown = false;
    let mut last_open_call: Option<Instant> = None;
    let mut req_n = 0u64;

    for op in &c.ops {
        match op {
            Op::Connect => {
                if !remote_alive {
                    continue;
                }
                let already = connected(&log.lock(), 0, &peers[1]);
                if already {
                    continue;
                }
                if protocol_shut_down && avoid_shutdown {
                    steered = true;
                    continue;
                }
                nodes[0].send(Cmd::DialAddress(addr1.clone()));
                let p1 = peers[1];
                let p0 = peers[0];
                let ok = wait_until(&log, Duration::from_millis(3000), |l| connected(l, 0, &p1) && connected(l, 1, &p0));
                if !ok {
                    if protocol_shut_down {
                        let l = log.lock();
                        fail!(
                            SIG_B,
                            "after node 1 shut one protocol down (rr handle dropped: {rr_dropped}, probes exited: {:?}) node 0 dialed it: node 0 connected {}, node 1 connected {} after 3 s; node 0 saw {:?}",
                            exited_probes,
                            connected(&l, 0, &p1),
                            connected(&l, 1, &p0),
                            l.iter().filter(|o| o.node == 0).rev().take(4).map(|o| short(&o.kind)).collect::<Vec<_>>()
                        );
                    }
                    return Err(CaseFail::new("C07/harness-calibration-failed", "two healthy nodes did not connect within 3 s"));
                }
                cycles += 1;
                std::thread::sleep(Duration::from_millis(15));
            }
            Op::ProbeOpen { node, probe } => {
                let n = *node as usize % 2;
                if n == 1 && (!remote_alive || exited_probes.contains(&(*probe as usize % 2))) {
                    continue;
                }
                let other = peers[1 - n];
                let _ = nodes[n].probes[*probe as usize % 2].send(ProbeCmd::Open(other));
                last_open_call = Some(Instant::now());
                std::thread::sleep(Duration::from_millis(2));
            }
            Op::DropHeld { node, probe } => {
                let n = *node as usize % 2;
                let _ = nodes[n].probes[*probe as usize % 2].send(ProbeCmd::DropHeld);
            }
            Op::Request => {
                if protocol_shut_down && rr_dropped && avoid_shutdown {
                    steered = true;
                    continue;
                }
                req_n += 1;
                nodes[0].send(Cmd::RrSend { peer: peers[1], payload: rr_request(req_n, 0, 0, 8, 20), dial: false });
                std::thread::sleep(Duration::from_millis(10));
            }
            Op::Sleep { ms } => std::thread::sleep(Duration::from_millis(*ms as u64)),
            Op::KillRemote => {
                if remote_alive {
                    if last_open_call.map(|t| t.elapsed() < Duration::from_millis(5)).unwrap_or(false) {
                        terminated_with_pending_open = true;
                    }
                    nodes[1].kill();
                    remote_alive = false;
                }
            }
            Op::ForceClose { node, probe } => {
                let n = *node as usize % 2;
                if n == 1 && (!remote_alive || exited_probes.contains(&(*probe as usize % 2))) {
                    continue;
                }
                if last_open_call.map(|t| t.elapsed() < Duration::from_millis(5)).unwrap_or(false) {
                    terminated_with_pending_open = true;
                }
                let _ = nodes[n].probes[*probe as usize % 2].send(ProbeCmd::ForceClose(peers[1 - n]));
                std::thread::sleep(Duration::from_millis(30));
            }
            Op::IdleExpiry => {
                for n in 0..2 {
                    for p in 0..2 {
                        let _ = nodes[n].probes[p].send(ProbeCmd::DropHeld);
                    }
                }
                std::thread::sleep(KEEP_ALIVE + Duration::from_millis(500));
            }
            Op::DropRrHandle => {
                if remote_alive && !rr_dropped {
                    if avoid_shutdown {
                        steered = true;
                        continue;
                    }
                    nodes[1].send(Cmd::DropRr);
                    rr_dropped = true;
                    protocol_shut_down = true;
                    std::thread::sleep(Duration::from_millis(30));
                }
            }
            Op::ProbeExit { probe } => {
                let k = *probe as usize % 2;
                // at least one protocol of node 1 keeps running (a node without any protocol closes every connection at once)
                if remote_alive && exited_probes.is_empty() {
                    if avoid_shutdown {
                        steered = true;
                        continue;
                    }
                    let _ = nodes[1].probes[k].send(ProbeCmd::Exit);
                    exited_probes.push(k);
                    protocol_shut_down = true;
                    std::thread::sleep(Duration::from_millis(30));
                }
            }
            Op::FreshConnect => {
                if !remote_alive {
                    continue;
                }
                if connected(&log.lock(), 2, &peers[1]) {
                    continue;
                }
                if protocol_shut_down && avoid_shutdown {
                    steered = true;
                    continue;
                }
                nodes[2].send(Cmd::DialAddress(addr1.clone()));
                let p1 = peers[1];
                let p2 = peers[2];
                let ok = wait_until(&log, Duration::from_millis(3000), |l| connected(l, 2, &p1) && connected(l, 1, &p2));
                if !ok {
                    if protocol_shut_down {
                        fail!(SIG_B, "after node 1 shut one protocol down (rr handle dropped: {rr_dropped}, probes exited: {:?}) a fresh node dialed it and no connection was established on both sides within 3 s", exited_probes);
                    }
                    return Err(CaseFail::new("C07/harness-calibration-failed", "fresh node did not connect within 3 s"));
                }
                if protocol_shut_down {
                    fresh_connected_after_shutdown = true;
                    // the remaining protocols are told about the new connection and can use it
                    let remaining: Vec<usize> = (0..2).filter(|k| !exited_probes.contains(k)).collect();
                    for k in &remaining {
                        let told = wait_until(&log, Duration::from_millis(1500), |l| l.iter().any(|o| o.node == 1 && matches!(&o.kind, ObsKind::ProbeEstablished { probe, peer } if probe == k && *peer == p2)));
                        ensure!(told, "C07/remaining-protocol-not-told-about-new-connection", "probe {k} of node 1 never saw the connection from the fresh node");
                        let _ = nodes[1].probes[*k].send(ProbeCmd::Open(p2));
                        let used = wait_until(&log, Duration::from_millis(2500), |l| l.iter().any(|o| o.node == 1 && matches!(&o.kind, ObsKind::ProbeSubstream { probe, peer, inbound: false, .. } if probe == k && *peer == p2)));
                        ensure!(used, "C07/remaining-protocol-cannot-use-new-connection", "probe {k} of node 1 could not open a substream to the fresh node");
                    }
                }
            }
        }
    }
    // settle: everything held is dropped, all connections between 0/2 and 1 end by idle expiry (or already ended).
    // The release is repeated while waiting: a substream whose opened event reaches a probe after the first release (the two
    // ends learn of a substream at slightly different moments) would otherwise be held for ever by the harness itself.
    let p0 = peers[0];
    let p1 = peers[1];
    let p2 = peers[2];
    let settle_start = Instant::now();
    let mut settled = false;
    while settle_start.elapsed() < KEEP_ALIVE + Duration::from_millis(3000) {
        for n in 0..3 {
            if n == 1 && !remote_alive {
                continue;
            }
            for p in 0..2 {
                let _ = nodes[n].probes[p].send(ProbeCmd::DropHeld);
            }
        }
        if wait_until(&log, Duration::from_millis(150), |l| !connected(l, 0, &p1) && !connected(l, 2, &p1) && (!remote_alive || (!connected(l, 1, &p0) && !connected(l, 1, &p2)))) {
            settled = true;
            break;
        }
    }
    std::thread::sleep(Duration::from_millis(120));
    let history: Vec<Obs> = log.lock().clone();

    // ---- oracle ----
    if !settled {
        let l = &history;
        let sig = if protocol_shut_down { SIG_H } else { "C07/connection-never-reported-closed" };
        fail!(
            sig,
            "3.4 s after everything was released: node0->1 connected {}, node2->1 connected {}, node1->0 connected {}, node1->2 connected {} (remote alive {remote_alive}, protocol shut down {protocol_shut_down}); node 1 saw {:?}",
            connected(l, 0, &p1),
            connected(l, 2, &p1),
            connected(l, 1, &p0),
            connected(l, 1, &p2),
            l.iter().filter(|o| o.node == 1).rev().take(5).map(|o| short(&o.kind)).collect::<Vec<_>>()
        );
    }
    // application: closed never before established, never more closed than established
    for n in 0..3usize {
        let mut bal: BTreeMap<Vec<u8>, i64> = BTreeMap::new();
        for o in history.iter().filter(|o| o.node == n) {
            match &o.kind {
                ObsKind::ConnEstablished { peer, .. } => *bal.entry(peer.to_bytes()).or_default() += 1,
                ObsKind::ConnClosed { peer } => {
                    let b = bal.entry(peer.to_bytes()).or_default();
                    *b -= 1;
                    ensure!(*b >= 0, "C07/application-closed-without-established", "node {n} peer {peer}");
                }
                _ => {}
            }
        }
    }
    // every still-running protocol: established/closed alternate, and a protocol that saw established sees closed
    for n in 0..3usize {
        if n == 1 && !remote_alive {
            continue;
        }
        for k in 0..2usize {
            let exited_at = history.iter().position(|o| o.node == n && matches!(&o.kind, ObsKind::ProbeExited { probe } if *probe == k));
            let mut state: BTreeMap<Vec<u8>, bool> = BTreeMap::new();
            for (i, o) in history.iter().enumerate().filter(|(_, o)| o.node == n) {
                if exited_at.map(|e| i > e).unwrap_or(false) {
                    break;
                }
                match &o.kind {
                    ObsKind::ProbeEstablished { probe, peer } if *probe == k => {
                        let s = state.entry(peer.to_bytes()).or_insert(false);
                        ensure!(!*s, "C07/protocol-established-twice-without-closed", "node {n} probe {k} peer {peer}");
                        *s = true;
                    }
                    ObsKind::ProbeClosed { probe, peer } if *probe == k => {
                        let s = state.entry(peer.to_bytes()).or_insert(false);
                        ensure!(*s, "C07/protocol-closed-without-established", "node {n} probe {k} peer {peer}");
                        *s = false;
                    }
                    ObsKind::ProbeSubstream { probe, peer, .. } if *probe == k => {
                        ensure!(state.get(&peer.to_bytes()).cloned().unwrap_or(false), "C07/substream-event-for-disconnected-peer", "node {n} probe {k} peer {peer}");
                    }
                    _ => {}
                }
            }
            if exited_at.is_none() {
                for (peer, s) in &state {
                    ensure!(
                        !*s,
                        if protocol_shut_down { SIG_H } else { "C07/protocol-never-told-connection-closed" },
                        "node {n} probe {k} still considers {} connected after every connection ended",
                        PeerId::from_bytes(peer).map(|p| p.to_string()).unwrap_or_default()
                    );
                }
            }
        }
    }
    // afterwards the peer counts as disconnected and can be dialed again
    if remote_alive && !(protocol_shut_down && avoid_shutdown) {
        nodes[0].send(Cmd::DialAddress(addr1.clone()));
        let redial = wait_until(&log, Duration::from_millis(3000), |l| connected(l, 0, &p1));
        if !redial {
            let l = log.lock();
            let api: Vec<String> = l.iter().filter(|o| o.node == 0).filter_map(|o| if let ObsKind::ApiResult { what, ok, detail } = &o.kind { Some(format!("{what} {ok} {detail}")) } else { None }).rev().take(1).collect();
            fail!(
                if protocol_shut_down { SIG_B } else { "C07/peer-not-dialable-after-connection-closed" },
                "node 0 cannot re-dial node 1 after the connection closed: {:?}",
                api
            );
        }
    }
    let mut ok = CaseOk::trivial();
    ok.excluded = steered;
    Ok(ok
        .nt(terminated_with_pending_open || protocol_shut_down || cycles >= 2)
        .class_if(terminated_with_pending_open, "terminated-with-open-pending")
        .class_if(protocol_shut_down, "local-protocol-shut-down")
        .class_if(fresh_connected_after_shutdown, "new-connection-after-protocol-shutdown")
        .class_if(cycles >= 2, "ge-2-connect-cycles")
        .class_if(!remote_alive, "remote-killed"))
}

fn short(k: &ObsKind) -> String {
    format!("{k:?}").chars().take(90).collect()
}

// ---------------------------------------------------------------------------------------------
// (b) per-connection accounting over raw protocol channels

#[derive(Debug, Clone, Serialize, Deserialize)]
pub enum RawOp {
    Establish { peer: u8 },
    Close { pick: u16 },
    /// protocol k closes its channel (it shut down)
    Shutdown { protocol: u8 },
    /// protocol k drains its channel
    Drain { protocol: u8 },
}

#[derive(Debug, Clone, Serialize, Deserialize)]
pub struct RawCase {
    pub protocols: u8,
    pub channel: u8,
    pub ops: Vec<RawOp>,
}

fn raw_strategy() -> impl Strategy<Value = RawCase> {
    let op = prop_oneof![
        5 => (0u8..3).prop_map(|peer| RawOp::Establish { peer }),
        4 => any::<u16>().prop_map(|pick| RawOp::Close { pick }),
        1 => (0u8..4).prop_map(|protocol| RawOp::Shutdown { protocol }),
        3 => (0u8..4).prop_map(|protocol| RawOp::Drain { protocol }),
    ];
    (2u8..5, prop_oneof![Just(4u8), Just(16), Just(64)], prop::collection::vec(op, 1..30)).prop_map(|(protocols, channel, ops)| RawCase { protocols, channel, ops })
}

fn run_raw(c: &RawCase) -> CaseResult {
    crate::f2::block_on_paused(async {
        let n = c.protocols as usize;
        let mut fx = RawConnectionFixture::new(n, c.channel as usize);
        let peers: Vec<PeerId> = (0..3).map(|i| crate::common::peer_from_seed(0xC0700 + i)).collect();
        let mut next_id = 0usize;
        let mut live: Vec<usize> = Vec::new();
        let mut shut: Vec<bool> = vec![false; n];
        // per protocol: connection id -> (established seen, closed seen)
        let mut seen: Vec<BTreeMap<usize, (u32, u32)>> = vec![BTreeMap::new(); n];
        let mut told: Vec<Vec<usize>> = vec![Vec::new(); n]; // connections each protocol was told about (sent successfully)
        let mut manager_closed: BTreeMap<usize, u32> = BTreeMap::new();
        let mut closed_with_shutdown = false;
        let mut blocked = false;
        let mut closed_while_full = false;
        for op in &c.ops {
            match op {
                RawOp::Establish { peer } => {
                    let id = next_id;
                    next_id += 1;
                    match fx.establish(id, peers[*peer as usize % 3]) {
                        None => blocked = true, // a channel is full: the real accept future would wait
                        Some(Ok(())) => {
                            live.push(id);
                            for k in 0..n {
                                if !shut[k] {
                                    told[k].push(id);
                                }
                            }
                        }
                        Some(Err(_)) => {
                            // a closed channel makes the accept fail as a whole (the manager rolls back); protocols that were
                            // already sent the event will never get a closed event for it — recorded under the finding below
                            ensure!(shut.iter().any(|s| *s), "C07/establish-report-failed-with-all-channels-open", "conn {id}");
                        }
                    }
                }
                RawOp::Close { pick } => {
                    if live.is_empty() {
                        continue;
                    }
                    let id = live.remove(crate::engine::pick_idx(*pick, live.len()));
                    match fx.close(id) {
                        None => blocked = true,
                        Some(_) => {
                            if shut.iter().any(|s| *s) {
                                closed_with_shutdown = true;
                            }
                        }
                    }
                    for (_, cid) in fx.manager_closed() {
                        *manager_closed.entry(cid).or_default() += 1;
                    }
                    if blocked {
                        // the report is stuck behind a full protocol channel: protocols come before the manager, so the
                        // manager cannot have been told yet
                        closed_while_full = true;
                        ensure!(
                            !manager_closed.contains_key(&id),
                            "C07/manager-told-before-a-protocol-whose-channel-is-full",
                            "conn {id}: the report of its closure is waiting for room in a protocol's event channel, but the manager has already been told"
                        );
                    }
                    if !blocked {
                        ensure!(manager_closed.get(&id) == Some(&1), "C07/manager-not-told-exactly-once", "conn {id}: {:?}", manager_closed.get(&id));
                    }
                }
                RawOp::Shutdown { protocol } => {
                    let k = *protocol as usize % n;
                    fx.protocols[k].close();
                    shut[k] = true;
                }
                RawOp::Drain { protocol } => {
                    let k = *protocol as usize % n;
                    while let Some(ev) = fx.protocols[k].try_next() {
                        match ev {
                            ProtoEvent::Established { id, .. } => seen[k].entry(id).or_default().0 += 1,
                            ProtoEvent::Closed { id, .. } => {
                                let e = seen[k].entry(id).or_default();
                                e.1 += 1;
                                ensure!(e.0 >= 1, "C07/closed-before-established-on-protocol-channel", "protocol {k} conn {id}");
                            }
                            _ => {}
                        }
                    }
                }
            }
            if blocked {
                break;
            }
        }
        if !blocked {
            // drain everything and settle the per-connection ledger
            for k in 0..n {
                while let Some(ev) = fx.protocols[k].try_next() {
                    match ev {
                        ProtoEvent::Established { id, .. } => seen[k].entry(id).or_default().0 += 1,
                        ProtoEvent::Closed { id, .. } => seen[k].entry(id).or_default().1 += 1,
                        _ => {}
                    }
                }
                if shut[k] {
                    continue;
                }
                for (id, (e, cl)) in &seen[k] {
                    ensure!(*e <= 1 && *cl <= 1, "C07/duplicate-report-on-protocol-channel", "protocol {k} conn {id}: {e} established, {cl} closed");
                    let still_live = live.contains(id);
                    if *e == 1 && !still_live && told[k].contains(id) {
                        ensure!(*cl == 1, "C07/open-protocol-channel-missed-connection-closed", "protocol {k} was told conn {id} was established and never that it closed ({} of {n} protocols shut down)", shut.iter().filter(|s| **s).count());
                    }
                }
            }
        }
        Ok(CaseOk::trivial().nt(closed_with_shutdown).class_if(closed_with_shutdown, "closed-while-a-protocol-channel-is-closed").class_if(blocked, "stopped-at-full-channel").class_if(closed_while_full, "closed-while-a-protocol-channel-is-full").nt(closed_while_full))
    })
}

// ---------------------------------------------------------------------------------------------
// (c) the application's connection events against the connections that exist (real manager, scripted transport)

fn run_manager_history(h: &crate::f3::History, avoid: bool) -> CaseResult {
    use litep2p::verif::scripted::MgrEvent;
    use std::cell::RefCell;
    // per peer: does the application consider it connected (established seen, closed not yet)
    let app: RefCell<BTreeMap<Vec<u8>, bool>> = RefCell::new(BTreeMap::new());
    let overlapped = RefCell::new(false);
    let closed_events = RefCell::new(0usize);
    let w = crate::f3::run_history(
        h,
        avoid,
        |w, rec| {
            let mut app = app.borrow_mut();
            for e in &rec.events {
                match e {
                    MgrEvent::Established { peer, id, .. } => {
                        ensure!(w.truth.contains_key(id), "C07/application-established-for-a-connection-that-does-not-exist", "step {} ({}): connection {id}", rec.step, rec.op);
                        app.insert(peer.to_bytes(), true);
                    }
                    MgrEvent::Closed { peer, .. } => {
                        let was = app.insert(peer.to_bytes(), false).unwrap_or(false);
                        ensure!(was, "C07/application-closed-without-established", "step {} ({}): peer {peer}", rec.step, rec.op);
                        *closed_events.borrow_mut() += 1;
                        let left = w.truth.values().filter(|(p, _)| p == peer).count();
                        ensure!(left == 0, "C07/application-told-closed-while-a-connection-is-open", "step {} ({}): {left} connection(s) to {peer} are still open", rec.step, rec.op);
                    }
                    _ => {}
                }
            }
            // after every step: the application considers a peer connected exactly when a connection to it exists
            for (i, p) in w.peers.iter().enumerate() {
                let n = w.truth.values().filter(|(q, _)| q == p).count();
                if n >= 2 {
                    *overlapped.borrow_mut() = true;
                }
                let considered = app.get(&p.to_bytes()).cloned().unwrap_or(false);
                ensure!(
                    considered == (n > 0),
                    if considered { "C07/application-never-told-that-the-last-connection-closed" } else { "C07/connection-exists-that-the-application-was-not-told-about" },
                    "step {} ({}): the application considers peer {i} {}, {n} connection(s) to it are open",
                    rec.step,
                    rec.op,
                    if considered { "connected" } else { "disconnected" }
                );
            }
            Ok(())
        },
        |_| Ok(()),
    )?;
    let mut ok = CaseOk::trivial();
    ok.excluded = w.steered > 0;
    let overlapped = overlapped.into_inner();
    let closed = closed_events.into_inner();
    Ok(ok.nt(overlapped && closed > 0).class_if(overlapped, "two-connections-to-one-peer").class_if(closed > 0, "application-told-closed"))
}

pub fn run(ctx: &mut Ctx) {
    ctx.rule = "(nodes) three real nodes over loopback TCP, each with a request-response protocol and two probe user protocols recording every TransportEvent; script of 2..9 ops: \
        connect, probe opens/holds/drops a substream, request, sleeps, termination causes (remote node killed, force_close from either side by either probe, idle expiry with a 400 ms \
        keep-alive, the remote dropping its request-response handle, a remote probe returning from run), a fresh third node connecting; then everything is released and all \
        connections must end and be reported. (channels) histories of establish / close / protocol shutdown / drain over 2..4 raw protocol channels of capacity 2/4/64 through the \
        real ProtocolSet. Non-trivial = termination with a substream open pending, or a local protocol shut down, or >= 2 connect cycles (nodes); a connection closed while a \
        protocol channel is closed (channels); distinct by case hash."
        .into();
    ctx.assumptions = vec![
        "real sockets and threads: schedules are sampled; bounded liveness (3 s after release with a 400 ms keep-alive and 1 s open timeouts)".into(),
        "the application-level event is per connection for established and per last connection for closed, so only 'closed never exceeds established' is demanded there".into(),
        "the order 'protocols before the manager' is visible in report_connection_closed's single code path; it is asserted at channel level: when the manager has its notice, every open protocol channel already holds its own".into(),
    ];
    let t = ctx.tier;
    let avoid = (ctx.avoid(SIG_B) || ctx.avoid(SIG_H)) && ctx.is_generate();
    let avoid_credit = ctx.avoid(super::c07_rogue::SIG_YAMUX_CREDIT) && ctx.is_generate();
    ctx.campaign("rogue-yamux", CampaignCfg::new(t.pick(2_000, 40_000)).shards(16).shrink_iters(8), super::c07_rogue::strategy, move |c: &super::c07_rogue::Case| super::c07_rogue::run_case_with(c, avoid_credit));
    ctx.campaign("nodes", CampaignCfg::new(t.pick(320, 6_000)).shards(16).shrink_iters(6), strategy, move |c: &Case| run_case_with(c, avoid));
    ctx.campaign("channels", CampaignCfg::new(t.pick(30_000, 600_000)).shards(16), raw_strategy, run_raw);
    let avoid_g = ctx.avoid(crate::props::c05::SIG_G) && ctx.is_generate();
    // the Transport trait lets accept() fail (the TCP transport never does): the manager rolls the connection back and the
    // application, which was never told of it, must not be told that it closed
    ctx.campaign(
        "manager-accept-faults",
        CampaignCfg::new(t.pick(20_000, 1_000_000)).shards(16),
        || {
            use proptest::strategy::Strategy as _;
            crate::f3::history_strategy(40, false, 8, false).prop_map(|mut h| {
                h.accept_faults = true;
                h
            })
        },
        move |h: &crate::f3::History| run_manager_history(h, avoid_g),
    );
    ctx.campaign("manager-histories", CampaignCfg::new(t.pick(40_000, 2_000_000)).shards(16), || crate::f3::history_strategy(40, false, 8, false), move |h: &crate::f3::History| run_manager_history(h, avoid_g));
    let depth = t.pick(4u32, 5);
    ctx.enumerate_indexed("manager-small-scope-exhaustive", crate::f3::small_space_size(depth), 16, crate::f3::small_history, move |h: &crate::f3::History| run_manager_history(h, avoid_g));
}
