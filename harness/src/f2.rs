//! F2 — in-memory async I/O with an owned schedule.
//!
//! `pipe()` yields two connected ends implementing `futures::io::{AsyncRead, AsyncWrite}`. Every
//! `poll_read` / `poll_write` consults a generated script (how many bytes this time, whether to
//! return `Pending` first). A direction can carry a frame-level man-in-the-middle that edits
//! length-prefixed frames. Runs on a current-thread tokio runtime with the clock paused, so a
//! stall turns into the code's own timeout deterministically.

use futures::io::{AsyncRead, AsyncWrite};
use parking_lot::Mutex;
use serde::{Deserialize, Serialize};
use std::collections::VecDeque;
use std::future::Future;
use std::io;
use std::pin::Pin;
use std::sync::Arc;
use std::task::{Context, Poll, Waker};

/// Cyclic script of (chunk size, return Pending first). Size 0 means "everything available".
#[derive(Debug, Clone, Default, Serialize, Deserialize)]
pub struct ChunkScript {
    pub steps: Vec<(u32, bool)>,
}

impl ChunkScript {
    pub fn passthrough() -> Self {
        Self { steps: vec![] }
    }
    pub fn is_passthrough(&self) -> bool {
        self.steps.iter().all(|(n, p)| *n == 0 && !*p)
    }
}

pub fn chunk_script_strategy() -> impl proptest::strategy::Strategy<Value = ChunkScript> {
    use proptest::prelude::*;
    let step = (
        prop_oneof![3 => Just(0u32), 3 => 1u32..4, 2 => 4u32..64, 2 => 64u32..2048, 1 => 2048u32..70_000],
        prop::bool::weighted(0.2),
    );
    prop_oneof![
        2 => Just(ChunkScript::passthrough()),
        1 => Just(ChunkScript { steps: vec![(1, false)] }),
        1 => Just(ChunkScript { steps: vec![(1, true)] }),
        6 => prop::collection::vec(step, 1..12).prop_map(|steps| ChunkScript { steps }),
    ]
}

struct Cursor {
    script: ChunkScript,
    pos: usize,
    pended: bool,
}

impl Cursor {
    fn new(script: ChunkScript) -> Self {
        Self {
            script,
            pos: 0,
            pended: false,
        }
    }
    /// Returns None when this poll must return Pending (self-waking), else the chunk size.
    fn next(&mut self) -> Option<usize> {
        if self.script.steps.is_empty() {
            return Some(usize::MAX);
        }
        let (n, pend) = self.script.steps[self.pos % self.script.steps.len()];
        if pend && !self.pended {
            self.pended = true;
            return None;
        }
        self.pended = false;
        self.pos += 1;
        Some(if n == 0 { usize::MAX } else { n as usize })
    }
}

/// Frame-level attack on one direction (u16 big-endian length-prefixed frames).
#[derive(Debug, Clone, Serialize, Deserialize, PartialEq)]
pub enum FrameAttack {
    /// flip bit 0 of byte `at % frame_total_len` of frame k (length prefix included in the offset space)
    Flip { frame: u16, at: u32, bit: u8 },
    /// deliver only the first `keep % frame_total_len` bytes of frame k, then close the stream
    Truncate { frame: u16, keep: u32 },
    Drop { frame: u16 },
    Duplicate { frame: u16 },
    /// swap frames k and k+1
    Swap { frame: u16 },
    /// after frame k insert a well-framed garbage frame of `len` bytes
    Garbage { frame: u16, len: u16, seed: u64 },
    /// replace frame k by the bytes given (e.g. a frame recorded from another session)
    Substitute { frame: u16, bytes: Vec<u8> },
}

impl FrameAttack {
    pub fn frame(&self) -> u16 {
        match self {
            FrameAttack::Flip { frame, .. }
            | FrameAttack::Truncate { frame, .. }
            | FrameAttack::Drop { frame }
            | FrameAttack::Duplicate { frame }
            | FrameAttack::Swap { frame }
            | FrameAttack::Garbage { frame, .. }
            | FrameAttack::Substitute { frame, .. } => *frame,
        }
    }
}

#[derive(Default)]
pub struct Tap {
    /// complete frames seen on this direction (before edits), length prefix included
    pub frames: Vec<Vec<u8>>,
    /// whether the attack was applied (its target frame existed)
    pub attack_applied: bool,
    /// number of frames that entered the direction after the attacked frame
    pub frames_after_attack: usize,
    pub total_bytes_written: usize,
    pub total_bytes_delivered: usize,
}

struct Dir {
    /// bytes ready for the reader
    buf: VecDeque<u8>,
    /// writer closed (or MITM closed) this direction
    closed: bool,
    read_waker: Option<Waker>,
    /// frame parser state for MITM / tap
    raw: Vec<u8>,
    framed: bool,
    attack: Option<FrameAttack>,
    held: Option<Vec<u8>>,
    frame_index: usize,
    tap: Tap,
    /// after a Truncate attack nothing more is forwarded
    cut: bool,
}

impl Dir {
    fn new(framed: bool, attack: Option<FrameAttack>) -> Self {
        Self {
            buf: VecDeque::new(),
            closed: false,
            read_waker: None,
            raw: Vec::new(),
            framed: framed || attack.is_some(),
            attack,
            held: None,
            frame_index: 0,
            tap: Tap::default(),
            cut: false,
        }
    }

    fn push_out(&mut self, bytes: &[u8]) {
        if !self.cut {
            self.buf.extend(bytes.iter());
        }
    }

    fn ingest(&mut self, bytes: &[u8]) {
        self.tap.total_bytes_written += bytes.len();
        if !self.framed {
            self.push_out(bytes);
            return;
        }
        self.raw.extend_from_slice(bytes);
        loop {
            if self.raw.len() < 2 {
                break;
            }
            let len = ((self.raw[0] as usize) << 8) | self.raw[1] as usize;
            if self.raw.len() < 2 + len {
                break;
            }
            let frame: Vec<u8> = self.raw.drain(..2 + len).collect();
            self.tap.frames.push(frame.clone());
            let k = self.frame_index;
            self.frame_index += 1;
            let attack = self.attack.clone();
            match attack {
                Some(a) if a.frame() as usize == k => {
                    self.tap.attack_applied = true;
                    match a {
                        FrameAttack::Flip { at, bit, .. } => {
                            let mut f = frame;
                            let i = at as usize % f.len();
                            f[i] ^= 1 << (bit % 8);
                            self.push_out(&f);
                        }
                        FrameAttack::Truncate { keep, .. } => {
                            let n = keep as usize % frame.len();
                            self.push_out(&frame[..n]);
                            self.cut = true;
                            self.closed = true;
                        }
                        FrameAttack::Drop { .. } => {}
                        FrameAttack::Duplicate { .. } => {
                            self.push_out(&frame);
                            self.push_out(&frame);
                        }
                        FrameAttack::Swap { .. } => {
                            self.held = Some(frame);
                        }
                        FrameAttack::Garbage { len, seed, .. } => {
                            self.push_out(&frame);
                            let mut g = vec![(len >> 8) as u8, (len & 0xff) as u8];
                            g.extend(crate::engine::fill_bytes(seed, len as usize));
                            self.push_out(&g);
                        }
                        FrameAttack::Substitute { bytes, .. } => {
                            self.push_out(&bytes);
                        }
                    }
                }
                Some(a) if (a.frame() as usize) < k => {
                    self.tap.frames_after_attack += 1;
                    self.push_out(&frame);
                    if let Some(h) = self.held.take() {
                        self.push_out(&h);
                    }
                }
                _ => self.push_out(&frame),
            }
        }
    }

    fn on_writer_close(&mut self) {
        // a held (swapped) frame with no successor is released at close
        if let Some(h) = self.held.take() {
            self.push_out(&h);
        }
        // bytes of an incomplete frame are forwarded as they are
        if self.framed && !self.raw.is_empty() {
            let r = std::mem::take(&mut self.raw);
            self.push_out(&r);
        }
        self.closed = true;
    }
}

pub struct PipeEnd {
    rx: Arc<Mutex<Dir>>,
    tx: Arc<Mutex<Dir>>,
    read_cursor: Cursor,
    write_cursor: Cursor,
    pub pending_returns: usize,
}

pub struct PipeCfg {
    pub a_to_b: ChunkScript,
    pub b_to_a: ChunkScript,
    /// write-side acceptance scripts
    pub a_write: ChunkScript,
    pub b_write: ChunkScript,
    pub attack_a_to_b: Option<FrameAttack>,
    pub attack_b_to_a: Option<FrameAttack>,
    /// parse frames (for the tap) even without an attack — note: delays partial frames, so only for handshake-level use
    pub tap_frames: bool,
}

impl Default for PipeCfg {
    fn default() -> Self {
        Self {
            a_to_b: ChunkScript::passthrough(),
            b_to_a: ChunkScript::passthrough(),
            a_write: ChunkScript::passthrough(),
            b_write: ChunkScript::passthrough(),
            attack_a_to_b: None,
            attack_b_to_a: None,
            tap_frames: false,
        }
    }
}

pub struct PipeHandles {
    pub a_to_b: Arc<Mutex<DirHandle>>,
}

/// Read-only access to a direction's tap after the run.
pub struct DirHandle(Arc<Mutex<Dir>>);

impl DirHandle {
    pub fn tap<R>(&self, f: impl FnOnce(&Tap) -> R) -> R {
        f(&self.0.lock().tap)
    }
    /// Close the direction from outside (simulates the carrier going away).
    pub fn force_close(&self) {
        let mut d = self.0.lock();
        d.closed = true;
        if let Some(w) = d.read_waker.take() {
            w.wake();
        }
    }
    pub fn undelivered(&self) -> usize {
        self.0.lock().buf.len()
    }
}

pub fn pipe(cfg: PipeCfg) -> (PipeEnd, PipeEnd, DirHandle, DirHandle) {
    let ab = Arc::new(Mutex::new(Dir::new(cfg.tap_frames, cfg.attack_a_to_b)));
    let ba = Arc::new(Mutex::new(Dir::new(cfg.tap_frames, cfg.attack_b_to_a)));
    let a = PipeEnd {
        rx: ba.clone(),
        tx: ab.clone(),
        read_cursor: Cursor::new(cfg.b_to_a),
        write_cursor: Cursor::new(cfg.a_write),
        pending_returns: 0,
    };
    let b = PipeEnd {
        rx: ab.clone(),
        tx: ba.clone(),
        read_cursor: Cursor::new(cfg.a_to_b),
        write_cursor: Cursor::new(cfg.b_write),
        pending_returns: 0,
    };
    (a, b, DirHandle(ab), DirHandle(ba))
}

impl AsyncRead for PipeEnd {
    fn poll_read(mut self: Pin<&mut Self>, cx: &mut Context<'_>, buf: &mut [u8]) -> Poll<io::Result<usize>> {
        if buf.is_empty() {
            return Poll::Ready(Ok(0));
        }
        let this = &mut *self;
        let mut d = this.rx.lock();
        if d.buf.is_empty() {
            if d.closed {
                return Poll::Ready(Ok(0));
            }
            d.read_waker = Some(cx.waker().clone());
            return Poll::Pending;
        }
        let Some(chunk) = this.read_cursor.next() else {
            this.pending_returns += 1;
            cx.waker().wake_by_ref();
            return Poll::Pending;
        };
        let n = chunk.min(buf.len()).min(d.buf.len());
        for (i, b) in d.buf.drain(..n).enumerate() {
            buf[i] = b;
        }
        d.tap.total_bytes_delivered += n;
        Poll::Ready(Ok(n))
    }
}

impl AsyncWrite for PipeEnd {
    fn poll_write(mut self: Pin<&mut Self>, cx: &mut Context<'_>, buf: &[u8]) -> Poll<io::Result<usize>> {
        if buf.is_empty() {
            return Poll::Ready(Ok(0));
        }
        let this = &mut *self;
        let Some(chunk) = this.write_cursor.next() else {
            this.pending_returns += 1;
            cx.waker().wake_by_ref();
            return Poll::Pending;
        };
        let mut d = this.tx.lock();
        if d.closed && !d.cut {
            return Poll::Ready(Err(io::ErrorKind::BrokenPipe.into()));
        }
        let n = chunk.min(buf.len());
        d.ingest(&buf[..n]);
        if let Some(w) = d.read_waker.take() {
            w.wake();
        }
        Poll::Ready(Ok(n))
    }

    fn poll_flush(self: Pin<&mut Self>, _cx: &mut Context<'_>) -> Poll<io::Result<()>> {
        Poll::Ready(Ok(()))
    }

    fn poll_close(self: Pin<&mut Self>, _cx: &mut Context<'_>) -> Poll<io::Result<()>> {
        let mut d = self.tx.lock();
        d.on_writer_close();
        if let Some(w) = d.read_waker.take() {
            w.wake();
        }
        Poll::Ready(Ok(()))
    }
}

impl Drop for PipeEnd {
    fn drop(&mut self) {
        // dropping an end closes its outgoing direction and makes the peer's writes fail
        {
            let mut d = self.tx.lock();
            if !d.closed {
                d.on_writer_close();
            }
            if let Some(w) = d.read_waker.take() {
                w.wake();
            }
        }
        let mut r = self.rx.lock();
        r.closed = true;
    }
}

/// Run a future on a fresh current-thread runtime with the clock paused.
pub fn block_on_paused<F: Future>(f: F) -> F::Output {
    let rt = tokio::runtime::Builder::new_current_thread()
        .enable_time()
        .start_paused(true)
        .build()
        .expect("runtime");
    rt.block_on(f)
}
