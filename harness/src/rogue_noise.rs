//! A rogue Noise XX peer built directly on `snow` + `x25519-dalek`: completes a cryptographically
//! valid session and sends whatever identity payload the harness chooses.

use futures::io::{AsyncRead, AsyncReadExt, AsyncWrite, AsyncWriteExt};
use rand::{CryptoRng, RngCore, SeedableRng};
use snow::params::{CipherChoice, DHChoice, HashChoice};
use snow::resolvers::{CryptoResolver, RingResolver};
use snow::types::{Cipher, Dh, Hash, Random};
use x25519_dalek::{x25519, X25519_BASEPOINT_BYTES};

pub const NOISE_PARAMS: &str = "Noise_XX_25519_ChaChaPoly_SHA256";
pub const DOMAIN: &str = "noise-libp2p-static-key:";

struct SeededRng(rand::rngs::StdRng);
impl RngCore for SeededRng {
    fn next_u32(&mut self) -> u32 {
        self.0.next_u32()
    }
    fn next_u64(&mut self) -> u64 {
        self.0.next_u64()
    }
    fn fill_bytes(&mut self, dest: &mut [u8]) {
        self.0.fill_bytes(dest)
    }
    fn try_fill_bytes(&mut self, dest: &mut [u8]) -> Result<(), rand::Error> {
        self.0.try_fill_bytes(dest)
    }
}
impl CryptoRng for SeededRng {}
impl Random for SeededRng {}

#[derive(Default)]
struct Dh25519 {
    secret: [u8; 32],
    public: [u8; 32],
}

impl Dh for Dh25519 {
    fn name(&self) -> &'static str {
        "25519"
    }
    fn pub_len(&self) -> usize {
        32
    }
    fn priv_len(&self) -> usize {
        32
    }
    fn set(&mut self, privkey: &[u8]) {
        self.secret.copy_from_slice(&privkey[..32]);
        self.public = x25519(self.secret, X25519_BASEPOINT_BYTES);
    }
    fn generate(&mut self, rng: &mut dyn Random) {
        let mut s = [0u8; 32];
        rng.fill_bytes(&mut s);
        self.set(&s);
    }
    fn pubkey(&self) -> &[u8] {
        &self.public
    }
    fn privkey(&self) -> &[u8] {
        &self.secret
    }
    fn dh(&self, pubkey: &[u8], out: &mut [u8]) -> Result<(), snow::Error> {
        let mut p = [0u8; 32];
        p.copy_from_slice(&pubkey[..32]);
        let r = x25519(self.secret, p);
        out[..32].copy_from_slice(&r);
        Ok(())
    }
}

pub struct RogueResolver(pub u64);

impl CryptoResolver for RogueResolver {
    fn resolve_rng(&self) -> Option<Box<dyn Random>> {
        Some(Box::new(SeededRng(rand::rngs::StdRng::seed_from_u64(self.0))))
    }
    fn resolve_dh(&self, choice: &DHChoice) -> Option<Box<dyn Dh>> {
        match choice {
            DHChoice::Curve25519 => Some(Box::new(Dh25519::default())),
            _ => None,
        }
    }
    fn resolve_hash(&self, choice: &HashChoice) -> Option<Box<dyn Hash>> {
        RingResolver.resolve_hash(choice)
    }
    fn resolve_cipher(&self, choice: &CipherChoice) -> Option<Box<dyn Cipher>> {
        RingResolver.resolve_cipher(choice)
    }
}

pub fn static_keypair(seed: u64) -> ([u8; 32], [u8; 32]) {
    let mut s = [0u8; 32];
    crate::engine::SplitMix(seed ^ 0x5747_a71c).fill(&mut s);
    (s, x25519(s, X25519_BASEPOINT_BYTES))
}

async fn read_frame<S: AsyncRead + Unpin>(io: &mut S) -> std::io::Result<Vec<u8>> {
    let mut l = [0u8; 2];
    io.read_exact(&mut l).await?;
    let len = u16::from_be_bytes(l) as usize;
    let mut buf = vec![0u8; len];
    io.read_exact(&mut buf).await?;
    Ok(buf)
}

async fn write_frame<S: AsyncWrite + Unpin>(io: &mut S, msg: &[u8]) -> std::io::Result<()> {
    let mut out = (msg.len() as u16).to_be_bytes().to_vec();
    out.extend_from_slice(msg);
    io.write_all(&out).await?;
    io.flush().await
}

pub struct RogueResult {
    /// identity payload the victim sent (decrypted), if the session got that far
    pub victim_payload: Option<Vec<u8>>,
    /// the victim's static DH key of this session
    pub victim_static: Option<Vec<u8>>,
    pub completed: bool,
    pub error: Option<String>,
}

/// Play one side of a Noise XX handshake. `payload_fn(rogue_static_pub, victim_payload_if_known)` builds the
/// identity payload bytes to send.
pub async fn rogue_handshake<S: AsyncRead + AsyncWrite + Unpin>(
    io: &mut S,
    initiator: bool,
    static_secret: [u8; 32],
    rng_seed: u64,
    payload: Vec<u8>,
) -> RogueResult {
    let mut res = RogueResult {
        victim_payload: None,
        victim_static: None,
        completed: false,
        error: None,
    };
    let builder = snow::Builder::with_resolver(NOISE_PARAMS.parse().expect("params"), Box::new(RogueResolver(rng_seed))).local_private_key(&static_secret);
    let hs = if initiator { builder.build_initiator() } else { builder.build_responder() };
    let mut hs = match hs {
        Ok(h) => h,
        Err(e) => {
            res.error = Some(format!("snow build: {e:?}"));
            return res;
        }
    };
    let mut buf = vec![0u8; 70_000];
    let mut pbuf = vec![0u8; 70_000];
    macro_rules! tri {
        ($e:expr, $what:expr) => {
            match $e {
                Ok(v) => v,
                Err(e) => {
                    res.error = Some(format!("{}: {:?}", $what, e));
                    return res;
                }
            }
        };
    }
    if initiator {
        let n = tri!(hs.write_message(&[], &mut buf), "write msg1");
        tri!(write_frame(io, &buf[..n]).await, "send msg1");
        let m2 = tri!(read_frame(io).await, "recv msg2");
        let pn = tri!(hs.read_message(&m2, &mut pbuf), "read msg2");
        res.victim_payload = Some(pbuf[..pn].to_vec());
        res.victim_static = hs.get_remote_static().map(|s| s.to_vec());
        let n = tri!(hs.write_message(&payload, &mut buf), "write msg3");
        tri!(write_frame(io, &buf[..n]).await, "send msg3");
    } else {
        let m1 = tri!(read_frame(io).await, "recv msg1");
        tri!(hs.read_message(&m1, &mut pbuf), "read msg1");
        let n = tri!(hs.write_message(&payload, &mut buf), "write msg2");
        tri!(write_frame(io, &buf[..n]).await, "send msg2");
        let m3 = tri!(read_frame(io).await, "recv msg3");
        let pn = tri!(hs.read_message(&m3, &mut pbuf), "read msg3");
        res.victim_payload = Some(pbuf[..pn].to_vec());
        res.victim_static = hs.get_remote_static().map(|s| s.to_vec());
    }
    res.completed = true;
    res
}
