//! A rogue peer that gets all the way into an established connection with a real node over TCP: multistream-select for
//! `/noise`, a valid Noise XX session with a valid identity proof (built on `snow`, as `rogue_noise`), multistream-select
//! for `/yamux/1.0.0` inside the encrypted channel — and from then on writes whatever yamux frames (or bytes) the harness
//! chooses. Blocking std sockets with timeouts; no litep2p code on this side.

use crate::common::{peer_from_seed, secret_bytes_from_seed, uvarint};
use crate::rogue_noise::{static_keypair, RogueResolver, DOMAIN, NOISE_PARAMS};
use ed25519_dalek::{Signer, SigningKey};
use litep2p::PeerId;
use std::io::{Read, Write};
use std::net::{SocketAddr, TcpStream};
use std::time::Duration;

pub struct RogueSession {
    sock: TcpStream,
    noise: snow::TransportState,
    pub peer: PeerId,
    /// decrypted bytes received and not yet consumed
    pub inbox: Vec<u8>,
}

fn line(s: &str) -> Vec<u8> {
    let mut v = uvarint(s.len() as u64 + 1);
    v.extend_from_slice(s.as_bytes());
    v.push(b'\n');
    v
}

fn read_exact(sock: &mut TcpStream, n: usize) -> Result<Vec<u8>, String> {
    let mut b = vec![0u8; n];
    sock.read_exact(&mut b).map_err(|e| format!("read {n}: {e}"))?;
    Ok(b)
}

fn read_noise_frame(sock: &mut TcpStream) -> Result<Vec<u8>, String> {
    let l = read_exact(sock, 2)?;
    read_exact(sock, u16::from_be_bytes([l[0], l[1]]) as usize)
}

fn write_noise_frame(sock: &mut TcpStream, msg: &[u8]) -> Result<(), String> {
    let mut out = (msg.len() as u16).to_be_bytes().to_vec();
    out.extend_from_slice(msg);
    sock.write_all(&out).map_err(|e| format!("write: {e}"))
}

fn pb_bytes(field: u8, data: &[u8]) -> Vec<u8> {
    let mut out = vec![(field << 3) | 2];
    out.extend(uvarint(data.len() as u64));
    out.extend_from_slice(data);
    out
}

impl RogueSession {
    /// Dial `addr` and go through the whole opening of a connection as an honest dialer would.
    pub fn connect(addr: SocketAddr, seed: u64) -> Result<RogueSession, String> {
        Self::connect_forged(addr, seed, 0)
    }

    /// As `connect`, with a forged identity proof: 0 valid; 1 the identity key of another keypair (`seed + 1`) with a
    /// signature by the rogue's own key; 2 the other keypair's key with its valid signature over another session's static
    /// key; 3 no signature; 4 signature without the domain prefix; 5 own key, signature over another static key; 6 own key,
    /// signature of 63 bytes. For every forgery the node must refuse the connection.
    pub fn connect_forged(addr: SocketAddr, seed: u64, forge: u8) -> Result<RogueSession, String> {
        let mut sock = TcpStream::connect_timeout(&addr, Duration::from_millis(1500)).map_err(|e| format!("connect: {e}"))?;
        sock.set_nodelay(true).ok();
        sock.set_read_timeout(Some(Duration::from_millis(3000))).ok();
        sock.set_write_timeout(Some(Duration::from_millis(3000))).ok();
        // multistream-select: /noise
        let mut hello = line("/multistream/1.0.0");
        hello.extend(line("/noise"));
        sock.write_all(&hello).map_err(|e| format!("write: {e}"))?;
        let echo = read_exact(&mut sock, hello.len())?;
        if echo != hello {
            return Err(format!("listener did not confirm /noise: {:?}", String::from_utf8_lossy(&echo)));
        }
        // Noise XX, initiator, valid identity
        let id = SigningKey::from_bytes(&secret_bytes_from_seed(seed));
        let (static_secret, static_pub) = static_keypair(seed);
        let other = SigningKey::from_bytes(&secret_bytes_from_seed(seed + 1));
        let (_, other_static_pub) = static_keypair(seed + 1);
        let claimed = if matches!(forge, 1 | 2) { &other } else { &id };
        let mut key_blob = vec![0x08, 0x01];
        key_blob.extend(pb_bytes(2, &claimed.verifying_key().to_bytes()));
        let over = |prefix: &str, st: &[u8; 32]| {
            let mut m = prefix.as_bytes().to_vec();
            m.extend_from_slice(st);
            m
        };
        let sig: Option<Vec<u8>> = match forge {
            0 | 1 => Some(id.sign(&over(DOMAIN, &static_pub)).to_bytes().to_vec()),
            2 => Some(other.sign(&over(DOMAIN, &other_static_pub)).to_bytes().to_vec()),
            3 => None,
            4 => Some(id.sign(&over("", &static_pub)).to_bytes().to_vec()),
            5 => Some(id.sign(&over(DOMAIN, &other_static_pub)).to_bytes().to_vec()),
            _ => Some(id.sign(&over(DOMAIN, &static_pub)).to_bytes()[..63].to_vec()),
        };
        let mut payload = pb_bytes(1, &key_blob);
        if let Some(sig) = sig {
            payload.extend(pb_bytes(2, &sig));
        }
        let mut hs = snow::Builder::with_resolver(NOISE_PARAMS.parse().expect("params"), Box::new(RogueResolver(seed)))
            .local_private_key(&static_secret)
            .build_initiator()
            .map_err(|e| format!("snow: {e:?}"))?;
        let mut buf = vec![0u8; 70_000];
        let mut pbuf = vec![0u8; 70_000];
        let n = hs.write_message(&[], &mut buf).map_err(|e| format!("msg1: {e:?}"))?;
        write_noise_frame(&mut sock, &buf[..n])?;
        let m2 = read_noise_frame(&mut sock)?;
        hs.read_message(&m2, &mut pbuf).map_err(|e| format!("msg2: {e:?}"))?;
        let n = hs.write_message(&payload, &mut buf).map_err(|e| format!("msg3: {e:?}"))?;
        write_noise_frame(&mut sock, &buf[..n])?;
        let noise = hs.into_transport_mode().map_err(|e| format!("transport: {e:?}"))?;
        let mut s = RogueSession { sock, noise, peer: peer_from_seed(seed), inbox: Vec::new() };
        // multistream-select inside the channel: /yamux/1.0.0
        let mut hello = line("/multistream/1.0.0");
        hello.extend(line("/yamux/1.0.0"));
        s.send(&hello)?;
        let deadline = std::time::Instant::now() + Duration::from_millis(3000);
        while s.inbox.len() < hello.len() {
            if std::time::Instant::now() > deadline {
                return Err("listener did not confirm /yamux/1.0.0 in time".into());
            }
            s.recv_some()?;
        }
        if s.inbox[..hello.len()] != hello[..] {
            return Err(format!("listener did not confirm /yamux/1.0.0: {:?}", String::from_utf8_lossy(&s.inbox)));
        }
        s.inbox.drain(..hello.len());
        s.sock.set_read_timeout(Some(Duration::from_millis(20))).ok();
        Ok(s)
    }

    /// Encrypt and send (split into Noise messages of at most 60 000 bytes).
    pub fn send(&mut self, plain: &[u8]) -> Result<(), String> {
        let mut out = vec![0u8; 70_000];
        for chunk in plain.chunks(60_000) {
            let n = self.noise.write_message(chunk, &mut out).map_err(|e| format!("encrypt: {e:?}"))?;
            write_noise_frame(&mut self.sock, &out[..n])?;
        }
        Ok(())
    }

    /// Bytes straight onto the socket (not encrypted, not framed).
    pub fn send_raw(&mut self, bytes: &[u8]) -> Result<(), String> {
        self.sock.write_all(bytes).map_err(|e| format!("write: {e}"))
    }

    /// Read one Noise message if one arrives within the socket's read timeout; its plaintext is appended to `inbox`.
    pub fn recv_some(&mut self) -> Result<bool, String> {
        let mut l = [0u8; 2];
        match self.sock.read(&mut l[..1]) {
            Ok(0) => return Err("closed".into()),
            Ok(_) => {}
            Err(e) if matches!(e.kind(), std::io::ErrorKind::WouldBlock | std::io::ErrorKind::TimedOut) => return Ok(false),
            Err(e) => return Err(format!("read: {e}")),
        }
        self.sock.set_read_timeout(Some(Duration::from_millis(1500))).ok();
        let r = (|| {
            self.sock.read_exact(&mut l[1..]).map_err(|e| format!("read: {e}"))?;
            let body = read_exact(&mut self.sock, u16::from_be_bytes(l) as usize)?;
            let mut plain = vec![0u8; 70_000];
            let n = self.noise.read_message(&body, &mut plain).map_err(|e| format!("decrypt: {e:?}"))?;
            self.inbox.extend_from_slice(&plain[..n]);
            Ok(true)
        })();
        self.sock.set_read_timeout(Some(Duration::from_millis(20))).ok();
        r
    }

    /// Drain whatever the node sends for `ms` (so that its writes never block on us).
    pub fn drain(&mut self, ms: u64) -> bool {
        let until = std::time::Instant::now() + Duration::from_millis(ms);
        while std::time::Instant::now() < until {
            if self.recv_some().is_err() {
                return false;
            }
        }
        true
    }

    pub fn shutdown(self) {
        let _ = self.sock.shutdown(std::net::Shutdown::Both);
    }
}

/// A yamux frame header followed by `body`.
pub fn yamux_frame(version: u8, ty: u8, flags: u16, stream: u32, length: u32, body: &[u8]) -> Vec<u8> {
    let mut v = vec![version, ty];
    v.extend_from_slice(&flags.to_be_bytes());
    v.extend_from_slice(&stream.to_be_bytes());
    v.extend_from_slice(&length.to_be_bytes());
    v.extend_from_slice(body);
    v
}

pub const SYN: u16 = 1;
pub const ACK: u16 = 2;
pub const FIN: u16 = 4;
pub const RST: u16 = 8;

/// The multistream-select opening of a substream for `protocol`, as stream payload.
pub fn substream_opening(protocol: &str) -> Vec<u8> {
    let mut v = line("/multistream/1.0.0");
    v.extend(line(protocol));
    v
}
