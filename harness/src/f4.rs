//! F4 — real `Litep2p` nodes over loopback TCP, one tokio runtime (and thread) per node, so that
//! "kill a node" really closes its sockets. Every observation (Litep2p events, protocol handle
//! events, API results) goes into one history with a monotonic timestamp.

use crate::common::keypair_from_seed;
use futures::StreamExt;
use litep2p::config::ConfigBuilder;
use litep2p::protocol::libp2p::kademlia::{
    Config as KadConfig, ConfigBuilder as KadConfigBuilder, KademliaEvent, KademliaHandle, Quorum, Record, RecordKey,
};
use litep2p::protocol::notification::{
    Config as NotifConfig, ConfigBuilder as NotifConfigBuilder, NotificationError, NotificationEvent, NotificationHandle, ValidationResult,
};
use litep2p::protocol::request_response::{
    Config as RrConfig, ConfigBuilder as RrConfigBuilder, DialOptions, RequestResponseEvent, RequestResponseHandle,
};
use litep2p::transport::tcp::config::Config as TcpConfig;
use litep2p::transport::ConnectionLimitsConfig;
use litep2p::types::RequestId;
use litep2p::{Litep2p, Litep2pEvent, PeerId, ProtocolName};
use multiaddr::{Multiaddr, Protocol};
use parking_lot::Mutex;
use std::sync::Arc;
use std::time::{Duration, Instant};
use tokio::sync::{mpsc, oneshot};

#[derive(Debug, Clone)]
pub enum ObsKind {
    // Litep2p events
    ConnEstablished { peer: PeerId, listener: bool },
    ConnClosed { peer: PeerId },
    DialFailure { address: Multiaddr },
    ListDialFailures { n: usize },
    // request-response
    RrRequestReceived { peer: PeerId, id: usize, request: Vec<u8> },
    RrResponse { peer: PeerId, id: usize, response: Vec<u8> },
    RrFailed { peer: PeerId, id: usize, error: String },
    RrSent { id: usize, peer: PeerId },
    RrSendError { error: String },
    RrAnswered { id: usize, len: usize },
    RrRejected { id: usize },
    // notifications
    NotifValidate { peer: PeerId },
    NotifOpened { peer: PeerId, inbound: bool },
    NotifClosed { peer: PeerId },
    NotifOpenFailure { peer: PeerId, error: String },
    NotifReceived { peer: PeerId, data: Vec<u8> },
    NotifApi { what: String, ok: bool },
    /// a burst of sends through one mode: tags accepted (in order), tags refused with the reason, longest single call
    NotifBurst { peer: PeerId, sync: bool, accepted: Vec<u64>, refused: Vec<(u64, String)>, max_call_us: u64 },
    // kademlia
    KadEvent { query: Option<usize>, kind: String, detail: String },
    KadStarted { query: usize, what: String },
    /// blocks and presences the bitswap user was handed in one event: (cid bytes, data), (cid bytes, have)
    BitswapResponse { peer: PeerId, blocks: Vec<(Vec<u8>, Vec<u8>)>, presences: Vec<(Vec<u8>, bool)> },
    // generic
    ApiResult { what: String, ok: bool, detail: String },
    NodeEnded,
    // probe user protocols
    ProbeEstablished { probe: usize, peer: PeerId },
    ProbeClosed { probe: usize, peer: PeerId },
    ProbeDialFailure { probe: usize, peer: PeerId },
    ProbeSubstream { probe: usize, peer: PeerId, inbound: bool, id: Option<usize> },
    ProbeOpenFailure { probe: usize, id: usize },
    ProbeOpenCalled { probe: usize, peer: PeerId, id: Option<usize>, err: Option<String> },
    ProbeExited { probe: usize },
}

#[derive(Debug, Clone)]
pub struct Obs {
    pub t: Instant,
    pub node: usize,
    pub kind: ObsKind,
}

pub type Log = Arc<Mutex<Vec<Obs>>>;

pub enum Cmd {
    Dial(PeerId),
    DialAddress(Multiaddr),
    AddKnown(PeerId, Vec<Multiaddr>),
    RrSend { peer: PeerId, payload: Vec<u8>, dial: bool },
    RrCancel { id: usize },
    /// how the responder treats incoming requests from now on (see `RrPolicy`)
    /// the bitswap user sends this response to `peer`: (cid bytes, Some(block data) | None = presence, have)
    BitswapRespond { peer: PeerId, entries: Vec<(Vec<u8>, Option<Vec<u8>>, bool)> },
    NotifOpen(PeerId),
    NotifClose(PeerId),
    NotifSendSync { peer: PeerId, data: Vec<u8> },
    NotifSendAsync { peer: PeerId, data: Vec<u8> },
    /// send `count` notifications with tags first_tag.. of `size` bytes each (see `notif_payload`) through one mode
    NotifBurst { peer: PeerId, sync: bool, first_tag: u64, count: u32, size: u32 },
    NotifSetPolicy(u8),
    /// answer a pending validation for `peer` now
    NotifAnswer { peer: PeerId, accept: bool },
    /// from now on the user reacts to a stream-closed event by asking for the stream again at once
    NotifReopenOnClosed(bool),
    /// from now on the user stops reading its handle for this long right after it was told that a stream closed (and after
    /// its immediate re-request, if that is switched on); zero switches it off
    NotifStallAfterClosed(Duration),
    /// answer a validation for `peer` after this long (whatever is pending then)
    NotifAnswerLater { peer: PeerId, accept: bool, after: Duration },
    /// stop polling the notification handle for this long (reader stall)
    NotifStall(Duration),
    /// slow consumer: pause this long after every received notification (zero switches it off)
    NotifThrottle(Duration),
    Kad(KadCmd),
    DropRr,
    DropNotif,
    Ping(oneshot::Sender<()>),
    /// block the node's only worker thread for this long: sockets stay open, nothing is read, written or answered
    Freeze(Duration),
}

pub enum KadCmd {
    AddKnownPeer(PeerId, Vec<Multiaddr>),
    FindNode(PeerId),
    PutRecord { key: Vec<u8>, value: Vec<u8>, quorum: u8 },
    PutRecordToPeers { key: Vec<u8>, value: Vec<u8>, peers: Vec<PeerId>, quorum: u8 },
    GetRecord { key: Vec<u8>, quorum: u8 },
    StartProviding { key: Vec<u8>, quorum: u8 },
    GetProviders { key: Vec<u8> },
    StoreRecord { key: Vec<u8>, value: Vec<u8> },
}

#[derive(Clone)]
pub struct RrSetup {
    pub timeout: Duration,
    pub max_size: usize,
    pub max_concurrent_inbound: Option<usize>,
}

#[derive(Clone)]
pub struct NotifSetup {
    pub auto_accept: bool,
    pub sync_channel: usize,
    pub async_channel: usize,
    pub max_size: usize,
    pub handshake: Vec<u8>,
    /// initial validation policy: 0 accept, 1 reject, 2 never answer, 3 delay 100 ms then accept, 4 accept and then stop reading the handle for 300 ms
    pub policy: u8,
}

#[derive(Clone)]
pub struct KadSetup {
    pub replication_factor: usize,
}

#[derive(Clone, Default)]
pub struct NodeSetup {
    pub seed: u64,
    pub keep_alive: Option<Duration>,
    pub max_in: Option<usize>,
    pub max_out: Option<usize>,
    pub rr: Option<RrSetup>,
    pub notif: Option<NotifSetup>,
    pub kad: Option<KadSetup>,
    pub bitswap: bool,
    pub ping: bool,
    /// interval of the ping protocol (default 5 s)
    pub ping_interval: Option<Duration>,
    pub identify: bool,
    pub connection_open_timeout: Option<Duration>,
    pub substream_open_timeout: Option<Duration>,
    /// number of probe user protocols ("/vh/probe/<k>")
    pub probes: usize,
    /// protocol names overriding "/vh/probe/<k>" (a probe named like the Kademlia protocol makes a peer that accepts
    /// Kademlia substreams and never answers)
    pub probe_names: Vec<String>,
    /// unique id of the case: node threads are named "case<id>-node<k>" so that panics can be attributed
    pub case_id: u64,
}

static NEXT_CASE: std::sync::atomic::AtomicU64 = std::sync::atomic::AtomicU64::new(1);

/// A fresh case id (for thread names / panic attribution).
pub fn new_case_id() -> u64 {
    NEXT_CASE.fetch_add(1, std::sync::atomic::Ordering::Relaxed)
}

/// Panics recorded on the node threads of this case.
pub fn case_panics(case_id: u64) -> Vec<crate::engine::PanicRec> {
    crate::engine::take_panics_with_prefix(&format!("case{case_id}-"))
}

pub struct Node {
    pub index: usize,
    pub peer: PeerId,
    pub address: Multiaddr,
    pub cmd: mpsc::UnboundedSender<Cmd>,
    pub probes: Vec<mpsc::UnboundedSender<ProbeCmd>>,
    rt: Option<tokio::runtime::Runtime>,
}

/// A user protocol that records every TransportEvent it sees and executes commands (all public API).
pub struct Probe {
    pub name: String,
    pub node: usize,
    pub probe: usize,
    pub log: Log,
    pub cmd: mpsc::UnboundedReceiver<ProbeCmd>,
}

pub enum ProbeCmd {
    Open(PeerId),
    DropHeld,
    ForceClose(PeerId),
    /// close the write half of every held substream (the substreams stay alive and are still readable)
    ShutdownHeld,
    /// return from `run`: the protocol shuts down
    Exit,
    /// open a substream and, once it is open, write these chunks raw (no framing added), `gap_ms` apart, keep it for
    /// `hold_ms` reading whatever comes, then drop it
    RawOpen { peer: PeerId, chunks: Vec<Vec<u8>>, gap_ms: u16, hold_ms: u16 },
    /// what to do with inbound substreams from now on: `None` = hold them (default); `Some` = optionally read first, write
    /// the chunks raw, hold for `hold_ms`, drop
    SetReply(Option<RawReply>),
}

#[derive(Clone, Debug)]
pub struct RawReply {
    pub read_first: bool,
    pub chunks: Vec<Vec<u8>>,
    pub hold_ms: u16,
}

async fn raw_session(mut substream: litep2p::substream::Substream, read_first: bool, chunks: Vec<Vec<u8>>, gap_ms: u16, hold_ms: u16) {
    use tokio::io::{AsyncReadExt, AsyncWriteExt};
    let mut buf = vec![0u8; 8192];
    if read_first {
        let _ = tokio::time::timeout(Duration::from_millis(150), substream.read(&mut buf)).await;
    }
    for c in chunks {
        if tokio::time::timeout(Duration::from_millis(500), substream.write_all(&c)).await.map(|r| r.is_err()).unwrap_or(true) {
            return;
        }
        let _ = tokio::time::timeout(Duration::from_millis(200), substream.flush()).await;
        if gap_ms > 0 {
            tokio::time::sleep(Duration::from_millis(gap_ms as u64)).await;
        }
    }
    let until = tokio::time::Instant::now() + Duration::from_millis(hold_ms as u64);
    loop {
        match tokio::time::timeout_at(until, substream.read(&mut buf)).await {
            Ok(Ok(n)) if n > 0 => continue,
            _ => break,
        }
    }
}

#[async_trait::async_trait]
impl litep2p::protocol::UserProtocol for Probe {
    fn protocol(&self) -> ProtocolName {
        ProtocolName::from(self.name.clone())
    }

    fn codec(&self) -> litep2p::codec::ProtocolCodec {
        litep2p::codec::ProtocolCodec::UnsignedVarint(Some(1024))
    }

    async fn run(mut self: Box<Self>, mut service: litep2p::protocol::TransportService) -> litep2p::Result<()> {
        use litep2p::protocol::TransportEvent;
        let mut held: Vec<litep2p::substream::Substream> = Vec::new();
        let mut raw_plans: std::collections::HashMap<usize, (Vec<Vec<u8>>, u16, u16)> = std::collections::HashMap::new();
        let mut reply: Option<RawReply> = None;
        loop {
            tokio::select! {
                ev = service.next() => {
                    let Some(ev) = ev else { return Ok(()); };
                    let kind = match ev {
                        TransportEvent::ConnectionEstablished { peer, .. } => ObsKind::ProbeEstablished { probe: self.probe, peer },
                        TransportEvent::ConnectionClosed { peer } => ObsKind::ProbeClosed { probe: self.probe, peer },
                        TransportEvent::DialFailure { peer, .. } => ObsKind::ProbeDialFailure { probe: self.probe, peer },
                        TransportEvent::SubstreamOpened { peer, substream, direction, .. } => {
                            let plan = match direction {
                                litep2p::protocol::Direction::Outbound(id) => raw_plans.remove(&id.verif_raw()).map(|(c, g, h)| (false, c, g, h)),
                                litep2p::protocol::Direction::Inbound => reply.clone().map(|r| (r.read_first, r.chunks, 0, r.hold_ms)),
                            };
                            match plan {
                                Some((read_first, chunks, gap, hold)) => { tokio::spawn(raw_session(substream, read_first, chunks, gap, hold)); }
                                None => held.push(substream),
                            }
                            ObsKind::ProbeSubstream { probe: self.probe, peer, inbound: matches!(direction, litep2p::protocol::Direction::Inbound), id: match direction { litep2p::protocol::Direction::Outbound(id) => Some(id.verif_raw()), _ => None } }
                        }
                        TransportEvent::SubstreamOpenFailure { substream, .. } => ObsKind::ProbeOpenFailure { probe: self.probe, id: substream.verif_raw() },
                    };
                    push(&self.log, self.node, kind);
                }
                cmd = self.cmd.recv() => {
                    match cmd {
                        None | Some(ProbeCmd::Exit) => {
                            push(&self.log, self.node, ObsKind::ProbeExited { probe: self.probe });
                            return Ok(());
                        }
                        Some(ProbeCmd::Open(peer)) => {
                            let r = service.open_substream(peer);
                            push(&self.log, self.node, ObsKind::ProbeOpenCalled { probe: self.probe, peer, id: r.as_ref().ok().map(|i| i.verif_raw()), err: r.as_ref().err().map(|e| format!("{e:?}")) });
                        }
                        Some(ProbeCmd::DropHeld) => held.clear(),
                        Some(ProbeCmd::ShutdownHeld) => {
                            for s in held.iter_mut() {
                                let _ = tokio::time::timeout(Duration::from_millis(200), tokio::io::AsyncWriteExt::shutdown(s)).await;
                            }
                        }
                        Some(ProbeCmd::RawOpen { peer, chunks, gap_ms, hold_ms }) => {
                            let r = service.open_substream(peer);
                            if let Ok(id) = &r {
                                raw_plans.insert(id.verif_raw(), (chunks, gap_ms, hold_ms));
                            }
                            push(&self.log, self.node, ObsKind::ProbeOpenCalled { probe: self.probe, peer, id: r.as_ref().ok().map(|i| i.verif_raw()), err: r.as_ref().err().map(|e| format!("{e:?}")) });
                        }
                        Some(ProbeCmd::SetReply(r)) => reply = r,
                        Some(ProbeCmd::ForceClose(peer)) => {
                            let r = service.force_close(peer);
                            push(&self.log, self.node, ObsKind::ApiResult { what: format!("probe{} force_close {peer}", self.probe), ok: r.is_ok(), detail: String::new() });
                        }
                    }
                }
            }
        }
    }
}

pub const RR_PROTOCOL: &str = "/vh/rr/1";
pub const NOTIF_PROTOCOL: &str = "/vh/notif/1";

/// Request layout: [nonce u64][behaviour u8][arg u16][resp_len u32][padding…]
/// behaviours: 0 answer, 1 reject, 2 never answer (stall), 3 answer after `arg` ms
pub fn rr_request(nonce: u64, behaviour: u8, arg: u16, resp_len: u32, total_len: usize) -> Vec<u8> {
    let mut v = Vec::with_capacity(total_len.max(15));
    v.extend(nonce.to_le_bytes());
    v.push(behaviour);
    v.extend(arg.to_le_bytes());
    v.extend(resp_len.to_le_bytes());
    while v.len() < total_len {
        v.push((nonce as u8).wrapping_add(v.len() as u8));
    }
    v
}

pub fn rr_expected_response(request: &[u8]) -> Vec<u8> {
    let nonce = u64::from_le_bytes(request[0..8].try_into().unwrap());
    // requests written by a rogue peer carry arbitrary bytes here: the responder of the harness never builds more than 4 MiB
    let len = (u32::from_le_bytes(request[11..15].try_into().unwrap()) as usize).min(4 << 20);
    let mut r = crate::engine::fill_bytes(nonce ^ 0x5e5e, len);
    for (i, b) in nonce.to_le_bytes().iter().enumerate() {
        if i < r.len() {
            r[i] = *b;
        }
    }
    r
}

impl Node {
    pub fn spawn(index: usize, setup: NodeSetup, log: Log) -> Result<Node, String> {
        let rt = tokio::runtime::Builder::new_multi_thread()
            .worker_threads(1)
            .enable_all()
            .thread_name(format!("case{}-node{index}", setup.case_id))
            .build()
            .map_err(|e| e.to_string())?;
        let (cmd_tx, cmd_rx) = mpsc::unbounded_channel::<Cmd>();
        let (ready_tx, ready_rx) = std::sync::mpsc::channel::<Result<(PeerId, Multiaddr), String>>();
        let log2 = log.clone();
        let mut probe_txs = Vec::new();
        let mut probes = Vec::new();
        for k in 0..setup.probes {
            let (tx, rx) = mpsc::unbounded_channel::<ProbeCmd>();
            probe_txs.push(tx);
            let name = setup.probe_names.get(k).cloned().unwrap_or_else(|| format!("/vh/probe/{k}"));
            probes.push(Probe { name, node: index, probe: k, log: log.clone(), cmd: rx });
        }
        rt.spawn(async move {
            node_main(index, setup, log2, cmd_rx, ready_tx, probes).await;
        });
        let (peer, address) = ready_rx.recv_timeout(Duration::from_secs(10)).map_err(|e| e.to_string())??;
        Ok(Node {
            index,
            peer,
            address,
            cmd: cmd_tx,
            probes: probe_txs,
            rt: Some(rt),
        })
    }

    pub fn send(&self, cmd: Cmd) {
        let _ = self.cmd.send(cmd);
    }

    /// Crash the node: its runtime is shut down, sockets close.
    pub fn kill(&mut self) {
        if let Some(rt) = self.rt.take() {
            rt.shutdown_background();
        }
    }

    pub fn is_alive(&self) -> bool {
        self.rt.is_some()
    }
}

impl Drop for Node {
    fn drop(&mut self) {
        self.kill();
    }
}

fn push(log: &Log, node: usize, kind: ObsKind) {
    log.lock().push(Obs { t: Instant::now(), node, kind });
}

async fn opt_next<S: futures::Stream + Unpin>(s: &mut Option<S>) -> Option<S::Item> {
    match s {
        Some(s) => s.next().await,
        None => futures::future::pending().await,
    }
}

fn quorum_of(q: u8) -> Quorum {
    match q {
        0 => Quorum::One,
        255 => Quorum::All,
        n => Quorum::N(std::num::NonZeroUsize::new(n as usize).unwrap()),
    }
}

async fn node_main(
    index: usize,
    setup: NodeSetup,
    log: Log,
    mut cmd_rx: mpsc::UnboundedReceiver<Cmd>,
    ready: std::sync::mpsc::Sender<Result<(PeerId, Multiaddr), String>>,
    probes: Vec<Probe>,
) {
    let keypair = keypair_from_seed(setup.seed);
    let mut tcp = TcpConfig {
        listen_addresses: vec!["/ip4/127.0.0.1/tcp/0".parse().unwrap()],
        reuse_port: false,
        nodelay: true,
        ..Default::default()
    };
    if let Some(t) = setup.connection_open_timeout {
        tcp.connection_open_timeout = t;
    }
    if let Some(t) = setup.substream_open_timeout {
        tcp.substream_open_timeout = t;
    }
    let mut builder = ConfigBuilder::new().with_keypair(keypair).with_tcp(tcp);
    if let Some(k) = setup.keep_alive {
        builder = builder.with_keep_alive_timeout(k);
    }
    if setup.max_in.is_some() || setup.max_out.is_some() {
        builder = builder.with_connection_limits(ConnectionLimitsConfig::default().max_incoming_connections(setup.max_in).max_outgoing_connections(setup.max_out));
    }
    let mut rr: Option<RequestResponseHandle> = None;
    if let Some(s) = &setup.rr {
        let mut b = RrConfigBuilder::new(ProtocolName::from(RR_PROTOCOL)).with_max_size(s.max_size).with_timeout(s.timeout);
        if let Some(m) = s.max_concurrent_inbound {
            b = b.with_max_concurrent_inbound_requests(m);
        }
        let (cfg, handle): (RrConfig, RequestResponseHandle) = b.build();
        builder = builder.with_request_response_protocol(cfg);
        rr = Some(handle);
    }
    let mut notif: Option<NotificationHandle> = None;
    let mut notif_policy = 0u8;
    if let Some(s) = &setup.notif {
        let (cfg, handle): (NotifConfig, NotificationHandle) = NotifConfigBuilder::new(ProtocolName::from(NOTIF_PROTOCOL))
            .with_max_size(s.max_size)
            .with_handshake(s.handshake.clone())
            .with_auto_accept_inbound(s.auto_accept)
            .with_sync_channel_size(s.sync_channel)
            .with_async_channel_size(s.async_channel)
            .build();
        builder = builder.with_notification_protocol(cfg);
        notif = Some(handle);
        notif_policy = s.policy;
    }
    let mut kad: Option<KademliaHandle> = None;
    if let Some(s) = &setup.kad {
        let (cfg, handle): (KadConfig, KademliaHandle) = KadConfigBuilder::new().with_replication_factor(s.replication_factor).build();
        builder = builder.with_libp2p_kademlia(cfg);
        kad = Some(handle);
    }
    for p in probes {
        builder = builder.with_user_protocol(Box::new(p));
    }
    if setup.ping {
        let mut b = litep2p::protocol::libp2p::ping::ConfigBuilder::new();
        if let Some(i) = setup.ping_interval {
            b = b.with_ping_interval(i);
        }
        let (cfg, mut events) = b.build();
        builder = builder.with_libp2p_ping(cfg);
        // the ping protocol awaits its event channel: keep it drained
        tokio::spawn(async move { while events.next().await.is_some() {} });
    }
    let (bs_cmd_tx, mut bs_cmd_rx) = mpsc::unbounded_channel::<(PeerId, Vec<(Vec<u8>, Option<Vec<u8>>, bool)>)>();
    if setup.bitswap {
        use litep2p::protocol::libp2p::bitswap::{BitswapEvent, BlockPresenceType, Config as BsConfig, ResponseType};
        let (cfg, mut handle) = BsConfig::new();
        builder = builder.with_libp2p_bitswap(cfg);
        // every request is answered: a block for CIDs hashing b"vh", don't-have for the rest
        let bs_log = log.clone();
        tokio::spawn(async move {
            loop {
                let ev = tokio::select! {
                    ev = handle.next() => match ev { Some(ev) => ev, None => break },
                    cmd = bs_cmd_rx.recv() => {
                        if let Some((peer, entries)) = cmd {
                            let responses = entries
                                .into_iter()
                                .filter_map(|(cid, data, have)| {
                                    let cid = cid::Cid::try_from(&cid[..]).ok()?;
                                    Some(match data {
                                        Some(block) => ResponseType::Block { cid, block },
                                        None => ResponseType::Presence { cid, presence: if have { BlockPresenceType::Have } else { BlockPresenceType::DontHave } },
                                    })
                                })
                                .collect();
                            handle.send_response(peer, responses).await;
                        }
                        continue;
                    }
                };
                if let BitswapEvent::Response { peer, responses } = &ev {
                    let mut blocks = Vec::new();
                    let mut presences = Vec::new();
                    for r in responses {
                        match r {
                            ResponseType::Block { cid, block } => blocks.push((cid.to_bytes(), block.clone())),
                            ResponseType::Presence { cid, presence } => presences.push((cid.to_bytes(), matches!(presence, BlockPresenceType::Have))),
                        }
                    }
                    push(&bs_log, index, ObsKind::BitswapResponse { peer: *peer, blocks, presences });
                }
                if let BitswapEvent::Request { peer, cids } = ev {
                    let have = crate::props::c20_cid(b"vh");
                    let responses = cids
                        .into_iter()
                        .map(|(cid, _)| if cid == have { ResponseType::Block { cid, block: b"vh".to_vec() } } else { ResponseType::Presence { cid, presence: BlockPresenceType::DontHave } })
                        .collect();
                    handle.send_response(peer, responses).await;
                }
            }
        });
    }
    if setup.identify {
        let (cfg, mut events) = litep2p::protocol::libp2p::identify::Config::new("/vh/1".to_string(), Some("vh".to_string()));
        builder = builder.with_libp2p_identify(cfg);
        tokio::spawn(async move { while events.next().await.is_some() {} });
    }
    let mut litep2p = match Litep2p::new(builder.build()) {
        Ok(l) => l,
        Err(e) => {
            let _ = ready.send(Err(format!("{e:?}")));
            return;
        }
    };
    let peer = *litep2p.local_peer_id();
    let address = match litep2p.listen_addresses().next() {
        Some(a) => a.clone(),
        None => {
            let _ = ready.send(Err("no listen address".into()));
            return;
        }
    };
    let _ = ready.send(Ok((peer, address)));

    // requests waiting for a delayed answer: (due, id, response)
    let mut delayed: Vec<(Instant, RequestId, Vec<u8>)> = Vec::new();
    let mut stalled_requests: Vec<RequestId> = Vec::new();
    let mut notif_stall_until: Option<Instant> = None;
    let mut notif_throttle = Duration::ZERO;
    let mut notif_reopen_on_closed = false;
    let mut notif_stall_after_closed = Duration::ZERO;
    let mut delayed_validation: Vec<(Instant, PeerId, bool)> = Vec::new();
    loop {
        let next_due = delayed.iter().map(|d| d.0).chain(delayed_validation.iter().map(|d| d.0)).chain(notif_stall_until.iter().cloned()).min();
        let sleep = async {
            match next_due {
                Some(d) => tokio::time::sleep_until(tokio::time::Instant::from_std(d)).await,
                None => futures::future::pending().await,
            }
        };
        let notif_active = notif_stall_until.map(|u| Instant::now() >= u).unwrap_or(true);
        tokio::select! {
            ev = litep2p.next_event() => {
                let Some(ev) = ev else { push(&log, index, ObsKind::NodeEnded); return; };
                match ev {
                    Litep2pEvent::ConnectionEstablished { peer, endpoint } => push(&log, index, ObsKind::ConnEstablished { peer, listener: endpoint.is_listener() }),
                    Litep2pEvent::ConnectionClosed { peer, .. } => push(&log, index, ObsKind::ConnClosed { peer }),
                    Litep2pEvent::DialFailure { address, .. } => push(&log, index, ObsKind::DialFailure { address }),
                    Litep2pEvent::ListDialFailures { errors } => push(&log, index, ObsKind::ListDialFailures { n: errors.len() }),
                }
            }
            cmd = cmd_rx.recv() => {
                let Some(cmd) = cmd else { return; };
                match cmd {
                    Cmd::Dial(p) => {
                        let r = litep2p.dial(&p).await;
                        push(&log, index, ObsKind::ApiResult { what: format!("dial {p}"), ok: r.is_ok(), detail: format!("{r:?}") });
                    }
                    Cmd::DialAddress(a) => {
                        let r = litep2p.dial_address(a.clone()).await;
                        push(&log, index, ObsKind::ApiResult { what: format!("dial_address {a}"), ok: r.is_ok(), detail: format!("{r:?}") });
                    }
                    Cmd::AddKnown(p, addrs) => {
                        let n = litep2p.add_known_address(p, addrs.into_iter());
                        push(&log, index, ObsKind::ApiResult { what: format!("add_known_address {p}"), ok: true, detail: format!("{n}") });
                    }
                    Cmd::RrSend { peer, payload, dial } => {
                        if let Some(h) = rr.as_mut() {
                            match h.send_request(peer, payload, if dial { DialOptions::Dial } else { DialOptions::Reject }).await {
                                Ok(id) => push(&log, index, ObsKind::RrSent { id: rid(id), peer }),
                                Err(e) => push(&log, index, ObsKind::RrSendError { error: format!("{e:?}") }),
                            }
                        }
                    }
                    Cmd::RrCancel { id } => {
                        if let Some(h) = rr.as_mut() {
                            h.cancel_request(RequestId::from(id)).await;
                        }
                    }
                    Cmd::DropRr => { rr = None; }
                    Cmd::DropNotif => { notif = None; }
                    Cmd::NotifOpen(p) => {
                        if let Some(h) = notif.as_mut() {
                            let r = h.open_substream(p).await;
                            push(&log, index, ObsKind::NotifApi { what: format!("open {p}"), ok: r.is_ok() });
                        }
                    }
                    Cmd::NotifClose(p) => {
                        if let Some(h) = notif.as_mut() {
                            h.close_substream(p).await;
                            push(&log, index, ObsKind::NotifApi { what: format!("close {p}"), ok: true });
                        }
                    }
                    Cmd::NotifSendSync { peer, data } => {
                        if let Some(h) = notif.as_mut() {
                            let started = Instant::now();
                            let r = h.send_sync_notification(peer, data.clone());
                            let took = started.elapsed();
                            let what = match &r {
                                Ok(()) => "sync ok".to_string(),
                                Err(NotificationError::ChannelClogged) => "sync clogged".to_string(),
                                Err(e) => format!("sync err {e:?}"),
                            };
                            push(&log, index, ObsKind::NotifApi { what: format!("{what} {} {}us", tag_of(&data), took.as_micros()), ok: r.is_ok() });
                        }
                    }
                    Cmd::NotifSendAsync { peer, data } => {
                        if let Some(h) = notif.as_mut() {
                            let r = tokio::time::timeout(Duration::from_secs(5), h.send_async_notification(peer, data.clone())).await;
                            let (what, ok) = match &r {
                                Ok(Ok(())) => ("async ok".to_string(), true),
                                Ok(Err(e)) => (format!("async err {e:?}"), false),
                                Err(_) => ("async timeout".to_string(), false),
                            };
                            push(&log, index, ObsKind::NotifApi { what: format!("{what} {}", tag_of(&data)), ok });
                        }
                    }
                    Cmd::NotifBurst { peer, sync, first_tag, count, size } => {
                        if let Some(h) = notif.as_mut() {
                            let mut accepted = Vec::new();
                            let mut refused = Vec::new();
                            let mut max_call_us = 0u64;
                            for k in 0..count as u64 {
                                let tag = first_tag + k;
                                let data = notif_payload(tag, size as usize);
                                if sync {
                                    let started = Instant::now();
                                    let r = h.send_sync_notification(peer, data);
                                    max_call_us = max_call_us.max(started.elapsed().as_micros() as u64);
                                    match r {
                                        Ok(()) => accepted.push(tag),
                                        Err(NotificationError::ChannelClogged) => refused.push((tag, "clogged".to_string())),
                                        Err(e) => refused.push((tag, format!("{e:?}"))),
                                    }
                                } else {
                                    match tokio::time::timeout(Duration::from_secs(2), h.send_async_notification(peer, data)).await {
                                        Ok(Ok(())) => accepted.push(tag),
                                        Ok(Err(e)) => refused.push((tag, format!("{e:?}"))),
                                        Err(_) => {
                                            refused.push((tag, "timeout".to_string()));
                                            break;
                                        }
                                    }
                                }
                            }
                            push(&log, index, ObsKind::NotifBurst { peer, sync, accepted, refused, max_call_us });
                        }
                    }
                    Cmd::NotifSetPolicy(p) => notif_policy = p,
                    Cmd::NotifAnswer { peer, accept } => {
                        if let Some(h) = notif.as_mut() {
                            h.send_validation_result(peer, if accept { ValidationResult::Accept } else { ValidationResult::Reject });
                            push(&log, index, ObsKind::NotifApi { what: format!("answer {peer} {accept}"), ok: true });
                        }
                    }
                    Cmd::NotifAnswerLater { peer, accept, after } => delayed_validation.push((Instant::now() + after, peer, accept)),
                    Cmd::NotifReopenOnClosed(on) => notif_reopen_on_closed = on,
                    Cmd::NotifStallAfterClosed(d) => notif_stall_after_closed = d,
                    Cmd::NotifStall(d) => notif_stall_until = Some(Instant::now() + d),
                    Cmd::NotifThrottle(d) => notif_throttle = d,
                    Cmd::BitswapRespond { peer, entries } => { let _ = bs_cmd_tx.send((peer, entries)); }
                    Cmd::Ping(tx) => { let _ = tx.send(()); }
                    Cmd::Freeze(d) => std::thread::sleep(d),
                    Cmd::Kad(k) => {
                        if let Some(h) = kad.as_mut() {
                            match k {
                                KadCmd::AddKnownPeer(p, addrs) => h.add_known_peer(p, addrs).await,
                                KadCmd::FindNode(p) => { let q = h.find_node(p).await; push(&log, index, ObsKind::KadStarted { query: q.0, what: "find_node".into() }); }
                                KadCmd::PutRecord { key, value, quorum } => { let q = h.put_record(Record::new(RecordKey::from(key), value), quorum_of(quorum)).await; push(&log, index, ObsKind::KadStarted { query: q.0, what: "put_record".into() }); }
                                KadCmd::PutRecordToPeers { key, value, peers, quorum } => { let q = h.put_record_to_peers(Record::new(RecordKey::from(key), value), peers, false, quorum_of(quorum)).await; push(&log, index, ObsKind::KadStarted { query: q.0, what: "put_record_to_peers".into() }); }
                                KadCmd::GetRecord { key, quorum } => { let q = h.get_record(RecordKey::from(key), quorum_of(quorum)).await; push(&log, index, ObsKind::KadStarted { query: q.0, what: "get_record".into() }); }
                                KadCmd::StartProviding { key, quorum } => { let q = h.start_providing(RecordKey::from(key), quorum_of(quorum)).await; push(&log, index, ObsKind::KadStarted { query: q.0, what: "start_providing".into() }); }
                                KadCmd::StoreRecord { key, value } => h.store_record(Record::new(RecordKey::from(key), value)).await,
                                KadCmd::GetProviders { key } => { let q = h.get_providers(RecordKey::from(key)).await; push(&log, index, ObsKind::KadStarted { query: q.0, what: "get_providers".into() }); }
                            }
                        }
                    }
                }
            }
            ev = opt_next(&mut rr) => {
                match ev {
                    None => { rr = None; }
                    Some(RequestResponseEvent::RequestReceived { peer, request_id, request, .. }) => {
                        push(&log, index, ObsKind::RrRequestReceived { peer, id: rid(request_id), request: request.clone() });
                        if request.len() >= 15 {
                            let behaviour = request[8];
                            let arg = u16::from_le_bytes([request[9], request[10]]);
                            let h = rr.as_mut().unwrap();
                            match behaviour {
                                0 => { let resp = rr_expected_response(&request); push(&log, index, ObsKind::RrAnswered { id: rid(request_id), len: resp.len() }); h.send_response(request_id, resp); }
                                1 => { push(&log, index, ObsKind::RrRejected { id: rid(request_id) }); h.reject_request(request_id); }
                                2 => stalled_requests.push(request_id),
                                _ => delayed.push((Instant::now() + Duration::from_millis(arg as u64), request_id, rr_expected_response(&request))),
                            }
                        }
                    }
                    Some(RequestResponseEvent::ResponseReceived { peer, request_id, response, .. }) => push(&log, index, ObsKind::RrResponse { peer, id: rid(request_id), response }),
                    Some(RequestResponseEvent::RequestFailed { peer, request_id, error }) => push(&log, index, ObsKind::RrFailed { peer, id: rid(request_id), error: format!("{error:?}") }),
                }
            }
            ev = opt_next(&mut notif), if notif_active => {
                match ev {
                    None => { notif = None; }
                    Some(NotificationEvent::ValidateSubstream { peer, .. }) => {
                        push(&log, index, ObsKind::NotifValidate { peer });
                        let h = notif.as_mut().unwrap();
                        match notif_policy {
                            0 => h.send_validation_result(peer, ValidationResult::Accept),
                            1 => h.send_validation_result(peer, ValidationResult::Reject),
                            2 => {}
                            // accept, then the user stops reading its handle for 300 ms (the stream-opened event and whatever
                            // the remote sends right after it queue up behind the stall)
                            4 => {
                                h.send_validation_result(peer, ValidationResult::Accept);
                                notif_stall_until = Some(Instant::now() + Duration::from_millis(300));
                            }
                            _ => delayed_validation.push((Instant::now() + Duration::from_millis(100), peer, true)),
                        }
                    }
                    Some(NotificationEvent::NotificationStreamOpened { peer, direction, .. }) => push(&log, index, ObsKind::NotifOpened { peer, inbound: matches!(direction, litep2p::protocol::notification::Direction::Inbound) }),
                    Some(NotificationEvent::NotificationStreamClosed { peer }) => {
                        push(&log, index, ObsKind::NotifClosed { peer });
                        if notif_reopen_on_closed {
                            let r = notif.as_mut().unwrap().open_substream(peer).await;
                            push(&log, index, ObsKind::NotifApi { what: format!("open {peer}"), ok: r.is_ok() });
                        }
                        if !notif_stall_after_closed.is_zero() {
                            notif_stall_until = Some(Instant::now() + notif_stall_after_closed);
                        }
                    }
                    Some(NotificationEvent::NotificationStreamOpenFailure { peer, error }) => push(&log, index, ObsKind::NotifOpenFailure { peer, error: format!("{error:?}") }),
                    Some(NotificationEvent::NotificationReceived { peer, notification }) => {
                        push(&log, index, ObsKind::NotifReceived { peer, data: notification.to_vec() });
                        if !notif_throttle.is_zero() {
                            // a busy consumer: spin rather than sleep, timer granularity would make every pause a millisecond
                            let until = Instant::now() + notif_throttle;
                            while Instant::now() < until {
                                std::hint::spin_loop();
                            }
                        }
                    }
                }
            }
            ev = opt_next(&mut kad) => {
                match ev {
                    None => { kad = None; }
                    Some(ev) => {
                        let (query, kind, detail) = describe_kad(&ev);
                        push(&log, index, ObsKind::KadEvent { query, kind, detail });
                    }
                }
            }
            _ = sleep => {
                let now = Instant::now();
                let mut i = 0;
                while i < delayed.len() {
                    if delayed[i].0 <= now {
                        let (_, id, resp) = delayed.remove(i);
                        if let Some(h) = rr.as_mut() {
                            push(&log, index, ObsKind::RrAnswered { id: rid(id), len: resp.len() });
                            h.send_response(id, resp);
                        }
                    } else { i += 1; }
                }
                let mut i = 0;
                while i < delayed_validation.len() {
                    if delayed_validation[i].0 <= now {
                        let (_, p, accept) = delayed_validation.remove(i);
                        if let Some(h) = notif.as_mut() {
                            h.send_validation_result(p, if accept { ValidationResult::Accept } else { ValidationResult::Reject });
                            push(&log, index, ObsKind::NotifApi { what: format!("answer {p} {accept}"), ok: true });
                        }
                    } else { i += 1; }
                }
                if let Some(u) = notif_stall_until { if u <= now { notif_stall_until = None; } }
            }
        }
    }
}

fn rid(id: RequestId) -> usize {
    id.verif_raw()
}

/// Notification body for a tag: 8 bytes tag (LE), then a deterministic filler derived from the tag.
pub fn notif_payload(tag: u64, size: usize) -> Vec<u8> {
    let mut v = vec![0u8; size.max(8)];
    v[0..8].copy_from_slice(&tag.to_le_bytes());
    let mut x = tag.wrapping_mul(0x9E37_79B9_7F4A_7C15) ^ 0xD1B5_4A32_D192_ED03;
    for b in v[8..].iter_mut() {
        x ^= x << 13;
        x ^= x >> 7;
        x ^= x << 17;
        *b = x as u8;
    }
    v
}

fn tag_of(data: &[u8]) -> String {
    if data.len() >= 8 {
        format!("tag={}", u64::from_le_bytes(data[0..8].try_into().unwrap()))
    } else {
        format!("len={}", data.len())
    }
}

pub fn hex(b: &[u8]) -> String {
    b.iter().map(|x| format!("{x:02x}")).collect()
}

fn describe_kad(ev: &KademliaEvent) -> (Option<usize>, String, String) {
    match ev {
        KademliaEvent::FindNodeSuccess { query_id, peers, .. } => (Some(query_id.0), "FindNodeSuccess".into(), peers.iter().map(|(p, _)| p.to_string()).collect::<Vec<_>>().join(",")),
        KademliaEvent::RoutingTableUpdate { peers } => (None, "RoutingTableUpdate".into(), format!("{}", peers.len())),
        KademliaEvent::GetRecordSuccess { query_id, .. } => (Some(query_id.0), "GetRecordSuccess".into(), String::new()),
        KademliaEvent::GetRecordPartialResult { query_id, record } => {
            (Some(query_id.0), "GetRecordPartialResult".into(), format!("{}|{}|{}", record.peer, hex(record.record.key.as_ref()), hex(&record.record.value)))
        }
        KademliaEvent::GetProvidersSuccess { query_id, providers, .. } => {
            (Some(query_id.0), "GetProvidersSuccess".into(), providers.iter().map(|p| p.peer.to_string()).collect::<Vec<_>>().join(","))
        }
        KademliaEvent::PutRecordSuccess { query_id, .. } => (Some(query_id.0), "PutRecordSuccess".into(), String::new()),
        KademliaEvent::AddProviderSuccess { query_id, .. } => (Some(query_id.0), "AddProviderSuccess".into(), String::new()),
        KademliaEvent::QueryFailed { query_id } => (Some(query_id.0), "QueryFailed".into(), String::new()),
        KademliaEvent::IncomingRecord { record } => (None, "IncomingRecord".into(), format!("{}|{}", hex(record.key.as_ref()), hex(&record.value))),
        KademliaEvent::IncomingProvider { provided_key, provider } => (None, "IncomingProvider".into(), format!("{}|{}", hex(provided_key.as_ref()), provider.peer)),
    }
}

/// Address of a node with its peer id appended.
pub fn full_address(n: &Node) -> Multiaddr {
    if matches!(n.address.iter().last(), Some(Protocol::P2p(_))) {
        n.address.clone()
    } else {
        n.address.clone().with(Protocol::P2p(n.peer.into()))
    }
}

/// Waits (polling the log every few ms) until `pred` holds or the deadline passes.
pub fn wait_until(log: &Log, deadline: Duration, mut pred: impl FnMut(&[Obs]) -> bool) -> bool {
    let start = Instant::now();
    loop {
        if pred(&log.lock()) {
            return true;
        }
        if start.elapsed() >= deadline {
            return false;
        }
        std::thread::sleep(Duration::from_millis(3));
    }
}

/// Control experiment for "the node stopped serving" verdicts: two fresh plain nodes connect and complete one request
/// within the same deadlines. When even that fails the machine is too busy to judge and the case is inconclusive.
pub fn control_pair_works(case_id: u64, seed: u64) -> bool {
    let log: Log = Arc::new(Mutex::new(Vec::new()));
    let setup = |s: u64| NodeSetup {
        seed: s,
        keep_alive: Some(Duration::from_secs(20)),
        rr: Some(RrSetup { timeout: Duration::from_millis(800), max_size: 1024, max_concurrent_inbound: None }),
        case_id,
        ..Default::default()
    };
    let (Ok(a), Ok(b)) = (Node::spawn(8, setup(seed % 300 + 98_000), log.clone()), Node::spawn(9, setup(seed % 300 + 99_000), log.clone())) else { return false };
    a.send(Cmd::DialAddress(full_address(&b)));
    let (pa, pb) = (a.peer, b.peer);
    let connected = |l: &[Obs], node: usize, peer: &PeerId| l.iter().any(|o| o.node == node && matches!(&o.kind, ObsKind::ConnEstablished { peer: p, .. } if p == peer));
    if !wait_until(&log, Duration::from_millis(4000), |l| connected(l, 8, &pb) && connected(l, 9, &pa)) {
        return false;
    }
    a.send(Cmd::RrSend { peer: pb, payload: rr_request(1, 0, 0, 8, 20), dial: false });
    wait_until(&log, Duration::from_millis(4000), |l| l.iter().any(|o| o.node == 8 && matches!(&o.kind, ObsKind::RrResponse { .. })))
}
