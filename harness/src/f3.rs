//! F3 — the real `TransportManager` driven through a scripted transport.
//!
//! One stimulus at a time, then everything is polled until quiescent. The scripted transport only
//! emits what `TcpTransport` can emit (see DESIGN.md §2.2); the one generalisation — a negotiation
//! failing after `ConnectionOpened`, which the `Transport` trait permits and the manager has a code
//! path for — is behind the `general` flag of a history.

use crate::common::peer_from_seed;
use crate::engine::{pick_idx, CaseFail};
use futures::{FutureExt, StreamExt};
use litep2p::protocol::{TransportEvent, TransportService};
use litep2p::verif::scripted::{Call, ErrKind, Inject, MgrEvent, PeerStateView, VerifManager};
use litep2p::verif::tcp_multiaddr_to_socket_address;
use litep2p::{PeerId, ProtocolName};
use multiaddr::{Multiaddr, Protocol};
use proptest::prelude::*;
use serde::{Deserialize, Serialize};
use std::collections::BTreeMap;
use std::time::Duration;

pub const N_PEERS: usize = 4;

/// Address shape (grammar shared by C05 and C10).
#[derive(Debug, Clone, Serialize, Deserialize, PartialEq)]
pub struct AddrSel {
    /// 0 ip4 global, 1 ip4 private, 2 ip4 loopback, 3 ip4 unspecified, 4 ip6 global, 5 ip6 loopback, 6 ip6 unspecified,
    /// 7 dns, 8 dns4, 9 dns6, 10 memory (other)
    pub first: u8,
    /// 0 tcp, 1 udp, 2 none, 3 other (ws without tcp)
    pub second: u8,
    pub port: u16,
    pub host: u8,
    /// 0 nothing, 1 /p2p/<the peer>, 2 /p2p/<another peer>, 3 /p2p/<other>/p2p/<the peer>, 4 /p2p/<the peer>/p2p/<other>,
    /// 5 /ws/p2p/<the peer>, 6 /p2p/<the peer>/ws (trailing junk), 7 /quic-v1/p2p/<the peer>, 8 /p2p/<local peer>
    pub tail: u8,
}

pub fn addr_sel_strategy(adversarial: bool) -> impl Strategy<Value = AddrSel> {
    let first = if adversarial {
        prop_oneof![6 => Just(0u8), 3 => Just(1u8), 1 => Just(2u8), 1 => Just(3u8), 2 => Just(4u8), 1 => Just(5u8), 1 => Just(6u8), 1 => Just(7u8), 1 => Just(8u8), 1 => Just(9u8), 1 => Just(10u8)].boxed()
    } else {
        prop_oneof![6 => Just(0u8), 3 => Just(1u8), 2 => Just(4u8), 1 => Just(7u8)].boxed()
    };
    let second = if adversarial { prop_oneof![12 => Just(0u8), 1 => Just(1u8), 1 => Just(2u8), 1 => Just(3u8)].boxed() } else { Just(0u8).boxed() };
    let tail = if adversarial {
        prop_oneof![3 => Just(0u8), 8 => Just(1u8), 2 => Just(2u8), 2 => Just(3u8), 2 => Just(4u8), 1 => Just(5u8), 1 => Just(6u8), 1 => Just(7u8), 1 => Just(8u8)].boxed()
    } else {
        prop_oneof![2 => Just(0u8), 8 => Just(1u8)].boxed()
    };
    (first, second, 1u16..6, 0u8..100, tail).prop_map(|(first, second, port, host, tail)| AddrSel { first, second, port: 30_000 + port, host, tail })
}

pub fn build_addr(sel: &AddrSel, peer: PeerId, other: PeerId, local: PeerId) -> Multiaddr {
    let mut a = Multiaddr::empty();
    a.push(match sel.first {
        0 => Protocol::Ip4([52, 10, sel.host, 7].into()),
        1 => Protocol::Ip4([192, 168, sel.host, 7].into()),
        2 => Protocol::Ip4([127, 0, 0, 1].into()),
        3 => Protocol::Ip4([0, 0, 0, 0].into()),
        4 => Protocol::Ip6(format!("2a01:4f8::{:x}", sel.host as u16 + 1).parse().unwrap()),
        5 => Protocol::Ip6("::1".parse().unwrap()),
        6 => Protocol::Ip6("::".parse().unwrap()),
        7 => Protocol::Dns(format!("node{}.example.org", sel.host).into()),
        8 => Protocol::Dns4(format!("node{}.example.org", sel.host).into()),
        9 => Protocol::Dns6(format!("node{}.example.org", sel.host).into()),
        _ => Protocol::Memory(sel.host as u64),
    });
    match sel.second {
        0 => a.push(Protocol::Tcp(sel.port)),
        1 => a.push(Protocol::Udp(sel.port)),
        2 => {}
        _ => a.push(Protocol::Ws("/".into())),
    }
    match sel.tail {
        0 => {}
        1 => a.push(Protocol::P2p(peer.into())),
        2 => a.push(Protocol::P2p(other.into())),
        3 => {
            a.push(Protocol::P2p(other.into()));
            a.push(Protocol::P2p(peer.into()));
        }
        4 => {
            a.push(Protocol::P2p(peer.into()));
            a.push(Protocol::P2p(other.into()));
        }
        5 => {
            a.push(Protocol::Ws("/".into()));
            a.push(Protocol::P2p(peer.into()));
        }
        6 => {
            a.push(Protocol::P2p(peer.into()));
            a.push(Protocol::Ws("/".into()));
        }
        7 => {
            a.push(Protocol::QuicV1);
            a.push(Protocol::P2p(peer.into()));
        }
        _ => a.push(Protocol::P2p(local.into())),
    }
    a
}

#[derive(Debug, Clone, Serialize, Deserialize)]
pub enum Op {
    AddKnown { peer: u8, addrs: Vec<AddrSel> },
    Dial { peer: u8 },
    DialAddress { peer: u8, addr: AddrSel },
    /// resolve one outstanding obligation of the transport; `outcome` selects how
    Resolve { pick: u16, outcome: u8 },
    /// a new inbound socket (the peer it will turn out to be is fixed now)
    Inbound { peer: u8 },
    Close { pick: u16 },
    /// add `count` distinct canonical addresses at once (first class as in AddrSel)
    Bulk { peer: u8, first: u8, start: u16, count: u8 },
}

#[derive(Debug, Clone, Serialize, Deserialize)]
pub struct History {
    pub max_in: Option<u8>,
    pub max_out: Option<u8>,
    pub ops: Vec<Op>,
    /// order in which obligations left at the end are resolved
    pub drain: Vec<(u16, u8)>,
    /// allow a negotiation failure after ConnectionOpened (permitted by the Transport trait, not emitted by TCP)
    pub general: bool,
    pub listen: Vec<AddrSel>,
    /// let the transport's accept() call fail for some established connections (the Transport trait permits it; the TCP
    /// transport never does): only the capacity accounting of C06 is judged on such histories
    #[serde(default)]
    pub accept_faults: bool,
}

pub fn op_strategy(adversarial: bool, inbound_weight: u32) -> impl Strategy<Value = Op> {
    let peer = 0u8..N_PEERS as u8;
    prop_oneof![
        3 => (peer.clone(), prop::collection::vec(addr_sel_strategy(adversarial), 1..4)).prop_map(|(peer, addrs)| Op::AddKnown { peer, addrs }),
        4 => peer.clone().prop_map(|peer| Op::Dial { peer }),
        3 => (peer.clone(), addr_sel_strategy(adversarial)).prop_map(|(peer, addr)| Op::DialAddress { peer, addr }),
        8 => (any::<u16>(), any::<u8>()).prop_map(|(pick, outcome)| Op::Resolve { pick, outcome }),
        inbound_weight => peer.prop_map(|peer| Op::Inbound { peer }),
        3 => any::<u16>().prop_map(|pick| Op::Close { pick }),
    ]
}

pub fn limit_strategy() -> impl Strategy<Value = Option<u8>> {
    prop_oneof![3 => Just(None), 1 => Just(Some(0u8)), 2 => Just(Some(1u8)), 2 => Just(Some(2u8)), 1 => Just(Some(3u8))]
}

pub fn history_strategy(max_ops: usize, adversarial: bool, inbound_weight: u32, general: bool) -> impl Strategy<Value = History> {
    (
        limit_strategy(),
        limit_strategy(),
        prop::collection::vec(op_strategy(adversarial, inbound_weight), 1..max_ops),
        prop::collection::vec((any::<u16>(), any::<u8>()), 0..12),
        if general { prop::bool::weighted(0.5).boxed() } else { Just(false).boxed() },
        prop::collection::vec(addr_sel_strategy(true), 0..2),
    )
        .prop_map(|(max_in, max_out, ops, drain, general, listen)| History { max_in, max_out, ops, drain, general, listen, accept_faults: false })
}

/// The small-scope space for exhaustive enumeration: two peers with one canonical address each, 14 operations, four limit
/// configurations (none, (1,1), outbound only, inbound only) and two ways of concluding what is left (all succeed / all
/// fail). Index order is shortest history first.
pub const SMALL_ALPHABET: usize = 14;

pub fn small_space_size(max_len: u32) -> u64 {
    let mut total = 0u64;
    let mut block = 1u64;
    for _ in 0..max_len {
        block *= SMALL_ALPHABET as u64;
        total += block;
    }
    total * 8
}

pub fn small_history(index: u64) -> History {
    let cfg = index % 8;
    let mut i = index / 8;
    let mut len = 1usize;
    let mut block = SMALL_ALPHABET as u64;
    while i >= block {
        i -= block;
        block *= SMALL_ALPHABET as u64;
        len += 1;
    }
    let canonical = |peer: u8| AddrSel { first: 0, second: 0, port: 30_001, host: 10 + peer, tail: 1 };
    let mut ops = Vec::with_capacity(len);
    for _ in 0..len {
        let d = (i % SMALL_ALPHABET as u64) as u8;
        i /= SMALL_ALPHABET as u64;
        ops.push(match d {
            0 | 1 => Op::AddKnown { peer: d, addrs: vec![canonical(d)] },
            2 | 3 => Op::Dial { peer: d - 2 },
            4 | 5 => Op::DialAddress { peer: d - 4, addr: canonical(d - 4) },
            6 | 7 => Op::Inbound { peer: d - 6 },
            8 => Op::Resolve { pick: 0, outcome: 0 },
            9 => Op::Resolve { pick: 0, outcome: 1 },
            10 => Op::Resolve { pick: u16::MAX, outcome: 0 },
            11 => Op::Resolve { pick: u16::MAX, outcome: 3 },
            12 => Op::Close { pick: 0 },
            _ => Op::Close { pick: u16::MAX },
        });
    }
    let (max_in, max_out) = match cfg / 2 {
        0 => (None, None),
        1 => (Some(1), Some(1)),
        2 => (None, Some(1)),
        _ => (Some(1), None),
    };
    let drain = if cfg % 2 == 0 { vec![(0u16, 0u8); 12] } else { vec![(0u16, 1u8); 12] };
    History { max_in, max_out, ops, drain, general: false, listen: Vec::new(), accept_faults: false }
}

#[derive(Debug, Clone)]
pub enum Obligation {
    /// `dial(id, address)`: exactly one of Established / DialFailure
    Dial { id: usize, address: Multiaddr, remote: Option<PeerId> },
    /// `open(id, addresses)`: ConnectionOpened / OpenFailure unless cancelled
    Open { id: usize, addresses: Vec<Multiaddr> },
    /// after ConnectionOpened + negotiate(id): Established (TCP), or DialFailure in the general mode
    Negotiate { id: usize, address: Multiaddr, remote: Option<PeerId> },
    /// pending inbound socket that was accepted: Established{listener} or silence
    Inbound { id: usize, peer: PeerId },
}

impl Obligation {
    pub fn id(&self) -> usize {
        match self {
            Obligation::Dial { id, .. } | Obligation::Open { id, .. } | Obligation::Negotiate { id, .. } | Obligation::Inbound { id, .. } => *id,
        }
    }
}

#[derive(Debug, Clone)]
pub struct Attempt {
    pub id: usize,
    /// the peer the manager registered the attempt for
    pub peer: PeerId,
    pub step: usize,
    pub by_address: bool,
    pub addresses: Vec<Multiaddr>,
    pub cancelled: bool,
}

#[derive(Debug, Clone, Default)]
pub struct StepRecord {
    pub step: usize,
    pub op: String,
    pub api_result: Option<Result<(), String>>,
    pub calls: Vec<Call>,
    pub events: Vec<MgrEvent>,
    pub accept_results: Vec<(usize, bool)>,
    /// (service index, event description)
    pub service_events: Vec<(usize, String)>,
    pub new_attempt: Option<usize>,
    /// connection closed by the harness in this step
    pub closed: Option<(usize, PeerId)>,
    /// connection rejected (Reject call) in this step
    pub rejected: Vec<usize>,
    pub injected_established: Option<(usize, PeerId, bool)>,
    /// addresses whose score this step's stimulus is expected to set: (address as stored, expected score)
    pub rescored: Vec<(Multiaddr, i32)>,
    /// addresses offered in this step (AddKnown / DialAddress), as given
    pub offered: Vec<(PeerId, Multiaddr)>,
}

pub struct World {
    pub m: VerifManager,
    pub services: Vec<TransportService>,
    pub peers: Vec<PeerId>,
    pub local: PeerId,
    pub max_in: Option<usize>,
    pub max_out: Option<usize>,
    pub obligations: Vec<Obligation>,
    /// established events injected and not yet decided (accept / reject)
    pub attempts: BTreeMap<usize, Attempt>,
    /// failure / established reports per connection id
    pub failure_reports: BTreeMap<usize, usize>,
    pub established_reports: BTreeMap<usize, usize>,
    /// (step, peer, id) of every Established the manager reported
    pub established_log: Vec<(usize, PeerId, usize)>,
    pub closed_log: Vec<(usize, PeerId, usize)>,
    /// harness truth: accepted connections: id -> (peer, listener)
    pub truth: BTreeMap<usize, (PeerId, bool)>,
    pub direction: BTreeMap<usize, bool>,
    pub step: usize,
    pub general: bool,
    pub accept_faults: bool,
    /// connections whose accept() call was made to fail
    pub accept_failed: usize,
    accept_fault_armed: bool,
    /// connections whose accept() call was failed by the armed fault
    pub accept_failed_ids: std::collections::BTreeSet<usize>,
    pub accept_failed_peers: Vec<PeerId>,
    pub listen: Vec<Multiaddr>,
    pub log: Vec<String>,
    /// ids of own dial attempts whose established connection the manager rejected
    pub own_rejected: std::collections::BTreeSet<usize>,
    /// do not start more outbound attempts than the outbound limit leaves room for (steers away from a known finding)
    pub avoid_overcommit: bool,
    pub steered: usize,
}

pub fn kind_score(k: ErrKind) -> i32 {
    match k {
        ErrKind::AddressError => i32::MIN,
        _ => -100,
    }
}

fn with_peer(a: &Multiaddr, peer: PeerId) -> Multiaddr {
    if matches!(a.iter().last(), Some(Protocol::P2p(_))) {
        a.clone()
    } else {
        a.clone().with(Protocol::P2p(peer.into()))
    }
}

fn strip_p2p(a: &Multiaddr) -> Multiaddr {
    a.iter().take_while(|p| !matches!(p, Protocol::P2p(_))).collect()
}

impl World {
    pub fn new(h: &History) -> World {
        let keypair = crate::common::keypair_from_seed(0xF3);
        let (mut m, services) = VerifManager::new(
            keypair,
            h.max_in.map(|v| v as usize),
            h.max_out.map(|v| v as usize),
            vec![(ProtocolName::from("/f3/1"), true), (ProtocolName::from("/f3/2"), true)],
            Duration::from_secs(1_000_000),
        );
        let local = m.local_peer_id();
        let peers: Vec<PeerId> = (0..N_PEERS + 2).map(|i| peer_from_seed(0xF300 + i as u64)).collect();
        let mut listen = Vec::new();
        for l in &h.listen {
            let mut s = l.clone();
            s.tail = 0;
            if s.first <= 6 && s.second == 0 {
                let a = build_addr(&s, local, local, local);
                m.register_listen_address(a.clone());
                listen.push(a);
            }
        }
        World {
            m,
            services,
            peers,
            local,
            max_in: h.max_in.map(|v| v as usize),
            max_out: h.max_out.map(|v| v as usize),
            obligations: Vec::new(),
            attempts: BTreeMap::new(),
            failure_reports: BTreeMap::new(),
            established_reports: BTreeMap::new(),
            established_log: Vec::new(),
            closed_log: Vec::new(),
            truth: BTreeMap::new(),
            direction: BTreeMap::new(),
            step: 0,
            general: h.general,
            accept_faults: h.accept_faults,
            accept_failed: 0,
            accept_fault_armed: false,
            accept_failed_ids: Default::default(),
            accept_failed_peers: Vec::new(),
            listen,
            log: Vec::new(),
            own_rejected: Default::default(),
            avoid_overcommit: false,
            steered: 0,
        }
    }

    pub fn addr(&self, peer: u8, sel: &AddrSel) -> Multiaddr {
        let p = self.peers[peer as usize % N_PEERS];
        let other = self.peers[(peer as usize + 1) % N_PEERS];
        build_addr(sel, p, other, self.local)
    }

    /// Polls manager, transport calls and services until nothing moves.
    fn settle(&mut self, rec: &mut StepRecord) -> Result<(), CaseFail> {
        for _round in 0..64 {
            let events = self.m.poll();
            let calls = self.m.take_calls();
            let accepts = self.m.take_accept_results();
            let mut moved = !events.is_empty() || !calls.is_empty() || !accepts.is_empty();
            for (i, s) in self.services.iter_mut().enumerate() {
                while let Some(Some(ev)) = tokio::task::unconstrained(s.next()).now_or_never() {
                    moved = true;
                    let d = match ev {
                        TransportEvent::ConnectionEstablished { peer, .. } => format!("established {peer}"),
                        TransportEvent::ConnectionClosed { peer } => format!("closed {peer}"),
                        TransportEvent::DialFailure { peer, addresses } => format!("dial-failure {peer} {}", addresses.len()),
                        TransportEvent::SubstreamOpened { peer, .. } => format!("substream-opened {peer}"),
                        TransportEvent::SubstreamOpenFailure { substream, .. } => format!("substream-open-failure {substream:?}"),
                    };
                    rec.service_events.push((i, d));
                }
            }
            for c in &calls {
                match c {
                    Call::Dial { id, address } => {
                        let remote = tcp_multiaddr_to_socket_address(address).ok().and_then(|(_, p)| p);
                        self.obligations.push(Obligation::Dial { id: *id, address: address.clone(), remote });
                    }
                    Call::Open { id, addresses } => self.obligations.push(Obligation::Open { id: *id, addresses: addresses.clone() }),
                    Call::Cancel { id } => {
                        let before = self.obligations.len();
                        self.obligations.retain(|o| !(matches!(o, Obligation::Open { .. }) && o.id() == *id));
                        if self.obligations.len() != before {
                            if let Some(a) = self.attempts.get_mut(id) {
                                a.cancelled = true;
                            }
                        }
                    }
                    Call::Negotiate { .. } | Call::Accept { .. } | Call::AcceptPending { .. } | Call::RejectPending { .. } => {}
                    Call::Reject { id } => {
                        rec.rejected.push(*id);
                        if self.attempts.contains_key(id) {
                            self.own_rejected.insert(*id);
                        }
                    }
                }
            }
            for e in &events {
                match e {
                    MgrEvent::Established { peer, id, .. } => {
                        *self.established_reports.entry(*id).or_default() += 1;
                        self.established_log.push((self.step, *peer, *id));
                    }
                    MgrEvent::Closed { peer, id } => self.closed_log.push((self.step, *peer, *id)),
                    MgrEvent::DialFailure { id, .. } | MgrEvent::OpenFailure { id, .. } => {
                        *self.failure_reports.entry(*id).or_default() += 1;
                    }
                    MgrEvent::Other(_) => {}
                }
            }
            for (id, ok) in &accepts {
                if *ok {
                    // the connection is live from the transport's point of view
                    if let Some(listener) = self.direction.get(id) {
                        let peer = self.m.live_connections().into_iter().find(|(i, _)| i == id).map(|(_, p)| p);
                        if let Some(peer) = peer {
                            self.truth.insert(*id, (peer, *listener));
                        }
                    }
                }
            }
            rec.calls.extend(calls);
            rec.events.extend(events);
            rec.accept_results.extend(accepts);
            if !moved {
                return Ok(());
            }
        }
        Err(CaseFail::new("F3/does-not-settle", format!("step {}: still moving after 64 rounds", self.step)))
    }

    fn register_attempt(&mut self, rec: &mut StepRecord, by_address: bool) {
        // a dial / open call following an Ok from the API starts an attempt; the manager's target peer is in pending_connections
        let pending: BTreeMap<usize, PeerId> = self.m.pending_connections().into_iter().collect();
        for c in &rec.calls {
            let (id, addresses) = match c {
                Call::Dial { id, address } => (*id, vec![address.clone()]),
                Call::Open { id, addresses } => (*id, addresses.clone()),
                _ => continue,
            };
            if self.attempts.contains_key(&id) {
                continue;
            }
            let Some(peer) = pending.get(&id) else { continue };
            self.attempts.insert(
                id,
                Attempt {
                    id,
                    peer: *peer,
                    step: self.step,
                    by_address,
                    addresses,
                    cancelled: false,
                },
            );
            rec.new_attempt = Some(id);
        }
    }

    /// Outbound attempts still in flight (no report yet, obligation outstanding).
    pub fn in_flight_out(&self) -> usize {
        self.attempts
            .values()
            .filter(|a| {
                !a.cancelled
                    && self.failure_reports.get(&a.id).cloned().unwrap_or(0) + self.established_reports.get(&a.id).cloned().unwrap_or(0) == 0
                    && self.obligations.iter().any(|o| o.id() == a.id)
            })
            .count()
    }

    pub fn apply(&mut self, op: &Op) -> Result<StepRecord, CaseFail> {
        self.step += 1;
        let mut rec = StepRecord {
            step: self.step,
            op: format!("{op:?}"),
            ..Default::default()
        };
        if self.avoid_overcommit && matches!(op, Op::Dial { .. } | Op::DialAddress { .. }) {
            if let Some(max) = self.max_out {
                if self.in_flight_out() + self.counts_truth().1 >= max && self.counts_truth().1 < max {
                    // a further dial could be established after the limit filled (known finding): steered away
                    self.steered += 1;
                    rec.op = format!("{op:?} (skipped: outbound capacity already committed)");
                    return Ok(rec);
                }
            }
        }
        match op {
            Op::AddKnown { peer, addrs } => {
                let p = self.peers[*peer as usize % N_PEERS];
                let list: Vec<Multiaddr> = addrs.iter().map(|s| self.addr(*peer, s)).collect();
                rec.offered = list.iter().map(|a| (p, a.clone())).collect();
                let n = self.m.add_known_address(p, list);
                rec.api_result = Some(Ok(()));
                rec.op = format!("{op:?} -> {n}");
                self.settle(&mut rec)?;
            }
            Op::Bulk { peer, first, start, count } => {
                let p = self.peers[*peer as usize % N_PEERS];
                let list: Vec<Multiaddr> = (0..*count as u16)
                    .map(|k| {
                        let n = start.wrapping_add(k) % 500;
                        let sel = AddrSel { first: *first, second: 0, port: 30_001 + (n / 100), host: (n % 100) as u8, tail: 1 };
                        self.addr(*peer, &sel)
                    })
                    .collect();
                rec.offered = list.iter().map(|a| (p, a.clone())).collect();
                let n = self.m.add_known_address(p, list);
                rec.api_result = Some(Ok(()));
                rec.op = format!("AddKnown bulk {op:?} -> {n}");
                self.settle(&mut rec)?;
            }
            Op::Dial { peer } => {
                let p = self.peers[*peer as usize % N_PEERS];
                rec.api_result = Some(self.m.dial(p));
                self.settle(&mut rec)?;
                if matches!(rec.api_result, Some(Ok(()))) {
                    self.register_attempt(&mut rec, false);
                }
            }
            Op::DialAddress { peer, addr } => {
                let a = self.addr(*peer, addr);
                rec.op = format!("DialAddress {a}");
                rec.offered = vec![(self.peers[*peer as usize % N_PEERS], a.clone())];
                rec.api_result = Some(self.m.dial_address(a));
                self.settle(&mut rec)?;
                if matches!(rec.api_result, Some(Ok(()))) {
                    self.register_attempt(&mut rec, true);
                }
            }
            Op::Inbound { peer } => {
                let p = self.peers[*peer as usize % N_PEERS];
                let id = self.m.next_connection_id();
                self.m.inject(Inject::PendingInbound { id });
                self.settle(&mut rec)?;
                if rec.calls.iter().any(|c| matches!(c, Call::AcceptPending { id: i } if *i == id)) {
                    self.obligations.push(Obligation::Inbound { id, peer: p });
                }
            }
            Op::Resolve { pick, outcome } => {
                if self.obligations.is_empty() {
                    return Ok(rec);
                }
                let i = pick_idx(*pick, self.obligations.len());
                let ob = self.obligations.remove(i);
                self.resolve(ob, *outcome, &mut rec)?;
                if std::mem::take(&mut self.accept_fault_armed) && !self.m.clear_fail_next_accept_call() {
                    // the fault was consumed: the accept call for this connection failed
                    self.accept_failed += 1;
                    if let Some((id, peer, _)) = rec.injected_established {
                        self.accept_failed_ids.insert(id);
                        self.accept_failed_peers.push(peer);
                    }
                }
            }
            Op::Close { pick } => {
                let live = self.m.live_connections();
                if live.is_empty() {
                    return Ok(rec);
                }
                let (id, peer) = live[pick_idx(*pick, live.len())];
                self.m.close_connection(id).map_err(|e| CaseFail::new("F3/harness-close-failed", e))?;
                self.truth.remove(&id);
                rec.closed = Some((id, peer));
                rec.op = format!("Close conn {id}");
                self.settle(&mut rec)?;
            }
        }
        Ok(rec)
    }

    fn resolve(&mut self, ob: Obligation, outcome: u8, rec: &mut StepRecord) -> Result<(), CaseFail> {
        let kinds = [ErrKind::Timeout, ErrKind::Refused, ErrKind::AddressError, ErrKind::PeerIdMismatch];
        rec.op = format!("Resolve {ob:?} outcome {outcome}");
        match ob {
            Obligation::Dial { id, address, remote } => {
                if outcome % 2 == 0 {
                    let peer = remote.unwrap_or(self.peers[N_PEERS]);
                    self.direction.insert(id, false);
                    rec.injected_established = Some((id, peer, false));
                    rec.rescored.push((with_peer(&strip_p2p(&address), peer), 100));
                    if self.accept_faults && outcome & 0x40 != 0 {
                        self.m.fail_next_accept_call();
                        self.accept_fault_armed = true;
                    }
                    self.m.inject(Inject::Established { peer, address: strip_p2p(&address), id, listener: false });
                } else {
                    let kind = kinds[(outcome as usize / 2) % 4];
                    rec.rescored.push((address.clone(), kind_score(kind)));
                    self.m.inject(Inject::DialFailure { id, address, error: kind });
                }
            }
            Obligation::Open { id, addresses } => {
                if outcome % 2 == 0 && !addresses.is_empty() {
                    let k = (outcome as usize / 2) % addresses.len();
                    let chosen = addresses[k].clone();
                    let n_err = (outcome as usize / 8) % addresses.len();
                    let errors: Vec<(Multiaddr, ErrKind)> = addresses
                        .iter()
                        .enumerate()
                        .filter(|(i, _)| *i != k)
                        .take(n_err)
                        .map(|(i, a)| (a.clone(), kinds[(outcome as usize + i) % 4]))
                        .collect();
                    let remote = tcp_multiaddr_to_socket_address(&chosen).ok().and_then(|(_, p)| p);
                    for (a, k) in &errors {
                        rec.rescored.push((a.clone(), kind_score(*k)));
                    }
                    if let Some(target) = self.attempts.get(&id).map(|a| a.peer) {
                        rec.rescored.push((with_peer(&strip_p2p(&chosen), target), 100));
                    }
                    self.m.inject(Inject::Opened { id, address: strip_p2p(&chosen), errors });
                    self.settle(rec)?;
                    if rec.calls.iter().any(|c| matches!(c, Call::Negotiate { id: i } if *i == id)) {
                        self.obligations.push(Obligation::Negotiate { id, address: chosen, remote });
                    }
                    return Ok(());
                } else {
                    let errors: Vec<(Multiaddr, ErrKind)> = addresses.iter().enumerate().map(|(i, a)| (a.clone(), kinds[(outcome as usize + i) % 4])).collect();
                    for (a, k) in &errors {
                        rec.rescored.push((a.clone(), kind_score(*k)));
                    }
                    self.m.inject(Inject::OpenFailure { id, errors });
                }
            }
            Obligation::Negotiate { id, address, remote } => {
                if self.general && outcome % 4 == 3 {
                    let kind = kinds[(outcome as usize / 4) % 4];
                    rec.rescored.push((address.clone(), kind_score(kind)));
                    self.m.inject(Inject::DialFailure { id, address, error: kind });
                } else {
                    let peer = remote.unwrap_or(self.peers[N_PEERS]);
                    self.direction.insert(id, false);
                    rec.injected_established = Some((id, peer, false));
                    rec.rescored.push((with_peer(&strip_p2p(&address), peer), 100));
                    if self.accept_faults && outcome & 0x40 != 0 {
                        self.m.fail_next_accept_call();
                        self.accept_fault_armed = true;
                    }
                    self.m.inject(Inject::Established { peer, address: strip_p2p(&address), id, listener: false });
                }
            }
            Obligation::Inbound { id, peer } => {
                if outcome % 5 != 4 {
                    let address: Multiaddr = format!("/ip4/52.11.0.{}/tcp/{}", 1 + (id % 200), 40_000 + (id % 1000)).parse().unwrap();
                    self.direction.insert(id, true);
                    rec.injected_established = Some((id, peer, true));
                    if self.accept_faults && outcome & 0x40 != 0 {
                        self.m.fail_next_accept_call();
                        self.accept_fault_armed = true;
                    }
                    self.m.inject(Inject::Established { peer, address, id, listener: true });
                }
                // else: the inbound negotiation fails silently (TCP only logs)
            }
        }
        self.settle(rec)
    }

    /// Resolve everything still outstanding (in the order given by `drain`), so that all network activity has concluded.
    pub fn drain(&mut self, order: &[(u16, u8)], mut each: impl FnMut(&mut World, &StepRecord) -> Result<(), CaseFail>) -> Result<(), CaseFail> {
        let mut k = 0;
        let mut guard = 0;
        while !self.obligations.is_empty() {
            guard += 1;
            if guard > 200 {
                return Err(CaseFail::new("F3/drain-does-not-terminate", format!("{} obligations left", self.obligations.len())));
            }
            let (pick, outcome) = order.get(k).cloned().unwrap_or((0, (k as u8).wrapping_mul(3)));
            k += 1;
            self.step += 1;
            let mut rec = StepRecord { step: self.step, ..Default::default() };
            let i = pick_idx(pick, self.obligations.len());
            let ob = self.obligations.remove(i);
            self.resolve(ob, outcome, &mut rec)?;
            if std::mem::take(&mut self.accept_fault_armed) && !self.m.clear_fail_next_accept_call() {
                self.accept_failed += 1;
                if let Some((id, peer, _)) = rec.injected_established {
                    self.accept_failed_ids.insert(id);
                    self.accept_failed_peers.push(peer);
                }
            }
            each(self, &rec)?;
        }
        Ok(())
    }

    pub fn state(&self, peer: &PeerId) -> Option<PeerStateView> {
        self.m.peer_state(peer)
    }

    pub fn counts_truth(&self) -> (usize, usize) {
        let inb = self.truth.values().filter(|(_, l)| *l).count();
        (inb, self.truth.len() - inb)
    }
}

/// Runs a history inside a paused runtime, calling `each` after every step and `end` at quiescence.
pub fn run_history(
    h: &History,
    avoid_overcommit: bool,
    mut each: impl FnMut(&mut World, &StepRecord) -> Result<(), CaseFail>,
    end: impl FnOnce(&mut World) -> Result<(), CaseFail>,
) -> Result<World, CaseFail> {
    crate::f2::block_on_paused(async {
        let mut w = World::new(h);
        w.avoid_overcommit = avoid_overcommit;
        for op in &h.ops {
            let rec = w.apply(op)?;
            w.log.push(format!("#{} {} api={:?} calls={:?} events={:?}", rec.step, rec.op, rec.api_result, rec.calls, rec.events));
            each(&mut w, &rec)?;
        }
        let order = h.drain.clone();
        w.drain(&order, |w, rec| {
            w.log.push(format!("#{} {} calls={:?} events={:?}", rec.step, rec.op, rec.calls, rec.events));
            each(w, rec)
        })?;
        end(&mut w)?;
        Ok(w)
    })
}
