//! Counting global allocator: per-thread live bytes and peak, so that a property can bound the heap
//! growth of one decoder call.

use std::alloc::{GlobalAlloc, Layout, System};
use std::cell::Cell;

thread_local! {
    static LIVE: Cell<isize> = const { Cell::new(0) };
    static PEAK: Cell<isize> = const { Cell::new(0) };
}

pub struct Counting;

#[inline]
fn add(n: isize) {
    let _ = LIVE.try_with(|l| {
        let v = l.get() + n;
        l.set(v);
        let _ = PEAK.try_with(|p| {
            if v > p.get() {
                p.set(v);
            }
        });
    });
}

unsafe impl GlobalAlloc for Counting {
    unsafe fn alloc(&self, layout: Layout) -> *mut u8 {
        let p = System.alloc(layout);
        if !p.is_null() {
            add(layout.size() as isize);
        }
        p
    }
    unsafe fn dealloc(&self, ptr: *mut u8, layout: Layout) {
        System.dealloc(ptr, layout);
        add(-(layout.size() as isize));
    }
    unsafe fn alloc_zeroed(&self, layout: Layout) -> *mut u8 {
        let p = System.alloc_zeroed(layout);
        if !p.is_null() {
            add(layout.size() as isize);
        }
        p
    }
    unsafe fn realloc(&self, ptr: *mut u8, layout: Layout, new_size: usize) -> *mut u8 {
        let p = System.realloc(ptr, layout, new_size);
        if !p.is_null() {
            add(new_size as isize - layout.size() as isize);
        }
        p
    }
}

/// Runs `f` and returns its result with the peak heap growth (bytes) of the current thread during the call.
pub fn measure<R>(f: impl FnOnce() -> R) -> (R, usize) {
    let base = LIVE.with(|l| l.get());
    PEAK.with(|p| p.set(base));
    let r = f();
    let peak = PEAK.with(|p| p.get());
    (r, (peak - base).max(0) as usize)
}
