//! Campaign engine: seeded proptest runner, classification counters, evidence writer,
//! known-finding matcher, replay, panic capture, watchdog.
//!
//! Contract (see /verif/DESIGN.md §2.4):
//!   exit 0  property held on everything explored (KNOWN-FINDING lines allowed)
//!   exit 1  `VIOLATION property=<id> replay=<path>` for a violation that is not a listed finding
//!   exit 2  harness trouble (watchdog, calibration, bad arguments) — never a verdict

use proptest::strategy::{Strategy, ValueTree};
use proptest::test_runner::{Config, RngSeed, TestCaseError, TestError, TestRunner};
use serde::{de::DeserializeOwned, Deserialize, Serialize};
use serde_json::{json, Value};
use std::cell::RefCell;
use std::collections::{BTreeMap, BTreeSet, HashSet};
use std::fmt::Debug;
use std::hash::{Hash, Hasher};
use std::panic::{catch_unwind, AssertUnwindSafe};
use std::path::{Path, PathBuf};

use std::sync::{Mutex, OnceLock};
use std::time::Instant;

pub const VERIF_ROOT: &str = "/verif";

/// Where evidence and new failure files are written (default /verif; mutant runs redirect it).
pub fn out_root() -> PathBuf {
    std::env::var("VERIF_OUT").map(PathBuf::from).unwrap_or_else(|_| PathBuf::from(VERIF_ROOT))
}

#[derive(Clone, Copy, Debug, PartialEq, Eq)]
pub enum Tier {
    Quick,
    Thorough,
}

impl Tier {
    pub fn name(self) -> &'static str {
        match self {
            Tier::Quick => "quick",
            Tier::Thorough => "thorough",
        }
    }
    /// Pick a fixed amount of work per tier.
    pub fn pick<T>(self, quick: T, thorough: T) -> T {
        match self {
            Tier::Quick => quick,
            Tier::Thorough => thorough,
        }
    }
}

/// What a passing case reports back.
#[derive(Default, Debug, Clone)]
pub struct CaseOk {
    /// Non-trivial by the property's stated rule.
    pub nontrivial: bool,
    /// Class labels (generator distribution measurement).
    pub classes: Vec<&'static str>,
    /// The case was steered away from / skipped because of a known finding.
    pub excluded: bool,
    /// Optional short observed-outcome note stored with samples.
    pub note: Option<String>,
}

impl CaseOk {
    pub fn trivial() -> Self {
        Self::default()
    }
    pub fn nontrivial() -> Self {
        Self {
            nontrivial: true,
            ..Default::default()
        }
    }
    pub fn class(mut self, c: &'static str) -> Self {
        self.classes.push(c);
        self
    }
    pub fn class_if(mut self, cond: bool, c: &'static str) -> Self {
        if cond {
            self.classes.push(c);
        }
        self
    }
    pub fn nt(mut self, cond: bool) -> Self {
        self.nontrivial = self.nontrivial || cond;
        self
    }
    pub fn note(mut self, n: impl Into<String>) -> Self {
        self.note = Some(n.into());
        self
    }
}

/// A failing case: `signature` identifies the oracle clause + structural trigger,
/// `message` carries the details.
#[derive(Debug, Clone, Serialize, Deserialize)]
pub struct CaseFail {
    pub signature: String,
    pub message: String,
}

impl CaseFail {
    pub fn new(signature: impl Into<String>, message: impl Into<String>) -> Self {
        Self {
            signature: signature.into(),
            message: message.into(),
        }
    }
}

pub type CaseResult = Result<CaseOk, CaseFail>;

#[macro_export]
macro_rules! ensure {
    ($cond:expr, $sig:expr, $($arg:tt)*) => {
        if !($cond) {
            return Err($crate::engine::CaseFail::new($sig, format!($($arg)*)));
        }
    };
}

#[macro_export]
macro_rules! fail {
    ($sig:expr, $($arg:tt)*) => {
        return Err($crate::engine::CaseFail::new($sig, format!($($arg)*)))
    };
}

#[derive(Debug, Clone, Serialize, Deserialize)]
pub struct KnownFinding {
    pub property: String,
    pub signature: String,
    pub what: String,
    #[serde(default)]
    pub replay: Option<String>,
    /// "known" | "fixed"
    pub status: String,
    #[serde(default)]
    pub commit: Option<String>,
}

#[derive(Debug, Clone, Serialize, Deserialize)]
pub struct ReplayFile {
    pub property: String,
    pub sub: String,
    pub case: Value,
    #[serde(default)]
    pub signature: String,
    #[serde(default)]
    pub message: String,
    #[serde(default)]
    pub note: String,
}

#[derive(Default)]
struct SubStats {
    evaluations: u64,
    nontrivial_hashes: HashSet<u64>,
    classes: BTreeMap<String, u64>,
    excluded: u64,
    samples: Vec<Value>,
    nt_seen: u64,
    exhaustive: bool,
}

pub enum Mode {
    Generate,
    /// Run the given replay files through the matching campaigns, generate nothing.
    Replay(Vec<(PathBuf, ReplayFile)>),
}

/// Debugging aid: VERIF_ONLY=<campaign>[,<campaign>] runs only those campaigns. Honoured only together with VERIF_OUT
/// (scratch output directory), so that a registered check always runs all of its campaigns.
fn only_skips(sub: &str) -> bool {
    match (std::env::var("VERIF_ONLY"), std::env::var("VERIF_OUT")) {
        (Ok(only), Ok(_)) => !only.split(',').any(|o| o == sub),
        _ => false,
    }
}

/// Outcome of one byte-level fuzz input: the campaign whose case type can replay it, the case, and the verdict.
pub struct FuzzOutcome {
    pub sub: String,
    pub case: Value,
    pub result: CaseResult,
}

pub struct Violation {
    pub sub: String,
    pub signature: String,
    pub message: String,
    pub replay_path: PathBuf,
}

pub struct Ctx {
    pub prop: String,
    pub tier: Tier,
    pub seed: u64,
    pub mode: Mode,
    pub known: Vec<KnownFinding>,
    pub rule: String,
    pub assumptions: Vec<String>,
    pub extra: BTreeMap<String, Value>,
    subs: BTreeMap<String, SubStats>,
    sub_order: Vec<String>,
    pub known_hits: BTreeMap<String, u64>,
    pub violations: Vec<Violation>,
    pub replays_run: u64,
    pub replay_results: Vec<(PathBuf, Option<CaseFail>)>,
    pub inconclusive: Vec<String>,
    /// Stop the remaining campaigns after the first violation (default true).
    pub stop_on_violation: bool,
    start: Instant,
}

pub struct CampaignCfg {
    pub cases: u32,
    pub shards: usize,
    pub max_shrink_iters: u32,
}

impl CampaignCfg {
    pub fn new(cases: u32) -> Self {
        Self {
            cases,
            shards: 1,
            max_shrink_iters: 2000,
        }
    }
    pub fn shards(mut self, n: usize) -> Self {
        self.shards = n.max(1);
        self
    }
    pub fn shrink_iters(mut self, n: u32) -> Self {
        self.max_shrink_iters = n;
        self
    }
}

fn fnv(s: &str) -> u64 {
    let mut h: u64 = 0xcbf29ce484222325;
    for b in s.as_bytes() {
        h ^= *b as u64;
        h = h.wrapping_mul(0x100000001b3);
    }
    h
}

pub fn mix(a: u64, b: u64) -> u64 {
    let mut x = a ^ b.wrapping_mul(0x9E3779B97F4A7C15);
    x ^= x >> 30;
    x = x.wrapping_mul(0xBF58476D1CE4E5B9);
    x ^= x >> 27;
    x = x.wrapping_mul(0x94D049BB133111EB);
    x ^= x >> 31;
    x
}

fn hash_value(v: &Value) -> u64 {
    let mut h = std::collections::hash_map::DefaultHasher::new();
    v.to_string().hash(&mut h);
    h.finish()
}

// ---------------------------------------------------------------------------------------------
// panic capture

#[derive(Clone, Debug)]
pub struct PanicRec {
    pub thread: String,
    pub location: String,
    pub message: String,
}

thread_local! {
    static LAST_PANIC: RefCell<Option<PanicRec>> = const { RefCell::new(None) };
}

static ALL_PANICS: Mutex<Vec<PanicRec>> = Mutex::new(Vec::new());
static HARNESS_TROUBLE: Mutex<Vec<String>> = Mutex::new(Vec::new());
static HOOK: OnceLock<()> = OnceLock::new();

pub fn install_panic_hook() {
    HOOK.get_or_init(|| {
        let verbose = std::env::var("VERIF_VERBOSE").is_ok();
        let prev = std::panic::take_hook();
        std::panic::set_hook(Box::new(move |info| {
            let location = info
                .location()
                .map(|l| {
                    let f = l.file();
                    // make the signature independent of where the registry / repo lives
                    let f = f.rsplit_once("/src/").map(|(_, t)| format!("src/{t}")).unwrap_or(f.to_string());
                    format!("{}:{}", f, l.line())
                })
                .unwrap_or_else(|| "unknown".into());
            let message = if let Some(s) = info.payload().downcast_ref::<&str>() {
                s.to_string()
            } else if let Some(s) = info.payload().downcast_ref::<String>() {
                s.clone()
            } else {
                "<non-string panic>".into()
            };
            let rec = PanicRec {
                thread: std::thread::current().name().unwrap_or("").to_string(),
                location,
                message,
            };
            LAST_PANIC.with(|p| *p.borrow_mut() = Some(rec.clone()));
            if let Ok(mut all) = ALL_PANICS.lock() {
                if all.len() < 10_000 {
                    all.push(rec);
                }
            }
            if verbose {
                prev(info);
            }
        }));
    });
}

/// Panics recorded on threads whose name starts with `prefix` (F4 harness threads); drains them.
pub fn take_panics_with_prefix(prefix: &str) -> Vec<PanicRec> {
    let mut all = ALL_PANICS.lock().unwrap();
    let mut out = Vec::new();
    all.retain(|p| {
        if p.thread.starts_with(prefix) {
            out.push(p.clone());
            false
        } else {
            true
        }
    });
    out
}

/// Run `f`, turning a panic into a `CaseFail` whose signature carries the panic location.
pub fn guarded<R>(f: impl FnOnce() -> Result<R, CaseFail>) -> Result<R, CaseFail> {
    LAST_PANIC.with(|p| *p.borrow_mut() = None);
    match catch_unwind(AssertUnwindSafe(f)) {
        Ok(r) => r,
        Err(_) => {
            let rec = LAST_PANIC.with(|p| p.borrow_mut().take());
            let (loc, msg) = rec
                .map(|r| (r.location, r.message))
                .unwrap_or(("unknown".into(), "panic".into()));
            let short: String = msg.chars().take(300).collect();
            Err(CaseFail::new(format!("panic@{loc}"), short))
        }
    }
}

// ---------------------------------------------------------------------------------------------
// watchdog

/// start time (ms) of the case each shard thread is running, 0 = between cases; one slot per thread
static CASE_STARTED: std::sync::Mutex<Vec<(std::thread::ThreadId, u64)>> = std::sync::Mutex::new(Vec::new());
static WATCHDOG: OnceLock<Instant> = OnceLock::new();

fn now_ms() -> u64 {
    WATCHDOG.get_or_init(Instant::now).elapsed().as_millis() as u64
}

/// Starts a watchdog thread: when a single case runs longer than `limit_s` the process exits 2
/// (inconclusive, never a violation).
pub fn start_watchdog(limit_s: u64) {
    let _ = now_ms();
    start_stall_monitor();
    std::thread::Builder::new()
        .name("watchdog".into())
        .spawn(move || loop {
            std::thread::sleep(std::time::Duration::from_millis(500));
            let started = CASE_STARTED.lock().map(|v| v.iter().map(|e| e.1).filter(|t| *t != 0).min().unwrap_or(0)).unwrap_or(0);
            if started != 0 && now_ms().saturating_sub(started) > limit_s * 1000 {
                eprintln!("INCONCLUSIVE: watchdog: a case ran longer than {limit_s}s");
                println!("INCONCLUSIVE watchdog");
                std::process::exit(2);
            }
        })
        .ok();
}

/// Moments at which the whole process (or machine) stood still: a monitor thread sleeps 50 ms at a time and records every
/// wake-up that came more than a second late (a paused or heavily overloaded machine). A case that fails while such a
/// stall happened is inconclusive: every wall-clock deadline in it may have been missed for reasons outside the code
/// under test.
static STALLS: Mutex<Vec<(std::time::Instant, std::time::Duration)>> = Mutex::new(Vec::new());

fn start_stall_monitor() {
    static STARTED: OnceLock<()> = OnceLock::new();
    STARTED.get_or_init(|| {
        std::thread::Builder::new()
            .name("stall-monitor".into())
            .spawn(|| loop {
                let before = std::time::Instant::now();
                std::thread::sleep(std::time::Duration::from_millis(50));
                let late = before.elapsed().saturating_sub(std::time::Duration::from_millis(50));
                if late > std::time::Duration::from_millis(1000) {
                    if let Ok(mut v) = STALLS.lock() {
                        v.push((std::time::Instant::now(), late));
                        if v.len() > 256 {
                            v.remove(0);
                        }
                    }
                }
            })
            .ok();
    });
}

/// The longest stall that ended after `t`, if any.
pub fn stalled_since(t: std::time::Instant) -> Option<std::time::Duration> {
    STALLS.lock().ok().and_then(|v| v.iter().filter(|(end, _)| *end >= t).map(|(_, d)| *d).max())
}

/// Runs one case; a failure that coincides with a machine stall becomes harness trouble (inconclusive).
fn judged<F: FnOnce() -> CaseResult>(f: F) -> CaseResult {
    let started = std::time::Instant::now();
    let r = guarded(f);
    match r {
        Err(fail) if !fail.signature.contains("/harness-") => match stalled_since(started) {
            Some(d) => Err(CaseFail::new("engine/harness-machine-stalled", format!("the process stood still for {} ms while this case ran; its failure ([{}] {}) is not judged", d.as_millis(), fail.signature, fail.message))),
            None => Err(fail),
        },
        other => other,
    }
}

pub fn case_begin() {
    set_case_started(now_ms().max(1));
}
pub fn case_end() {
    set_case_started(0);
}
fn set_case_started(v: u64) {
    let me = std::thread::current().id();
    if let Ok(mut slots) = CASE_STARTED.lock() {
        match slots.iter_mut().find(|e| e.0 == me) {
            Some(e) => e.1 = v,
            None => slots.push((me, v)),
        }
    }
}

// ---------------------------------------------------------------------------------------------

struct ShardOut<T> {
    stats: SubStats,
    known_hits: BTreeMap<String, u64>,
    failure: Option<(T, CaseFail)>,
}

impl Ctx {
    pub fn new(prop: &str, tier: Tier, seed: u64, mode: Mode, known: Vec<KnownFinding>) -> Self {
        Self {
            prop: prop.to_string(),
            tier,
            seed,
            mode,
            known,
            rule: String::new(),
            assumptions: Vec::new(),
            extra: BTreeMap::new(),
            subs: BTreeMap::new(),
            sub_order: Vec::new(),
            known_hits: BTreeMap::new(),
            violations: Vec::new(),
            replays_run: 0,
            replay_results: Vec::new(),
            inconclusive: Vec::new(),
            stop_on_violation: true,
            start: Instant::now(),
        }
    }

    pub fn is_generate(&self) -> bool {
        matches!(self.mode, Mode::Generate)
    }

    pub fn is_known(&self, signature: &str) -> bool {
        self.known
            .iter()
            .any(|k| k.status == "known" && k.signature == signature)
    }

    /// Is the known finding with this signature still listed as open (status "known")?
    /// Generators use this to steer away from the trigger and count `excluded`.
    pub fn avoid(&self, signature: &str) -> bool {
        self.is_known(signature) || load_all_known().iter().any(|k| k.status == "known" && k.signature == signature)
    }

    fn sub_mut(&mut self, sub: &str) -> &mut SubStats {
        if !self.subs.contains_key(sub) {
            self.sub_order.push(sub.to_string());
        }
        self.subs.entry(sub.to_string()).or_default()
    }

    fn should_skip(&self) -> bool {
        self.stop_on_violation && !self.violations.is_empty()
    }

    fn record_violation<T: Serialize>(&mut self, sub: &str, case: &T, fail: CaseFail) {
        let case_v = serde_json::to_value(case).unwrap_or(Value::Null);
        let rf = ReplayFile {
            property: self.prop.clone(),
            sub: sub.to_string(),
            case: case_v,
            signature: fail.signature.clone(),
            message: fail.message.clone(),
            note: String::new(),
        };
        let text = serde_json::to_string_pretty(&rf).unwrap();
        let dir = out_root().join("failures").join(&self.prop);
        let _ = std::fs::create_dir_all(&dir);
        let path = dir.join(format!("{}-{:016x}.json", sub, fnv(&text)));
        let _ = std::fs::write(&path, text);
        eprintln!(
            "violation in {}/{}: [{}] {}",
            self.prop, sub, fail.signature, fail.message
        );
        self.violations.push(Violation {
            sub: sub.to_string(),
            signature: fail.signature,
            message: fail.message,
            replay_path: path,
        });
    }

    /// Run the replay files that belong to `sub` (Replay mode). Returns true if in replay mode.
    fn run_replays<T, F>(&mut self, sub: &str, f: &F) -> bool
    where
        T: DeserializeOwned,
        F: Fn(&T) -> CaseResult,
    {
        let files: Vec<(PathBuf, ReplayFile)> = match &self.mode {
            Mode::Generate => return false,
            Mode::Replay(files) => files.iter().filter(|(_, r)| r.sub == sub).cloned().collect(),
        };
        for (path, rf) in files {
            self.replays_run += 1;
            let case: T = match serde_json::from_value(rf.case.clone()) {
                Ok(c) => c,
                Err(e) => {
                    self.inconclusive
                        .push(format!("replay {} does not decode: {e}", path.display()));
                    continue;
                }
            };
            // the replay of a listed known finding that depends on the schedule is repeated until it shows (at most 6 times), so
            // that the KNOWN-FINDING line is printed reliably; any other replay runs once
            let listed_known = self.known.iter().any(|k| k.status == "known" && k.signature == rf.signature);
            let attempts = if listed_known { 6 } else { 1 };
            let mut outcome = None;
            for _ in 0..attempts {
                case_begin();
                let r = judged(|| f(&case));
                case_end();
                outcome = r.err();
                if outcome.is_some() {
                    break;
                }
            }
            self.replay_results.push((path, outcome));
        }
        true
    }

    /// Generated campaign: `cases` cases drawn from `strategy()`, judged by `f`.
    pub fn campaign<T, S, MK, F>(&mut self, sub: &str, cfg: CampaignCfg, strategy: MK, f: F)
    where
        T: Debug + Clone + Serialize + DeserializeOwned + Send,
        S: Strategy<Value = T>,
        MK: Fn() -> S + Sync,
        F: Fn(&T) -> CaseResult + Sync,
    {
        if self.run_replays::<T, F>(sub, &f) {
            return;
        }
        if self.should_skip() || only_skips(sub) {
            return;
        }
        let shards = cfg.shards.max(1);
        let per = (cfg.cases as usize).div_ceil(shards) as u32;
        let known: Vec<String> = self
            .known
            .iter()
            .filter(|k| k.status == "known")
            .map(|k| k.signature.clone())
            .collect();
        let base_seed = mix(mix(self.seed, fnv(&self.prop)), fnv(sub));
        let run_shard = |shard: usize| -> ShardOut<T> {
            let mut config = Config::default();
            config.cases = per;
            config.failure_persistence = None;
            config.rng_seed = RngSeed::Fixed(mix(base_seed, shard as u64));
            config.max_shrink_iters = cfg.max_shrink_iters;
            config.max_shrink_time = 0;
            config.verbose = 0;
            config.max_global_rejects = 1_000_000;
            let mut runner = TestRunner::new(config);
            let state = RefCell::new((SubStats::default(), BTreeMap::<String, u64>::new(), None::<CaseFail>, false));
            let strat = strategy();
            let res = runner.run(&strat, |case| {
                case_begin();
                let r = judged(|| f(&case));
                case_end();
                let mut st = state.borrow_mut();
                let failed_already = st.3;
                match r {
                    Ok(ok) => {
                        if !failed_already {
                            account(&mut st.0, &case, &ok);
                        }
                        Ok(())
                    }
                    Err(fail) => {
                        if fail.signature.contains("/harness-") {
                            // harness trouble inside a case (calibration, fixture set-up): inconclusive, never a verdict
                            if !failed_already {
                                st.0.evaluations += 1;
                                *st.0.classes.entry("inconclusive-harness".to_string()).or_default() += 1;
                                HARNESS_TROUBLE.lock().unwrap().push(format!("[{}] {}", fail.signature, fail.message));
                            }
                            Ok(())
                        } else if known.iter().any(|k| *k == fail.signature) {
                            if !failed_already {
                                st.0.evaluations += 1;
                                *st.1.entry(fail.signature.clone()).or_default() += 1;
                            }
                            Ok(())
                        } else {
                            st.3 = true;
                            let sig = fail.signature.clone();
                            st.2 = Some(fail);
                            Err(TestCaseError::fail(sig))
                        }
                    }
                }
            });
            let (stats, hits, last_fail, _) = state.into_inner();
            let failure = match res {
                Ok(()) => None,
                Err(TestError::Fail(_, value)) => {
                    // re-judge the minimal case to get its own signature / message
                    case_begin();
                    let again = guarded(|| f(&value));
                    case_end();
                    let fail = match again {
                        Err(e) => e,
                        Ok(_) => last_fail
                            .map(|mut lf| {
                                lf.message = format!("(not reproduced on re-run) {}", lf.message);
                                lf
                            })
                            .unwrap_or(CaseFail::new("unknown", "failure lost")),
                    };
                    Some((value, fail))
                }
                Err(TestError::Abort(reason)) => {
                    eprintln!("INCONCLUSIVE: proptest aborted: {reason}");
                    println!("INCONCLUSIVE proptest-abort {reason}");
                    std::process::exit(2);
                }
            };
            ShardOut {
                stats,
                known_hits: hits,
                failure,
            }
        };
        let outs: Vec<ShardOut<T>> = if shards == 1 {
            vec![run_shard(0)]
        } else {
            std::thread::scope(|s| {
                let hs: Vec<_> = (0..shards)
                    .map(|i| {
                        let rs = &run_shard;
                        std::thread::Builder::new()
                            .name(format!("shard-{i}"))
                            .stack_size(16 << 20)
                            .spawn_scoped(s, move || rs(i))
                            .unwrap()
                    })
                    .collect();
                hs.into_iter().map(|h| h.join().expect("shard thread")).collect()
            })
        };
        let mut first_fail = None;
        for out in outs {
            let st = self.sub_mut(sub);
            merge(st, out.stats);
            for (k, v) in out.known_hits {
                *self.known_hits.entry(k).or_default() += v;
            }
            if first_fail.is_none() {
                first_fail = out.failure;
            }
        }
        if let Some((case, fail)) = first_fail {
            self.record_violation(sub, &case, fail);
        }
    }

    /// Exhaustive (or otherwise externally enumerated) campaign; no shrinking.
    pub fn enumerate<T, I, F>(&mut self, sub: &str, exhaustive: bool, cases: I, f: F)
    where
        T: Debug + Clone + Serialize + DeserializeOwned,
        I: IntoIterator<Item = T>,
        F: Fn(&T) -> CaseResult,
    {
        if self.run_replays::<T, F>(sub, &f) {
            return;
        }
        if self.should_skip() || only_skips(sub) {
            return;
        }
        let known: Vec<String> = self
            .known
            .iter()
            .filter(|k| k.status == "known")
            .map(|k| k.signature.clone())
            .collect();
        let mut stats = SubStats::default();
        stats.exhaustive = exhaustive;
        let mut failure = None;
        for case in cases {
            case_begin();
            let r = judged(|| f(&case));
            case_end();
            match r {
                Ok(ok) => account(&mut stats, &case, &ok),
                Err(fail) => {
                    stats.evaluations += 1;
                    if known.iter().any(|k| *k == fail.signature) {
                        *self.known_hits.entry(fail.signature.clone()).or_default() += 1;
                    } else {
                        failure = Some((case, fail));
                        break;
                    }
                }
            }
        }
        let st = self.sub_mut(sub);
        merge(st, stats);
        if let Some((case, fail)) = failure {
            self.record_violation(sub, &case, fail);
        }
    }

    /// Exhaustive enumeration of an indexed finite space, split over `shards` threads (index i goes to shard i % shards).
    /// No shrinking: of the failures found, the one with the smallest index is reported (spaces are indexed shortest first).
    pub fn enumerate_indexed<T, G, F>(&mut self, sub: &str, total: u64, shards: usize, gen: G, f: F)
    where
        T: Debug + Clone + Serialize + DeserializeOwned + Send,
        G: Fn(u64) -> T + Sync,
        F: Fn(&T) -> CaseResult + Sync,
    {
        if self.run_replays::<T, F>(sub, &f) {
            return;
        }
        if self.should_skip() || only_skips(sub) {
            return;
        }
        let known: Vec<String> = self.known.iter().filter(|k| k.status == "known").map(|k| k.signature.clone()).collect();
        let shards = shards.max(1);
        let stop = std::sync::atomic::AtomicBool::new(false);
        let run_shard = |shard: usize| -> (SubStats, BTreeMap<String, u64>, Option<(u64, T, CaseFail)>) {
            let mut stats = SubStats::default();
            let mut hits: BTreeMap<String, u64> = BTreeMap::new();
            let mut failure = None;
            let mut i = shard as u64;
            while i < total {
                if stop.load(std::sync::atomic::Ordering::Relaxed) {
                    break;
                }
                let case = gen(i);
                case_begin();
                let r = judged(|| f(&case));
                case_end();
                match r {
                    Ok(ok) => account(&mut stats, &case, &ok),
                    Err(fail) => {
                        stats.evaluations += 1;
                        if fail.signature.contains("/harness-") {
                            *stats.classes.entry("inconclusive-harness".to_string()).or_default() += 1;
                            HARNESS_TROUBLE.lock().unwrap().push(format!("[{}] {}", fail.signature, fail.message));
                        } else if known.iter().any(|k| *k == fail.signature) {
                            *hits.entry(fail.signature.clone()).or_default() += 1;
                        } else {
                            failure = Some((i, case, fail));
                            stop.store(true, std::sync::atomic::Ordering::Relaxed);
                            break;
                        }
                    }
                }
                i += shards as u64;
            }
            (stats, hits, failure)
        };
        let outs: Vec<_> = std::thread::scope(|s| {
            let hs: Vec<_> = (0..shards)
                .map(|k| {
                    let rs = &run_shard;
                    std::thread::Builder::new().name(format!("shard-{k}")).stack_size(16 << 20).spawn_scoped(s, move || rs(k)).unwrap()
                })
                .collect();
            hs.into_iter().map(|h| h.join().expect("shard thread")).collect()
        });
        let mut first: Option<(u64, T, CaseFail)> = None;
        let mut complete = true;
        for (stats, hits, failure) in outs {
            let st = self.sub_mut(sub);
            merge(st, stats);
            for (k, v) in hits {
                *self.known_hits.entry(k).or_default() += v;
            }
            if let Some(fl) = failure {
                complete = false;
                if first.as_ref().map(|x| fl.0 < x.0).unwrap_or(true) {
                    first = Some(fl);
                }
            }
        }
        self.sub_mut(sub).exhaustive = complete;
        if let Some((_, case, fail)) = first {
            self.record_violation(sub, &case, fail);
        }
    }

    pub fn wall_s(&self) -> f64 {
        self.start.elapsed().as_secs_f64()
    }

    pub fn evidence(&self, known_confirmed: &[String]) -> Value {
        let mut evaluations = 0u64;
        let mut all_nt: HashSet<u64> = HashSet::new();
        let mut classes: BTreeMap<String, u64> = BTreeMap::new();
        let mut excluded = 0u64;
        let mut samples: Vec<Value> = Vec::new();
        let mut subs = Vec::new();
        let mut all_exhaustive = !self.subs.is_empty();
        for name in &self.sub_order {
            let st = &self.subs[name];
            evaluations += st.evaluations;
            for h in &st.nontrivial_hashes {
                all_nt.insert(mix(*h, fnv(name)));
            }
            for (k, v) in &st.classes {
                *classes.entry(format!("{name}/{k}")).or_default() += v;
            }
            excluded += st.excluded;
            for s in st.samples.iter().take(3) {
                samples.push(json!({"sub": name, "case": s}));
            }
            all_exhaustive &= st.exhaustive;
            subs.push(json!({
                "name": name,
                "evaluations": st.evaluations,
                "distinct_nontrivial": st.nontrivial_hashes.len(),
                "excluded": st.excluded,
                "exhaustive": st.exhaustive,
            }));
        }
        let mut coverage = serde_json::Map::new();
        coverage.insert("evaluations".into(), json!(evaluations));
        coverage.insert("distinct_nontrivial".into(), json!(all_nt.len()));
        coverage.insert("rule".into(), json!(self.rule));
        coverage.insert("samples".into(), Value::Array(samples));
        coverage.insert("classes".into(), json!(classes));
        coverage.insert("excluded".into(), json!(excluded));
        coverage.insert("known_findings_confirmed".into(), json!(known_confirmed));
        coverage.insert("known_finding_hits_in_campaign".into(), json!(self.known_hits));
        coverage.insert("replays_run".into(), json!(self.replays_run));
        coverage.insert("campaigns".into(), Value::Array(subs));
        if all_exhaustive {
            coverage.insert("exhaustive".into(), json!(true));
        }
        for (k, v) in &self.extra {
            coverage.insert(k.clone(), v.clone());
        }
        json!({
            "property_id": self.prop,
            "tier": self.tier.name(),
            "seed": self.seed,
            "level": "exploration",
            "coverage": Value::Object(coverage),
            "assumptions": self.assumptions,
            "wall_s": (self.wall_s() * 1000.0).round() / 1000.0,
            "violations": self.violations.len(),
        })
    }
}

fn account<T: Serialize>(st: &mut SubStats, case: &T, ok: &CaseOk) {
    st.evaluations += 1;
    for c in &ok.classes {
        *st.classes.entry(c.to_string()).or_default() += 1;
    }
    if ok.excluded {
        st.excluded += 1;
    }
    if ok.nontrivial {
        let v = serde_json::to_value(case).unwrap_or(Value::Null);
        let h = hash_value(&v);
        if st.nontrivial_hashes.insert(h) {
            st.nt_seen += 1;
            let n = st.nt_seen;
            // keep the 1st, 2nd, 10th, 100th, 1000th … distinct non-trivial case as samples
            if n <= 2 || n == 10 || n == 100 || n == 1000 || n == 10_000 {
                let mut s = json!({"case": v, "classes": ok.classes});
                if let Some(note) = &ok.note {
                    s["observed"] = json!(note);
                }
                let txt = s.to_string();
                if txt.len() > 6000 {
                    let cut: String = txt.chars().take(6000).collect();
                    s = json!({"truncated_case_json": cut});
                }
                st.samples.push(s);
            }
        }
    }
}

fn merge(into: &mut SubStats, from: SubStats) {
    into.evaluations += from.evaluations;
    into.excluded += from.excluded;
    into.exhaustive = from.exhaustive || (into.exhaustive && from.evaluations == 0);
    for (k, v) in from.classes {
        *into.classes.entry(k).or_default() += v;
    }
    for h in from.nontrivial_hashes {
        into.nontrivial_hashes.insert(h);
    }
    for s in from.samples {
        if into.samples.len() < 8 {
            into.samples.push(s);
        }
    }
    into.nt_seen += from.nt_seen;
}

pub fn load_all_known() -> Vec<KnownFinding> {
    // the file is never written at run time: read it once per process
    static ALL: OnceLock<Vec<KnownFinding>> = OnceLock::new();
    ALL.get_or_init(|| {
        let path = Path::new(VERIF_ROOT).join("known_findings.json");
        std::fs::read_to_string(&path).ok().and_then(|t| serde_json::from_str(&t).ok()).unwrap_or_default()
    })
    .clone()
}

pub fn load_known(prop: &str) -> Vec<KnownFinding> {
    let path = Path::new(VERIF_ROOT).join("known_findings.json");
    let Ok(text) = std::fs::read_to_string(&path) else {
        return Vec::new();
    };
    let all: Vec<KnownFinding> = match serde_json::from_str(&text) {
        Ok(v) => v,
        Err(e) => {
            eprintln!("INCONCLUSIVE: known_findings.json does not parse: {e}");
            std::process::exit(2);
        }
    };
    all.into_iter().filter(|k| k.property == prop).collect()
}

pub fn load_replays(prop: &str) -> Vec<(PathBuf, ReplayFile)> {
    let dir = Path::new(VERIF_ROOT).join("replays").join(prop);
    let mut out = Vec::new();
    let Ok(rd) = std::fs::read_dir(&dir) else {
        return out;
    };
    let mut paths: BTreeSet<PathBuf> = BTreeSet::new();
    for e in rd.flatten() {
        let p = e.path();
        if p.extension().map(|e| e == "json").unwrap_or(false) {
            paths.insert(p);
        }
    }
    for p in paths {
        match std::fs::read_to_string(&p).ok().and_then(|t| serde_json::from_str::<ReplayFile>(&t).ok()) {
            Some(rf) => out.push((p, rf)),
            None => {
                eprintln!("INCONCLUSIVE: replay file {} does not parse", p.display());
                std::process::exit(2);
            }
        }
    }
    out
}

pub type PropFn = fn(&mut Ctx);

/// Drive one property: replay tier, then generated campaigns, then evidence and exit code.
pub fn drive(prop: &str, tier: Tier, seed: u64, single_replay: Option<PathBuf>, run: PropFn) -> i32 {
    install_panic_hook();
    let known = load_known(prop);
    let mut exit = 0;

    // --replay FILE: strict single replay
    if let Some(path) = single_replay {
        let text = match std::fs::read_to_string(&path) {
            Ok(t) => t,
            Err(e) => {
                eprintln!("cannot read {}: {e}", path.display());
                return 2;
            }
        };
        let rf: ReplayFile = match serde_json::from_str(&text) {
            Ok(r) => r,
            Err(e) => {
                eprintln!("cannot parse {}: {e}", path.display());
                return 2;
            }
        };
        let mut ctx = Ctx::new(prop, tier, seed, Mode::Replay(vec![(path.clone(), rf)]), known.clone());
        run(&mut ctx);
        if ctx.replay_results.is_empty() {
            eprintln!("no campaign named in {} exists for {prop}", path.display());
            return 2;
        }
        for (p, r) in &ctx.replay_results {
            match r {
                None => println!("replay {} passes", p.display()),
                Some(f) => {
                    println!("replay {} fails: [{}] {}", p.display(), f.signature, f.message);
                    if f.signature.contains("/harness-") {
                        println!("INCONCLUSIVE harness trouble");
                        exit = 2;
                    } else if ctx.is_known(&f.signature) {
                        println!("KNOWN-FINDING: property={prop} {}", f.signature);
                    } else {
                        println!("VIOLATION property={prop} replay={}", p.display());
                        exit = 1;
                    }
                }
            }
        }
        return exit;
    }

    // 1. replay tier
    let replays = load_replays(prop);
    let mut known_confirmed: Vec<String> = Vec::new();
    let mut replays_run = 0;
    let mut violation_lines: Vec<String> = Vec::new();
    if !replays.is_empty() {
        let mut rctx = Ctx::new(prop, tier, seed, Mode::Replay(replays), known.clone());
        run(&mut rctx);
        replays_run = rctx.replays_run;
        for msg in &rctx.inconclusive {
            eprintln!("INCONCLUSIVE: {msg}");
            exit = 2;
        }
        for (p, r) in &rctx.replay_results {
            if let Some(f) = r {
                if f.signature.contains("/harness-") {
                    eprintln!("INCONCLUSIVE: replay {} hit harness trouble: {}", p.display(), f.message);
                    exit = 2;
                } else if let Some(k) = known.iter().find(|k| k.status == "known" && k.signature == f.signature) {
                    if !known_confirmed.contains(&k.signature) {
                        println!("KNOWN-FINDING: property={prop} {} — {}", k.signature, k.what);
                        known_confirmed.push(k.signature.clone());
                    }
                } else {
                    eprintln!("replay {} fails: [{}] {}", p.display(), f.signature, f.message);
                    violation_lines.push(format!("VIOLATION property={prop} replay={}", p.display()));
                }
            }
        }
    }

    // 2. generated campaigns
    let mut ctx = Ctx::new(prop, tier, seed, Mode::Generate, known.clone());
    ctx.replays_run = replays_run;
    if violation_lines.is_empty() {
        // a panic outside a case is harness trouble, never a verdict
        if catch_unwind(AssertUnwindSafe(|| run(&mut ctx))).is_err() {
            let p = LAST_PANIC.with(|p| p.borrow_mut().take());
            eprintln!("INCONCLUSIVE: harness panicked outside a case: {:?}", p);
            println!("INCONCLUSIVE harness-panic");
            return 2;
        }
    }
    let want_fuzz = tier == Tier::Thorough || std::env::var("VERIF_FUZZ").is_ok();
    if want_fuzz && violation_lines.is_empty() && ctx.violations.is_empty() && FUZZABLE.contains(&prop) && std::env::var("VERIF_NO_FUZZ").is_err() {
        let (_lines, inconclusive) = fuzz_stage(&mut ctx, run);
        if inconclusive {
            exit = 2;
        }
    }
    for v in &ctx.violations {
        violation_lines.push(format!("VIOLATION property={prop} replay={}", v.replay_path.display()));
    }
    for (sig, n) in &ctx.known_hits {
        if !known_confirmed.contains(sig) {
            if let Some(k) = known.iter().find(|k| &k.signature == sig) {
                println!("KNOWN-FINDING: property={prop} {} — {} (rediscovered {n}x by the campaign)", k.signature, k.what);
                known_confirmed.push(sig.clone());
            }
        }
    }
    for msg in &ctx.inconclusive {
        eprintln!("INCONCLUSIVE: {msg}");
        exit = 2;
    }
    {
        let trouble = HARNESS_TROUBLE.lock().unwrap();
        if !trouble.is_empty() {
            let total: u64 = ctx.subs.values().map(|s| s.evaluations).sum();
            eprintln!("note: {} of {} cases were inconclusive for harness reasons, e.g. {}", trouble.len(), total, trouble[0]);
            if trouble.len() as u64 > 3 + total / 50 {
                eprintln!("INCONCLUSIVE: too many inconclusive cases");
                exit = 2;
            }
        }
    }

    // 3. evidence
    let mut ev = ctx.evidence(&known_confirmed);
    ev["violations"] = json!(violation_lines.len());
    let evdir = out_root().join("evidence");
    let _ = std::fs::create_dir_all(&evdir);
    let evpath = evdir.join(format!("{prop}.json"));
    if let Err(e) = std::fs::write(&evpath, serde_json::to_string_pretty(&ev).unwrap()) {
        eprintln!("cannot write evidence: {e}");
        exit = 2;
    }
    let cov = &ev["coverage"];
    println!(
        "{prop} tier={} seed={} evaluations={} distinct_nontrivial={} excluded={} replays={} wall={:.1}s",
        tier.name(),
        seed,
        cov["evaluations"],
        cov["distinct_nontrivial"],
        cov["excluded"],
        replays_run,
        ctx.wall_s()
    );
    if !violation_lines.is_empty() {
        for l in &violation_lines {
            println!("{l}");
        }
        return 1;
    }
    exit
}

/// Helper used by strategies: monotone index mapping (shrinks towards 0).
pub fn pick_idx(raw: u16, len: usize) -> usize {
    if len == 0 {
        0
    } else {
        ((raw as usize) * len) >> 16
    }
}

/// Small deterministic PRNG for expanding compact descriptors (seed → bytes) inside interpreters.
#[derive(Clone)]
pub struct SplitMix(pub u64);
impl SplitMix {
    pub fn next(&mut self) -> u64 {
        self.0 = self.0.wrapping_add(0x9E3779B97F4A7C15);
        let mut z = self.0;
        z = (z ^ (z >> 30)).wrapping_mul(0xBF58476D1CE4E5B9);
        z = (z ^ (z >> 27)).wrapping_mul(0x94D049BB133111EB);
        z ^ (z >> 31)
    }
    pub fn below(&mut self, n: u64) -> u64 {
        if n == 0 {
            0
        } else {
            self.next() % n
        }
    }
    pub fn fill(&mut self, buf: &mut [u8]) {
        for chunk in buf.chunks_mut(8) {
            let v = self.next().to_le_bytes();
            chunk.copy_from_slice(&v[..chunk.len()]);
        }
    }
    pub fn bytes(&mut self, len: usize) -> Vec<u8> {
        let mut v = vec![0u8; len];
        self.fill(&mut v);
        v
    }
}

/// Deterministic bytes for (seed, len): used to describe large payloads compactly in cases.
pub fn fill_bytes(seed: u64, len: usize) -> Vec<u8> {
    SplitMix(seed).bytes(len)
}

#[allow(dead_code)]
fn _assert_value_tree<T: ValueTree>() {}

// -------------------------------------------------------------------------------------------------
// byte-level, coverage-guided fuzzing of the same generators and oracles (libFuzzer, thorough tier)

/// Properties whose input domain is a byte string: these have a raw-bytes entry (`props::fuzz_bytes`) and a libFuzzer target.
pub const FUZZABLE: [&str; 4] = ["C04", "C18", "C19", "C20"];

/// Byte-level entry of a property: judges one input with the oracle of the campaign it names.
pub type FuzzFn = fn(&[u8]) -> Option<FuzzOutcome>;

/// Judge one fuzz input (panics inside the property code become failures, as in the campaigns).
pub fn fuzz_eval(prop: &str, _run: PropFn, data: &[u8]) -> Option<FuzzOutcome> {
    install_panic_hook();
    let f = crate::props::fuzz_bytes(prop)?;
    f(data)
}

/// Entry point of the libFuzzer targets: aborts (so that libFuzzer keeps the input) on a violation that is neither
/// harness trouble nor a listed known finding. With VERIF_FUZZ_SUB=<n> the process fuzzes one decoder / conversion only
/// (the selector byte is supplied here instead of by the input), which keeps each job's corpus focused.
pub fn fuzz_entry(prop: &str, run: PropFn, data: &[u8]) {
    static SUB: OnceLock<Option<u8>> = OnceLock::new();
    let sub = SUB.get_or_init(|| std::env::var("VERIF_FUZZ_SUB").ok().and_then(|v| v.parse().ok()));
    let owned;
    let data = match sub {
        Some(b) => {
            let mut v = Vec::with_capacity(data.len() + 1);
            v.push(*b);
            v.extend_from_slice(data);
            owned = v;
            &owned[..]
        }
        None => data,
    };
    if let Some(FuzzOutcome { sub, result: Err(fail), .. }) = fuzz_eval(prop, run, data) {
        if fail.signature.contains("/harness-") {
            return;
        }
        if load_all_known().iter().any(|k| k.status == "known" && k.signature == fail.signature) {
            return;
        }
        eprintln!("fuzz violation in {prop}/{sub}: [{}] {}", fail.signature, fail.message);
        std::process::abort();
    }
}

fn fuzz_runs_per_job(prop: &str) -> u64 {
    match prop {
        // every input sets up an in-memory yamux pair on a paused runtime
        "C04" => 40_000,
        _ => 400_000,
    }
}

/// Thorough tier: build the libFuzzer target of this property, run 16 independent processes with a fixed number of runs
/// each, turn crashes into replay files, and account the final corpora with the property's own non-triviality rule.
/// Returns violation lines and whether the stage was inconclusive.
fn fuzz_stage(ctx: &mut Ctx, run: PropFn) -> (Vec<String>, bool) {
    let prop = ctx.prop.clone();
    let target = prop.to_lowercase();
    let fuzz_dir = Path::new(VERIF_ROOT).join("harness").join("fuzz");
    let mut lines = Vec::new();
    let skipped = |ctx: &mut Ctx, why: String| {
        eprintln!("note: libFuzzer stage skipped: {why}");
        ctx.extra.insert("libfuzzer".into(), json!({"skipped": why}));
    };
    if !fuzz_dir.join("Cargo.toml").exists() {
        skipped(ctx, "no /verif/harness/fuzz crate".into());
        return (lines, false);
    }
    let build = std::process::Command::new("cargo")
        .args(["+nightly", "fuzz", "build", &target])
        .current_dir(Path::new(VERIF_ROOT).join("harness"))
        .env("CARGO_NET_OFFLINE", "true")
        .output();
    match build {
        Ok(o) if o.status.success() => {}
        Ok(o) => {
            let _ = std::fs::write(fuzz_dir.join("build.log"), &o.stderr);
            skipped(ctx, format!("cargo +nightly fuzz build {target} failed (see /verif/harness/fuzz/build.log)"));
            return (lines, false);
        }
        Err(e) => {
            skipped(ctx, format!("cannot start cargo: {e}"));
            return (lines, false);
        }
    }
    let bin = fuzz_dir.join("target/x86_64-unknown-linux-gnu/release").join(&target);
    if !bin.exists() {
        skipped(ctx, format!("{} not found after the build", bin.display()));
        return (lines, false);
    }
    let work = fuzz_dir.join("work").join(format!("{prop}-{}", ctx.seed));
    let _ = std::fs::remove_dir_all(&work);
    let jobs: usize = std::env::var("VERIF_FUZZ_JOBS").ok().and_then(|v| v.parse().ok()).unwrap_or(16);
    let runs: u64 = std::env::var("VERIF_FUZZ_RUNS").ok().and_then(|v| v.parse().ok()).unwrap_or_else(|| fuzz_runs_per_job(&prop));
    let mut children = Vec::new();
    let n_subs = crate::props::fuzz_subs(&prop).max(1);
    for j in 0..jobs {
        let dir = work.join(format!("job{j}"));
        let corpus = dir.join("corpus");
        let _ = std::fs::create_dir_all(&corpus);
        // each job fuzzes one decoder / conversion (round robin), so that its corpus stays focused
        let sub = (j % n_subs) as u8;
        // starting corpus: byte strings of several lengths derived from the seed (libFuzzer grows lengths slowly from nothing)
        // plus the valid encodings of this job's decoder
        let mut r = SplitMix(mix(mix(ctx.seed, fnv(&prop)), j as u64));
        for (k, len) in [1usize, 8, 24, 64, 160, 400, 1000, 2000].iter().enumerate() {
            let mut b = vec![0u8; *len];
            for x in b.iter_mut() {
                *x = r.next() as u8;
            }
            let _ = std::fs::write(corpus.join(format!("seed{k}")), b);
        }
        for (k, b) in crate::props::fuzz_seed_corpus(&prop).into_iter().enumerate() {
            if !b.is_empty() && (b[0] as usize % n_subs) as u8 == sub {
                let _ = std::fs::write(corpus.join(format!("valid{k}")), &b[1..]);
            }
        }
        let log = std::fs::File::create(dir.join("log.txt")).ok();
        let mut cmd = std::process::Command::new(&bin);
        cmd.arg(&corpus)
            .arg(format!("-runs={runs}"))
            .arg(format!("-seed={}", (mix(ctx.seed, j as u64) % 0x7fff_ffff) + 1))
            .arg("-max_len=2048")
            .arg("-len_control=0")
            .arg("-timeout=60")
            .arg("-rss_limit_mb=4096")
            .arg("-print_final_stats=1")
            .arg(format!("-artifact_prefix={}/", dir.display()))
            .env("VERIF_OUT", &dir)
            .env("VERIF_FUZZ_SUB", sub.to_string())
            .stdout(std::process::Stdio::null());
        match log {
            Some(f) => {
                cmd.stderr(f);
            }
            None => {
                cmd.stderr(std::process::Stdio::null());
            }
        }
        match cmd.spawn() {
            Ok(c) => children.push((j, c)),
            Err(e) => {
                skipped(ctx, format!("cannot start the fuzz target: {e}"));
                return (lines, false);
            }
        }
    }
    for (_, c) in children.iter_mut() {
        let _ = c.wait();
    }
    // collect
    let mut executed = 0u64;
    let mut artifacts: Vec<(PathBuf, u8)> = Vec::new();
    let mut corpus_files: Vec<(PathBuf, u8)> = Vec::new();
    for j in 0..jobs {
        let dir = work.join(format!("job{j}"));
        if let Ok(t) = std::fs::read_to_string(dir.join("log.txt")) {
            for l in t.lines() {
                if let Some(v) = l.strip_prefix("stat::number_of_executed_units:") {
                    executed += v.trim().parse::<u64>().unwrap_or(0);
                }
            }
        }
        if let Ok(rd) = std::fs::read_dir(&dir) {
            for e in rd.flatten() {
                let name = e.file_name().to_string_lossy().to_string();
                if name.starts_with("crash-") || name.starts_with("timeout-") || name.starts_with("oom-") || name.starts_with("leak-") {
                    artifacts.push((e.path(), (j % n_subs) as u8));
                }
            }
        }
        if let Ok(rd) = std::fs::read_dir(dir.join("corpus")) {
            for e in rd.flatten() {
                corpus_files.push((e.path(), (j % n_subs) as u8));
            }
        }
    }
    corpus_files.sort();
    let mut inconclusive = false;
    // crashes: re-judge in this (non-sanitised) process to obtain the case and the signature
    let mut seen_sigs: BTreeSet<String> = BTreeSet::new();
    for (a, sub) in &artifacts {
        let name = a.file_name().unwrap().to_string_lossy().to_string();
        let mut data = vec![*sub];
        data.extend(std::fs::read(a).unwrap_or_default());
        if !name.starts_with("crash-") {
            eprintln!("INCONCLUSIVE: libFuzzer reported {name} (slow or memory-hungry input, not a verdict): {}", a.display());
            inconclusive = true;
            continue;
        }
        match fuzz_eval(&prop, run, &data) {
            Some(FuzzOutcome { sub, case, result: Err(fail) }) if !fail.signature.contains("/harness-") => {
                if ctx.is_known(&fail.signature) {
                    *ctx.known_hits.entry(fail.signature.clone()).or_default() += 1;
                } else if seen_sigs.insert(fail.signature.clone()) {
                    eprintln!("violation in {prop}/{sub} (libFuzzer): [{}] {}", fail.signature, fail.message);
                    ctx.record_violation(&sub, &case, fail);
                }
            }
            _ => {
                eprintln!("INCONCLUSIVE: libFuzzer crash does not reproduce outside the sanitised build: {}", a.display());
                inconclusive = true;
            }
        }
    }
    for v in &ctx.violations {
        let l = format!("VIOLATION property={prop} replay={}", v.replay_path.display());
        if !lines.contains(&l) {
            lines.push(l);
        }
    }
    // account the final corpora (inputs that reached new coverage) with the property's own non-triviality rule
    let mut st = SubStats::default();
    let mut rejected = 0u64;
    for (f, sub) in corpus_files.iter().take(30_000) {
        let mut data = vec![*sub];
        data.extend(std::fs::read(f).unwrap_or_default());
        match fuzz_eval(&prop, run, &data) {
            Some(FuzzOutcome { case, result: Ok(ok), .. }) => account(&mut st, &case, &ok),
            Some(_) => {}
            None => rejected += 1,
        }
    }
    let corpus_cases = st.evaluations;
    st.evaluations = executed.max(corpus_cases);
    ctx.extra.insert(
        "libfuzzer".into(),
        json!({
            "jobs": jobs, "runs_per_job": runs, "executed_units": executed, "corpus_inputs": corpus_files.len(), "corpus_inputs_generating_a_case": corpus_cases,
            "corpus_inputs_rejected_by_generator": rejected, "artifacts": artifacts.iter().map(|a| a.0.display().to_string()).collect::<Vec<_>>(),
            "note": "each job fuzzes one decoder / conversion (round robin over jobs); an input is that decoder's raw input; the oracle is the one of the campaign named in the case; distinct_nontrivial of this stage counts corpus inputs (those that reached new coverage) whose case is non-trivial by the rule above"
        }),
    );
    if !ctx.subs.contains_key("libfuzzer") {
        ctx.sub_order.push("libfuzzer".to_string());
    }
    ctx.subs.insert("libfuzzer".to_string(), st);
    if artifacts.is_empty() {
        let _ = std::fs::remove_dir_all(&work);
    }
    (lines, inconclusive)
}
