#![no_main]
//! libFuzzer target for C19: byte 0 selects the decoder / conversion, the rest is its literal input;
//! the oracle is the campaign's own (see harness/src/props/c19.rs and engine::fuzz_entry).
use libfuzzer_sys::fuzz_target;

fuzz_target!(|data: &[u8]| {
    vh::engine::fuzz_entry("C19", vh::props::lookup("C19").expect("registered"), data);
});
