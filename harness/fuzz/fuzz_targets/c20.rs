#![no_main]
//! libFuzzer target for C20: byte 0 selects the conversion (codec for C04), the rest is the literal input;
//! the oracle is the campaign's own (see harness/src/props/c20.rs and engine::fuzz_entry).
use libfuzzer_sys::fuzz_target;

fuzz_target!(|data: &[u8]| {
    vh::engine::fuzz_entry("C20", vh::props::lookup("C20").expect("registered"), data);
});
