#!/usr/bin/env python3
"""Regenerates /verif/MANIFEST.json from the table below (keeps it schema-valid at every commit)."""
import json, subprocess, sys, os

ALL = ["C%02d" % i for i in range(1, 21)]

# property -> (technique, level text, level note, design_ref)
BUILT = {
}

def load_built():
    path = os.path.join(os.path.dirname(__file__), "checks.json")
    return json.load(open(path))

def main():
    built = load_built()
    hooks_commits = subprocess.run(
        ["git", "-C", "/repo", "log", "--format=%H %s", "9101728..HEAD"],
        capture_output=True, text=True).stdout.strip().splitlines()
    hook_shas = [l.split()[0] for l in hooks_commits if " verif hooks:" in " " + l.split(" ", 1)[1] or l.split(" ", 1)[1].startswith("verif hooks")]
    checks = []
    for pid in ALL:
        if pid not in built:
            continue
        b = built[pid]
        checks.append({
            "property_id": pid,
            "quick_cmd": f"./check {pid} --tier quick",
            "thorough_cmd": f"./check {pid} --tier thorough",
            "evidence_file": f"/verif/evidence/{pid}.json",
            "replay_cmd_template": f"./check {pid} --replay {{path}}",
            "engine": "vh",
            "level_claimed": {
                "category": "exploration",
                "text": b["text"],
                "design_ref": b.get("design_ref", f"DESIGN.md §3 {pid}"),
            },
            "level_note": b["note"],
            "technique": b["technique"],
        })
    na = [{"property_id": p, "reason": "check not built yet at this commit (work in progress; DESIGN.md §3 describes the planned check)"}
          for p in ALL if p not in built]
    manifest = {
        "version": 1,
        "setup_cmd": "cd /verif/harness && CARGO_NET_OFFLINE=true cargo build --offline",
        "hooks": {
            "guard": "cargo feature `verif` of the litep2p crate (off by default)",
            "enable": "the harness crate /verif/harness depends on litep2p = { path = \"/repo\", features = [\"verif\"] }; every ./check run starts with cargo build, so it compiles /repo's current working tree with the feature on",
            "baseline_off_cmd": "cd /repo && cargo nextest run --workspace --no-fail-fast --test-threads 8 --offline",
            "source_commits": hook_shas,
            "add_only": True,
        },
        "engines": [
            {"name": "vh", "path": "/verif/harness", "serves_properties": [c["property_id"] for c in checks],
             "kind_free_text": "Rust harness crate: seeded proptest TestRunner campaigns (generated inputs / op histories / schedules / injected faults) against the real litep2p code with explicit oracles, shrinking to JSON replay files, known-finding matcher, evidence writer"},
        ],
        "checks": checks,
        "not_applicable": na,
        "notes": "Exit codes: 0 held, 1 VIOLATION, 2 harness trouble (watchdog/build/calibration) — never a verdict. VERIF_SEED selects the proptest seed. Committed replays in /verif/replays/<id>/ run first on every invocation; new failures are written to /verif/failures/<id>/.",
    }
    json.dump(manifest, open("/verif/MANIFEST.json", "w"), indent=1)
    print("claimed:", [c["property_id"] for c in checks])

if __name__ == "__main__":
    main()
