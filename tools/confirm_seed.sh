#!/bin/bash
# usage: confirm_seed.sh <wt-name>   — confirms an agent's seeded change in its worktree /tmp/wt/<name> using /tmp/seed/<name>/
# 1. demo fails with patch  2. suite passes with patch (demo excluded)  3. demo passes without patch
set -u
N=$1; W=/tmp/wt/$N; S=/tmp/seed/$N
cd $W || exit 2
DEMO=$(python3 -c "import json;print(json.load(open('$S/meta.json'))['demo_cmd'])")
echo "demo_cmd: $DEMO"
git checkout -q -- . ; git clean -fdq -e target
git apply $S/patch.diff || { echo "PATCH DOES NOT APPLY"; exit 1; }
if [ -f $S/demo.diff ]; then git apply $S/demo.diff || { echo "DEMO DOES NOT APPLY"; exit 1; }; fi
cargo build --offline --features verif >/dev/null 2>&1 && echo "build(verif): ok" || echo "build(verif): FAIL"
( eval "$DEMO" ) > $S/demo_with.log 2>&1; echo "demo with patch: exit=$? (expect non-zero)"
cargo nextest run --workspace --no-fail-fast --test-threads 8 --offline > $S/suite_with.log 2>&1; echo "suite with patch: exit=$?"; grep -E "^\s+Summary|FAIL \[" $S/suite_with.log | sort | uniq -c | head -8
git apply -R $S/patch.diff || { echo "REVERSE FAILED"; exit 1; }
( eval "$DEMO" ) > $S/demo_without.log 2>&1; echo "demo without patch: exit=$? (expect 0)"
