#!/bin/bash
# usage: keep_seed.sh <wt-name> <seeded-dir-name>  — store a confirmed seeded change under /verif/seeded/<dir> and drop its worktree
set -u
N=$1; D=/verif/seeded/$2; S=/tmp/seed/$N
mkdir -p $D
cp $S/patch.diff $D/; [ -f $S/demo.diff ] && cp $S/demo.diff $D/; [ -f $S/demo.rs ] && cp $S/demo.rs $D/
python3 - "$S" "$D" <<'PY'
import json,sys
s,d=sys.argv[1],sys.argv[2]
m=json.load(open(s+'/meta.json'))
m['confirmed_by_me']=open(s+"/confirm.log" if __import__("os").path.exists(s+"/confirm.log") else s+"/confirm.out").read()
json.dump(m,open(d+'/meta.json','w'),indent=1)
PY
git -C /repo worktree remove --force /tmp/wt/$N && echo "removed worktree $N"
