#!/usr/bin/env python3-vt
import json, jsonschema, glob, sys
ok = True
jsonschema.validate(json.load(open('/verif/MANIFEST.json')), json.load(open('/root/.vp/MANIFEST.schema.json')))
es = json.load(open('/root/.vp/EVIDENCE.schema.json'))
for f in sorted(glob.glob('/verif/evidence/*.json')):
    try:
        jsonschema.validate(json.load(open(f)), es)
    except Exception as e:
        ok = False; print("INVALID", f, str(e)[:300])
m = json.load(open('/verif/MANIFEST.json'))
claimed = {c['property_id'] for c in m['checks']}
na = {c['property_id'] for c in m.get('not_applicable', [])}
allp = {json.loads(l)['id'] for l in open('/verif/properties.jsonl')}
assert claimed | na == allp and not (claimed & na), (claimed, na)
print("valid" if ok else "INVALID", "claimed", sorted(claimed))
sys.exit(0 if ok else 1)
