#!/bin/bash
# usage: tools/mutant.sh <patch.diff> <Cxx> [<Cxx> ...]   (env: SEEDS="1 2 3", TIER=quick)
# Applies a patch to a scratch copy of /repo (never to /repo itself), builds a scratch copy of the
# harness against it and runs the given checks. Prints one line per (check, seed): exit code.
set -u
PATCH=$(readlink -f "$1"); shift
M=/tmp/vmut
mkdir -p $M
rsync -a --delete --exclude target --exclude .git /repo/ $M/repo/
rsync -a --delete --exclude target --exclude build.log /verif/harness/ $M/harness/
if [ ! -d $M/harness/target ]; then cp -r /verif/harness/target $M/harness/target 2>/dev/null; fi
sed -i "s#path = \"/repo\"#path = \"$M/repo\"#" $M/harness/Cargo.toml
if [ "$PATCH" != "/dev/null" ]; then
  (cd $M/repo && patch -p1 --no-backup-if-mismatch < "$PATCH" >/dev/null) || { echo "patch failed"; exit 2; }
fi
(cd $M/harness && CARGO_NET_OFFLINE=true cargo build --offline > $M/build.log 2>&1) || { echo "BUILD FAILED"; tail -30 $M/build.log; exit 2; }
mkdir -p $M/out
for c in "$@"; do
  for s in ${SEEDS:-1 2 3}; do
    VERIF_OUT=$M/out VERIF_SEED=$s timeout 3000 $M/harness/target/debug/vh $c --tier ${TIER:-quick} > $M/out/$c.$s.log 2>&1
    rc=$?
    echo "$c seed=$s exit=$rc $(grep -m1 -h 'violation in' $M/out/$c.$s.log | cut -c1-220)"
  done
done
