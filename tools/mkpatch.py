#!/usr/bin/env python3
"""usage: mkpatch.py out.diff file 'old' 'new' [file 'old' 'new' ...]  — builds a unified diff against /repo without touching it."""
import sys, difflib
out = sys.argv[1]
args = sys.argv[2:]
res = []
for i in range(0, len(args), 3):
    f, old, new = args[i:i+3]
    s = open('/repo/' + f).read()
    assert s.count(old) >= 1, f"pattern not found in {f}: {old!r}"
    t = s.replace(old, new, 1)
    res.extend(difflib.unified_diff(s.splitlines(True), t.splitlines(True), 'a/' + f, 'b/' + f))
open(out, 'w').write(''.join(res))
