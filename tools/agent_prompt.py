#!/usr/bin/env python3
"""prints the sub-agent brief for a property id and worktree name: agent_prompt.py C05 c05a"""
import json, sys
pid, wt = sys.argv[1], sys.argv[2]
extra = sys.argv[3] if len(sys.argv) > 3 else ""
p = [json.loads(l) for l in open('/verif/properties.jsonl') if json.loads(l)['id'] == pid][0]
print(f"""You are helping to evaluate a verification effort for the Rust crate paritytech/litep2p (a libp2p-compatible networking library). Your job is to act as a realistic source of bugs.

You have your own scratch git worktree of the repository at /tmp/wt/{wt} (a checkout of the repository; a pre-built `target/` directory is already in it so builds are incremental). Work ONLY inside /tmp/wt/{wt} and /tmp/seed/{wt}. Never read or write /verif, and never modify /repo. The machine has no network: always pass --offline to cargo.

The semantic property (id {pid}: "{p['title']}"):

STATEMENT: {p['statement']}

QUANTIFIED OVER: {p['quantifier']['text']}

Code involved: {', '.join(p['anchors']['files'])}

TASK. Produce ONE change to the library source (under src/, not tests) that BREAKS this property, while:
 1. the crate still compiles (`cargo build --offline` and `cargo build --offline --features verif`, both must work — `verif` is an off-by-default feature with a few extra accessors; do not edit code guarded by `#[cfg(feature = "verif")]`),
 2. the existing test suite still passes: `cd /tmp/wt/{wt} && cargo nextest run --workspace --no-fail-fast --test-threads 8 --offline` (420 tests; if a handful of network-timing tests flake, re-run those; the unit tests under the modules you touched MUST pass),
 3. the change looks like something a developer could plausibly write (a refactoring slip, an off-by-one, a wrong branch, a forgotten update of a second data structure, a reordered pair of statements, a missed case) — not sabotage with magic constants,
 4. the breakage needs something SPECIFIC to manifest: a particular interleaving, a fault at a particular point, a multi-step sequence of operations, an unusual-but-legal input, a boundary size, or two cooperating sites that each look fine alone. It must NOT be exposed at once by ordinary use (a plain connect / send / receive between two nodes must still work).
{extra}
Also write a DEMONSTRATION: a new Rust test (an integration test file under tests/ or a #[cfg(test)] unit test in the touched module, your choice) that FAILS with your change and PASSES without it, and that shows the property violation through behaviour described in the statement (not by peeking at a private field unless unavoidable). Verify both directions yourself (git stash / apply the source change).

DELIVERABLES, all under /tmp/seed/{wt}/ (create it):
 - patch.diff : `git diff` of ONLY the library source change (no demo test in it), applicable with `git apply` at the repository root.
 - demo.diff  : `git diff` (or the new file itself, demo.rs, with a note where it goes) adding the demonstration test.
 - meta.json  : {{"property": "{pid}", "summary": one sentence on what was changed, "needs": what specific condition makes it manifest, "demo_cmd": exact command to run the demo, "ran": what you ran and observed (with and without the change, and the suite result)}}.
Leave the worktree with the patch applied and the demo test present. Keep your final answer short: the summary, what it needs to manifest, and whether all three verifications (builds, suite passes, demo fails-with/passes-without) succeeded.""")
